import EmmyVerif.Model.IndexMap
/-!
# Index family — type, operator, metatable and member indexes at method granularity

`LuaTypeIndex` (type/mod.rs), `LuaOperatorIndex` (operators/mod.rs), `LuaMetatableIndex` (metatable/mod.rs) and
`LuaMemberIndex` (member/mod.rs): every public mutation method, `LuaIndex::remove` and `LuaIndex::clear`, with the
maps as association lists. Type ids are global names (`LuaTypeIdentifier::Global`); workspace-internal and
file-local ids are not modelled. Values that the index code never inspects (types, ranges) are numbers.
-/
namespace Index.Sym
open Index

abbrev File := Nat
abbrev TId := Nat

/-- `LuaMemberOwner` (`LocalUnresolve` is the "unknown" owner) -/
inductive MOwner where
  | unknown
  | type (t : TId)
  | elem (f : File) (r : Nat)
  | glob (g : Nat)
deriving DecidableEq, Repr

abbrev MId := File × Nat

/-- `LuaMemberFeature`: 0 FileFieldDecl, 1 FileDefine, 2 FileMethodDecl, 3 MetaFieldDecl, 4 MetaDefine, 5 MetaMethodDecl -/
def isMetaDecl (feat : Nat) : Bool := feat == 3 || feat == 4 || feat == 5
def isDecl (feat : Nat) : Bool := feat != 1

structure Member where
  id : MId
  key : Nat
  feat : Nat
deriving DecidableEq, Repr

inductive InFiledItem where
  | member (m : MId)
  | owner (o : MOwner)
deriving DecidableEq, Repr

/-- `LuaMemberIndexItem` -/
inductive Item where
  | one (m : MId)
  | many (ms : List MId)
deriving DecidableEq, Repr

structure S where
  -- LuaTypeIndex
  fileNamespace : List (File × Nat)
  fileUsing : List (File × List Nat)
  fileTypes : List (File × List TId)
  decls : List (TId × List (File × Nat))        -- `full_name_type_map` (locations)
  generics : List (TId × Nat)
  supers : List (TId × List (File × Nat))
  typeCache : List ((File × Nat) × Nat)          -- `types`, owner = `LuaTypeOwner::Decl(file, pos)`
  inFiledTypeOwner : List (File × List (File × Nat))
  globalNames : List (TId × TId)
  -- LuaOperatorIndex
  operators : List ((File × Nat) × (TId × Nat))
  typeOperators : List (TId × List (Nat × List (File × Nat)))
  inFiledOperators : List (File × List (File × Nat))
  -- LuaMetatableIndex
  metatables : List ((File × Nat) × (File × Nat))
  -- LuaMemberIndex
  members : List (MId × Member)
  inFiled : List (File × List InFiledItem)
  ownerMembers : List (MOwner × List (Nat × Item))
  currentOwner : List (MId × MOwner)
deriving Repr

def S.new : S := ⟨[], [], [], [], [], [], [], [], [], [], [], [], [], [], [], [], []⟩

def insertD {α : Type} [DecidableEq α] (xs : List α) (x : α) : List α := if x ∈ xs then xs else xs ++ [x]

/-! ## LuaTypeIndex -/

/-- `add_type_decl` -/
def addTypeDecl (s : S) (f : File) (t : TId) (pos : Nat) : S :=
  { s with
    globalNames := if (aget s.globalNames t).isSome then s.globalNames else aset s.globalNames t t
    fileTypes := apush s.fileTypes f t
    decls := apush s.decls t (f, pos) }

/-- `add_super_type` -/
def addSuper (s : S) (f : File) (t : TId) (v : Nat) : S := { s with supers := apush s.supers t (f, v) }

/-- `add_generic_params` -/
def addGeneric (s : S) (t : TId) (v : Nat) : S := { s with generics := aset s.generics t v }

/-- `bind_type` (the first binding of an owner wins) -/
def bindType (s : S) (f : File) (pos v : Nat) : S :=
  if (aget s.typeCache (f, pos)).isSome then s
  else { s with typeCache := aset s.typeCache (f, pos) v
                inFiledTypeOwner := aset s.inFiledTypeOwner f (insertD (agetL s.inFiledTypeOwner f) (f, pos)) }

/-- the loop body of `LuaTypeIndex::remove` for one id of `file_types[file]` -/
def removeTypeId (f : File) (s : S) (t : TId) : S :=
  let (decls, removeType) :=
    match aget s.decls t with
    | none => (s.decls, false)
    | some locs =>
      let locs' := locs.filter fun (l : File × Nat) => l.1 ≠ f
      if locs'.isEmpty then (adel s.decls t, true) else (aset s.decls t locs', false)
  let supers :=
    match aget s.supers t with
    | none => s.supers
    | some ss =>
      let ss' := ss.filter fun (x : File × Nat) => x.1 ≠ f
      if ss'.isEmpty then adel s.supers t else aset s.supers t ss'
  { s with
    decls := decls
    supers := supers
    globalNames := if removeType then adel s.globalNames t else s.globalNames
    generics := if removeType then adel s.generics t else s.generics }

/-- `LuaTypeIndex::remove` -/
def removeTypes (s : S) (f : File) : S :=
  let s := { s with fileNamespace := adel s.fileNamespace f, fileUsing := adel s.fileUsing f }
  let s :=
    match aget s.fileTypes f with
    | none => s
    | some ids => ids.foldl (removeTypeId f) { s with fileTypes := adel s.fileTypes f }
  match aget s.inFiledTypeOwner f with
  | none => s
  | some owners =>
    { s with inFiledTypeOwner := adel s.inFiledTypeOwner f
             typeCache := owners.foldl (fun m o => adel m o) s.typeCache }

/-! ## LuaOperatorIndex -/

/-- `add_operator` (id = (file, position)) -/
def addOperator (s : S) (f : File) (pos : Nat) (owner : TId) (op : Nat) : S :=
  let inner := agetL s.typeOperators owner
  { s with
    operators := aset s.operators (f, pos) (owner, op)
    typeOperators := aset s.typeOperators owner (aset inner op (agetL inner op ++ [(f, pos)]))
    inFiledOperators := apush s.inFiledOperators f (f, pos) }

/-- the loop body of `LuaOperatorIndex::remove` -/
def removeOperatorId (s : S) (id : File × Nat) : S :=
  match aget s.operators id with
  | none => s
  | some (owner, op) =>
    let s := { s with operators := adel s.operators id }
    match aget s.typeOperators owner with
    | none => s
    | some inner =>
      match aget inner op with
      | none => s
      | some ids =>
        let ids' := ids.filter fun x => x ≠ id
        let inner' := if ids'.isEmpty then adel inner op else aset inner op ids'
        { s with typeOperators := if inner'.isEmpty then adel s.typeOperators owner else aset s.typeOperators owner inner' }

def removeOperators (s : S) (f : File) : S :=
  match aget s.inFiledOperators f with
  | none => s
  | some ids => ids.foldl removeOperatorId { s with inFiledOperators := adel s.inFiledOperators f }

/-! ## LuaMemberIndex -/

def addInFile (s : S) (f : File) (it : InFiledItem) : S :=
  { s with inFiled := aset s.inFiled f (insertD (agetL s.inFiled f) it) }

/-- `is_item_only_meta` -/
def isItemOnlyMeta (s : S) : Item → Bool
  | .one id =>
    match aget s.members id with
    | some m => isMetaDecl m.feat
    | none => false
  | .many ids =>
    ids.all fun id =>
      match aget s.members id with
      | some m => isMetaDecl m.feat
      | none => true

/-- `add_member_to_owner` -/
def addMemberToOwner (s : S) (owner : MOwner) (id : MId) : S :=
  match aget s.members id with
  | none => s
  | some m =>
    -- `entry(owner).or_insert_with(LuaOwnerMembers::new)`
    let s := if (aget s.ownerMembers owner).isSome then s else { s with ownerMembers := aset s.ownerMembers owner [] }
    let map := agetL s.ownerMembers owner
    let put (it : Item) : S := { s with ownerMembers := aset s.ownerMembers owner (aset map m.key it) }
    if isDecl m.feat then
      match aget map m.key with
      | some (.one old) => if old ≠ id then put (.many [old, id]) else s
      | some (.many ids) => if id ∈ ids then s else put (.many (ids ++ [id]))
      | none => put (.one id)
    else
      match aget map m.key with
      | none => put (.one id)
      | some item =>
        if isItemOnlyMeta s item then
          match item with
          | .one old => if old = id then s else put (.many [id, old])
          | .many ids => if id ∈ ids then s else put (.many (ids ++ [id]))
        else s

/-- `set_member_owner` -/
def setMemberOwner (s : S) (owner : MOwner) (f : File) (id : MId) : S :=
  addInFile { s with currentOwner := aset s.currentOwner id owner } f (.owner owner)

/-- `add_member` -/
def addMember (s : S) (owner : MOwner) (m : Member) : S :=
  let s := { s with members := aset s.members m.id m }
  let s := addInFile s m.id.1 (.member m.id)
  if owner = .unknown then s
  else
    let s := { s with currentOwner := aset s.currentOwner m.id owner }
    let s := addInFile s m.id.1 (.owner owner)
    addMemberToOwner s owner m.id

/-- the per-owner part of `LuaMemberIndex::remove` -/
def removeFromOwner (f : File) (s : S) (owner : MOwner) : S :=
  match aget s.ownerMembers owner with
  | none => s
  | some map =>
    let map' := map.filterMap fun e =>
      match e.2 with
      | .one id => if id.1 = f then none else some e
      | .many ids =>
        let ids' := ids.filter fun id => id.1 ≠ f
        if ids'.isEmpty then none else some (e.1, .many ids')
    { s with ownerMembers := if map'.isEmpty then adel s.ownerMembers owner else aset s.ownerMembers owner map' }

/-- first loop of `LuaMemberIndex::remove`: a listed member leaves `members` and `member_current_owner` -/
def dropMemberItem (s : S) : InFiledItem → S
  | .member id => { s with members := adel s.members id, currentOwner := adel s.currentOwner id }
  | .owner _ => s

def ownerOfItem : InFiledItem → Option MOwner
  | .owner o => some o
  | .member _ => none

/-- `LuaMemberIndex::remove` -/
def removeMembers (s : S) (f : File) : S :=
  match aget s.inFiled f with
  | none => s
  | some items =>
    (items.filterMap ownerOfItem).foldl (removeFromOwner f)
      (items.foldl dropMemberItem { s with inFiled := adel s.inFiled f })

/-! ## mutations, remove, clear -/

inductive Mut where
  | tdecl (f : File) (t : TId) (pos : Nat)
  | tsuper (f : File) (t : TId) (v : Nat)
  | tgeneric (t : TId) (v : Nat)
  | tbind (f : File) (pos v : Nat)
  | tns (f : File) (v : Nat)
  | tusing (f : File) (v : Nat)
  | oper (f : File) (pos : Nat) (owner : TId) (op : Nat)
  | mtable (f : File) (k v : Nat)
  | madd (owner : MOwner) (m : Member)
  | mset (owner : MOwner) (f : File) (id : MId)
  | mto (owner : MOwner) (id : MId)
deriving Repr

def apply (s : S) : Mut → S
  | .tdecl f t pos => addTypeDecl s f t pos
  | .tsuper f t v => addSuper s f t v
  | .tgeneric t v => addGeneric s t v
  | .tbind f pos v => bindType s f pos v
  | .tns f v => { s with fileNamespace := aset s.fileNamespace f v }
  | .tusing f v => { s with fileUsing := apush s.fileUsing f v }
  | .oper f pos owner op => addOperator s f pos owner op
  | .mtable f k v => { s with metatables := aset s.metatables (f, k) (f, v) }
  | .madd owner m => addMember s owner m
  | .mset owner f id => setMemberOwner s owner f id
  | .mto owner id => addMemberToOwner s owner id

/-- `DbIndex::remove(file)` restricted to these four indexes (in `DbIndex::remove`'s order) -/
def remove (s : S) (f : File) : S :=
  let s := removeTypes s f
  let s := removeMembers s f
  let s := removeOperators s f
  { s with metatables := s.metatables.filter fun e => e.1.1 ≠ f }

/-- `clear` of the four indexes: a map is emptied iff the source's `clear` resets its field -/
def clear (s : S) : S :=
  let k {α : Type} (idx fld : String) (m : List α) : List α := if survivesClear (some (idx, fld)) then m else []
  { fileNamespace := k "types_index" "file_namespace" s.fileNamespace
    fileUsing := k "types_index" "file_using_namespace" s.fileUsing
    fileTypes := k "types_index" "file_types" s.fileTypes
    decls := k "types_index" "full_name_type_map" s.decls
    generics := k "types_index" "generic_params" s.generics
    supers := k "types_index" "supers" s.supers
    typeCache := k "types_index" "types" s.typeCache
    inFiledTypeOwner := k "types_index" "in_filed_type_owner" s.inFiledTypeOwner
    globalNames := k "types_index" "global_name_type_map" s.globalNames
    operators := k "operator_index" "operators" s.operators
    typeOperators := k "operator_index" "type_operators_map" s.typeOperators
    inFiledOperators := k "operator_index" "in_filed_operator_map" s.inFiledOperators
    metatables := k "metatable_index" "metatables" s.metatables
    members := k "members_index" "members" s.members
    inFiled := k "members_index" "in_filed" s.inFiled
    ownerMembers := k "members_index" "owner_members" s.ownerMembers
    currentOwner := k "members_index" "member_current_owner" s.currentOwner }

def build (ms : List Mut) : S := ms.foldl apply S.new

end Index.Sym
