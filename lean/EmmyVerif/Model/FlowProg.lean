import EmmyVerif.Model.Flow
/-!
# Flow family, part 2: the fragment language `F`, its semantics `Sem`, and `TypeAt`

`F`: a preamble of `local v_i = <literal>` / `local v_i` declarations followed by a block of
assignments `v = <literal>`, probes `p(id, v)`, and `if / elseif / else` whose conditions are built
from `v`, `type(v) == "T"`, `type(v) ~= "T"`, `v == nil`, `v ~= nil`, `v == <literal>`, `v ~= <literal>`,
`t_v == "T"` / `t_v ~= "T"` for a preamble local `t_v = type(v)`, `not`, `and`, `or`.

`Sem` (`exec`): big-step execution recording `(probe id, variable, value)` at every probe reached.

`TypeAt` (`aexec`): what the analyzer infers at every probe. It is the flow graph of
`compilation/analyzer/flow/bind_analyze/{stats,exprs/*}.rs` and the backward walk of
`semantic/infer/narrow/get_type_at_flow.rs`, presented in forward form: for every flow node the model
keeps, per variable, the result of the query `(variable, node, mode)` for the three `FlowMode`s
(`Normal`, `MergeBranch`, `IgnoreConditions`). A walk that collects pending condition narrows and
applies them oldest-first at the node that produces a type computes exactly
`result(node) = narrow_node (result (antecedent node))`, which is what the forward form evaluates;
branch labels are kept as the list of their (flattened) incoming nodes and merged when queried
(`get_branch_label_flow_ids`, `Continuation::Merge`).
-/
namespace Flow

/-! ## Syntax of `F` -/

inductive Lit where
  | nil | bool (b : Bool) | int (n : Nat) | flt (k : Nat) | str (s : Nat) | tbl (id : Nat)
  deriving DecidableEq, Repr, Inhabited

/-- the strings `type()` can return for values of `F` -/
inductive TName where
  | nil | boolean | number | string | table
  deriving DecidableEq, Repr, Inhabited

/-- literals that may appear on the right of `==` / `~=` (no `nil`: that is `isNil`; no table constructor) -/
inductive CLit where
  | bool (b : Bool) | int (n : Nat) | flt (k : Nat) | str (s : Nat)
  deriving DecidableEq, Repr, Inhabited

def CLit.lit : CLit → Lit
  | .bool b => .bool b | .int n => .int n | .flt k => .flt k | .str s => .str s

/-- a condition that is not `and`/`or`/`not`: it gets a `TrueCondition` and a `FalseCondition` node -/
inductive Leaf where
  | truthy (x : Nat)
  /-- `type(x) == "t"` (`neg = false`) or `type(x) ~= "t"` (`neg = true`) -/
  | typeIs (x : Nat) (t : TName) (neg : Bool)
  /-- `x == nil` / `x ~= nil` -/
  | isNil (x : Nat) (neg : Bool)
  /-- `x == <literal>` / `x ~= <literal>` -/
  | eqLit (x : Nat) (l : CLit) (neg : Bool)
  /-- `t_x == "t"` / `t_x ~= "t"` where the preamble declared `local t_x = type(v_x)`; `tn0` is the string stored
  in `t_x` (the `type()` of the initial value of `v_x`; `Prog.storedOK`) -/
  | stored (x : Nat) (tn0 : TName) (t : TName) (neg : Bool)
  deriving Repr, Inhabited

inductive Cond where
  | leaf (l : Leaf)
  | not (c : Cond)
  | and (a b : Cond)
  | or (a b : Cond)
  deriving Repr, Inhabited

mutual
inductive Stmt where
  | assign (x : Nat) (l : Lit)
  /-- `x = y` (`y` another variable) -/
  | assignVar (x : Nat) (y : Nat)
  | probe (id : Nat) (x : Nat)
  | ite (c : Cond) (thn : Block) (rest : Else)
inductive Else where
  | none
  | els (b : Block)
  | elif (c : Cond) (thn : Block) (rest : Else)
inductive Block where
  | nil
  | cons (s : Stmt) (rest : Block)
end

structure Prog where
  /-- `local v_i = lit` (`some lit`) or `local v_i` (`none`), in order -/
  decls : List (Option Lit)
  body : Block

/-! ## `Sem`: concrete semantics -/

inductive Val where
  | nil | bool (b : Bool) | int (n : Nat) | flt (k : Nat) | str (s : Nat) | tbl (id : Nat)
  deriving DecidableEq, Repr, Inhabited

def Lit.val : Lit → Val
  | .nil => .nil | .bool b => .bool b | .int n => .int n | .flt k => .flt k | .str s => .str s | .tbl i => .tbl i

def Val.typeName : Val → TName
  | .nil => .nil | .bool _ => .boolean | .int _ => .number | .flt _ => .number | .str _ => .string | .tbl _ => .table

def Val.truthy : Val → Bool
  | .nil => false | .bool b => b | _ => true

abbrev Env := List Val

def Env.get (ρ : Env) (x : Nat) : Val := ρ.getD x .nil

/-- evaluation of a leaf condition -/
def Leaf.eval (ρ : Env) : Leaf → Bool
  | .truthy x => (ρ.get x).truthy
  | .typeIs x t neg => ((ρ.get x).typeName == t) != neg
  | .isNil x neg => ((ρ.get x) == .nil) != neg
  | .eqLit x l neg => ((ρ.get x) == l.lit.val) != neg
  | .stored _ tn0 t neg => (tn0 == t) != neg

def Cond.eval (ρ : Env) : Cond → Bool
  | .leaf l => l.eval ρ
  | .not c => !(c.eval ρ)
  | .and a b => a.eval ρ && b.eval ρ
  | .or a b => a.eval ρ || b.eval ρ

/-- one trace entry: probe id, variable, value held -/
abbrev Obs := Nat × Nat × Val

mutual
def Stmt.exec (ρ : Env) : Stmt → Env × List Obs
  | .assign x l => (ρ.set x l.val, [])
  | .assignVar x y => (ρ.set x (ρ.get y), [])
  | .probe id x => (ρ, [(id, x, ρ.get x)])
  | .ite c thn rest => if c.eval ρ then thn.exec ρ else rest.exec ρ
def Else.exec (ρ : Env) : Else → Env × List Obs
  | .none => (ρ, [])
  | .els b => b.exec ρ
  | .elif c thn rest => if c.eval ρ then thn.exec ρ else rest.exec ρ
def Block.exec (ρ : Env) : Block → Env × List Obs
  | .nil => (ρ, [])
  | .cons s rest =>
    let r1 := s.exec ρ
    let r2 := rest.exec r1.1
    (r2.1, r1.2 ++ r2.2)
end

def Prog.initEnv (p : Prog) : Env := p.decls.map fun d => match d with | some l => l.val | none => .nil

/-- `Sem`: the probes reached, in order, with the value each variable holds -/
def Prog.run (p : Prog) : List Obs := (p.body.exec p.initEnv).2

/-! ## Which types contain which values -/

/-- `a.has v`: the runtime value `v` is a member of the non-union type `a`.
`unknown` is given *no* members: in `F` it is only produced on edges that cannot be taken
(`remove_false_or_nil nil`), and the soundness theorem shows it is never the type at a reached probe;
this is the stronger reading (the usual reading "`unknown` contains everything" follows). -/
def Atom.has : Atom → Val → Bool
  | .unknown, _ => false
  | .never, _ => false
  | .nil, .nil => true
  | .table, .tbl _ => true
  | .tblC _, .tbl _ => true
  | .boolean, .bool _ => true
  | .boolC b, .bool b' => b == b'
  | .string, .str _ => true
  | .strC s, .str s' => s == s'
  | .integer, .int _ => true
  | .intC n, .int m => n == m
  | .number, .int _ => true
  | .number, .flt _ => true
  | .fltC k, .flt k' => k == k'
  | _, _ => false

def Ty.has (t : Ty) (v : Val) : Bool := t.any fun a => a.has v

/-! ## Abstract side: literal and declared types -/

/-- `infer_expr` of a literal expression -/
def Lit.ty : Lit → Atom
  | .nil => .nil | .bool b => .boolC b | .int n => .intC n | .flt k => .fltC k | .str s => .strC s | .tbl i => .tblC i

/-- `bind_type`: a local that is assigned somewhere (`decl_ref.mutable`) gets its literal type widened -/
def widen : Atom → Atom
  | .intC _ => .integer | .strC _ => .string | .boolC _ => .boolean | .fltC _ => .number | a => a

mutual
def Stmt.assigns (x : Nat) : Stmt → Bool
  | .assign y _ => x == y
  | .assignVar y _ => x == y
  | .probe _ _ => false
  | .ite _ thn rest => thn.assigns x || rest.assigns x
def Else.assigns (x : Nat) : Else → Bool
  | .none => false
  | .els b => b.assigns x
  | .elif _ thn rest => thn.assigns x || rest.assigns x
def Block.assigns (x : Nat) : Block → Bool
  | .nil => false
  | .cons s rest => s.assigns x || rest.assigns x
end

/-- the type cache of local `x` (`get_var_ref_type`) -/
def Prog.declTy (p : Prog) (x : Nat) : Atom :=
  match p.decls.getD x none with
  | none => .nil
  | some l => if p.body.assigns x then widen l.ty else l.ty

/-! ## Flow queries in forward form -/

/-- `FlowQueryResult` -/
inductive Res where
  | unreach
  | ty (t : Ty)
  deriving DecidableEq, Repr, Inhabited

def Res.intoType : Res → Ty
  | .unreach => [.never]
  | .ty t => t

def Res.has : Res → Val → Bool
  | .unreach, _ => false
  | .ty t, v => t.has v

/-- `FlowMode` -/
inductive Mode where
  | normal | merge | ignore
  deriving DecidableEq, Repr, Inhabited

def Mode.forMerge : Mode → Mode
  | .normal => .merge | .merge => .merge | .ignore => .ignore

/-- results of the three queries for one variable at one flow node -/
structure Res3 where
  n : Res
  mb : Res
  ic : Res
  deriving DecidableEq, Repr, Inhabited

def Res3.get (r : Res3) : Mode → Res
  | .normal => r.n | .merge => r.mb | .ignore => r.ic

/-- per-variable results at one (non-label) flow node -/
abbrev St := List Res3

/-- a variable outside the declared range reads as `nil` (as it does in `Env.get`) -/
def St.get (s : St) (x : Nat) (m : Mode) : Res := (s.getD x ⟨.ty [.nil], .ty [.nil], .ty [.nil]⟩).get m

/-- a flow id as the walk sees it: an ordinary node, or a branch label with its flattened incoming nodes
(in the order `Continuation::Merge` unions them) -/
inductive Pt where
  | node (s : St)
  | label (ins : List St)
  deriving Repr, Inhabited

/-- what a flow id contributes when it is itself an antecedent of a branch label -/
def Pt.ins : Pt → List St
  | .node s => [s]
  | .label l => l

/-- the query `(x, p, m)`; branch labels: `0` incoming → unreachable, `1` → same mode through, else the
union of the incoming results in merge-contribution mode -/
def Pt.res (p : Pt) (x : Nat) (m : Mode) : Res :=
  match p with
  | .node s => s.get x m
  | .label [] => .unreach
  | .label [s] => s.get x m
  | .label ins => .ty (ins.foldl (fun acc s => unionTy acc (s.get x m.forMerge).intoType) [.never])

/-- `finish_flow_label`: a label with a single antecedent is replaced by that antecedent, one with none by
`dflt` -/
def finishLabel (ants : List Pt) (dflt : Pt) : Pt :=
  match ants with
  | [] => dflt
  | [p] => p
  | _ => .label (ants.flatMap Pt.ins)

/-- a node that changes no variable (`CallExprStat`) -/
def passNode (nv : Nat) (ant : Pt) : St :=
  (List.range nv).map fun x => ⟨ant.res x .normal, ant.res x .merge, ant.res x .ignore⟩

/-- the pending narrows of `F` -/
inductive Narrow where
  | truthiness (flow : Bool)
  | typeGuard (g : Atom) (flow : Bool)
  | eqLit (e : Atom) (flow : Bool)
  deriving Repr, Inhabited

/-- `PendingConditionNarrow::apply` -/
def Narrow.apply : Narrow → Ty → Ty
  | .truthiness true, t => removeFalseOrNil t
  | .truthiness false, t => narrowFalseOrNil t
  | .typeGuard g true, t => guardTrue t g
  | .typeGuard g false, t => guardFalse t g
  | .eqLit e flow, t => Flow.eqLit t e flow

def TName.atom : TName → Atom
  | .nil => .nil | .boolean => .boolean | .number => .number | .string => .string | .table => .table

/-- `get_type_at_condition_flow` for variable `x` on the `flow` edge of leaf condition `l`:
`none` = `ConditionFlowAction::Continue`. -/
def Leaf.action (l : Leaf) (flow : Bool) (x : Nat) : Option Narrow :=
  match l with
  | .truthy y => if x == y then some (.truthiness flow) else none
  | .typeIs y t neg => if x == y then some (.typeGuard t.atom (flow != neg)) else none
  | .isNil y neg => if x == y then some (.eqLit .nil (flow != neg)) else none
  | .eqLit y l neg => if x == y then some (.eqLit l.lit.ty (flow != neg)) else none
  -- `maybe_type_guard_binary_action`: a name bound to `type(y)` (`decl_bind_expr_ref`) narrows `y`
  | .stored y _ t neg => if x == y then some (.typeGuard t.atom (flow != neg)) else none

/-- result of walking through a condition node whose action is the pending narrow `nr` -/
def narrowRes (nr : Narrow) (m : Mode) (r : Res) : Res :=
  match m, r with
  | _, .unreach => .unreach
  | .ignore, r => r
  | .normal, .ty t => .ty (nr.apply t)
  | .merge, .ty t =>
    let t' := nr.apply t
    if !isNever t && isNever t' then .unreach else .ty t'

/-- a `TrueCondition` / `FalseCondition` node -/
def condNode (nv : Nat) (l : Leaf) (flow : Bool) (ant : Pt) : St :=
  (List.range nv).map fun x =>
    match l.action flow x with
    | none => ⟨ant.res x .normal, ant.res x .merge, ant.res x .ignore⟩
    | some nr => ⟨narrowRes nr .normal (ant.res x .normal), narrowRes nr .merge (ant.res x .merge), ant.res x .ignore⟩

/-- `finish_assignment_result`, the `if obj == nil then obj = {} end` special case: a table literal assigned
over `nil` is narrowed against the truthy part of the declared slot type -/
def assignSpecial (declT : Atom) (src : Ty) (e : Atom) : Option Ty :=
  match e with
  | .tblC _ =>
    if src == [.nil] then
      if isUnknown (removeFalseOrNil [declT]) then none else narrowDown (removeFalseOrNil [declT]) e
    else none
  | _ => none

/-- `finish_assignment_result(source, expr_type)` for a literal right-hand side -/
def assignResult (declT : Atom) (src : Ty) (e : Atom) : Ty :=
  match assignSpecial declT src e with
  | some r => r
  | none => (if src == [.nil] then none else narrowDown src e).getD [e]

/-- `can_reuse_narrowed_assignment_source` -/
def canReuse (src : Ty) (e : Atom) : Bool :=
  match e with
  | .tblC _ => true
  | _ =>
    match narrowDown src e with
    | some n => tyEq n [e]
    | none => true

/-- mode of the antecedent query of an assignment whose right-hand side keeps its type
(`reuse_antecedent_narrowing`): `MergeBranch` stays, everything else becomes `Normal` -/
def Mode.forAssign : Mode → Mode
  | .merge => .merge | _ => .normal

/-- the query at an `Assignment` node that assigns literal type `e` to the queried variable:
antecedent in `Normal` (or `MergeBranch`) mode first, again with `IgnoreConditions` when the narrowed
source cannot be reused -/
def assignRes (declT : Atom) (e : Atom) (ant : Pt) (x : Nat) (m : Mode) : Res :=
  match ant.res x m.forAssign with
  | .unreach => .unreach
  | .ty a =>
    if canReuse a e then .ty (assignResult declT a e)
    else
      match ant.res x .ignore with
      | .unreach => .unreach
      | .ty a2 => .ty (assignResult declT a2 e)

/-- an `Assignment` node `y = lit` -/
def assignNode (nv : Nat) (declOf : Nat → Atom) (y : Nat) (e : Atom) (ant : Pt) : St :=
  (List.range nv).map fun x =>
    if x == y then
      ⟨assignRes (declOf x) e ant x .normal, assignRes (declOf x) e ant x .merge, assignRes (declOf x) e ant x .ignore⟩
    else ⟨ant.res x .normal, ant.res x .merge, ant.res x .ignore⟩

/-! ### `x = y`: the right-hand side is the `Normal`-mode type of `y` before the assignment -/

/-- `finish_assignment_result(source, expr_type)` for an arbitrary right-hand type (with the member-wise narrowing of
an assigned union, commit 5dcb194) -/
def assignResultTy (declT : Atom) (src : Ty) (t : Ty) : Ty :=
  if isUnknown t then src
  else
    let special : Option Ty := match t with | [e] => assignSpecial declT src e | _ => none
    match special with
    | some r => r
    | none =>
      if preserves t then
        let narrowed : Option Ty :=
          if src == [.nil] then none
          else match t with
            | [e] => narrowDown src e
            | _ => some (unionAll (t.map fun e => (narrowDown src e).getD [e]))
        narrowed.getD t
      else t

/-- `can_reuse_narrowed_assignment_source` for an arbitrary right-hand type -/
def canReuseTy (src : Ty) (t : Ty) : Bool :=
  match t with
  | [.tblC _] => true
  | _ =>
    if !(t.all Atom.isExact) then false
    else match narrowDownTy src t with
      | some n => tyEq n t
      | none => true

/-- the query at an `Assignment` node `x = y` for the assigned variable; `t` is the type of `y` -/
def assignVarRes (declT : Atom) (t : Ty) (ant : Pt) (x : Nat) (m : Mode) : Res :=
  if !isUnknown t && !preserves t && m != .merge then .ty t
  else
    let m' : Mode := if m == .merge then .merge else if preserves t then .normal else .ignore
    match ant.res x m' with
    | .unreach => .unreach
    | .ty a =>
      if preserves t && !canReuseTy a t then
        match ant.res x .ignore with
        | .unreach => .unreach
        | .ty a2 => .ty (assignResultTy declT a2 t)
      else .ty (assignResultTy declT a t)

/-- an `Assignment` node `y = z` -/
def assignVarNode (nv : Nat) (declOf : Nat → Atom) (y z : Nat) (ant : Pt) : St :=
  let t := (ant.res z .normal).intoType
  (List.range nv).map fun x =>
    if x == y then
      ⟨assignVarRes (declOf x) t ant x .normal, assignVarRes (declOf x) t ant x .merge,
       assignVarRes (declOf x) t ant x .ignore⟩
    else ⟨ant.res x .normal, ant.res x .merge, ant.res x .ignore⟩

/-! ### Conditions: `bind_condition_expr`, `bind_and_expr`, `bind_or_expr`, `bind_unary_expr` -/

/-- the condition under any number of `not`s is not `and`/`or` (`!is_binary_logical`) -/
def Cond.leaf? : Cond → Option (Leaf × Bool)
  | .leaf l => some (l, false)
  | .not c => (c.leaf?).map fun (l, inv) => (l, !inv)
  | .and _ _ => none
  | .or _ _ => none

/-- the antecedents added to the true target and to the false target, in order -/
def Cond.edges (nv : Nat) (cur : Pt) : Cond → List Pt × List Pt
  | .leaf l => ([.node (condNode nv l true cur)], [.node (condNode nv l false cur)])
  | .not c =>
    match c.leaf? with
    | some (l, inv) =>
      -- one leaf condition node pair for the whole `not …` expression; `get_type_at_condition_flow`
      -- inverts the flow once per `not`
      ([.node (condNode nv l inv cur)], [.node (condNode nv l (!inv) cur)])
    | none =>
      let r := c.edges nv cur
      (r.2, r.1)
  | .and a b =>
    let ra := a.edges nv cur
    let cur' := finishLabel ra.1 cur
    let rb := b.edges nv cur'
    (rb.1, ra.2 ++ rb.2)
  | .or a b =>
    let ra := a.edges nv cur
    let cur' := finishLabel ra.2 cur
    let rb := b.edges nv cur'
    (ra.1 ++ rb.1, rb.2)

/-- abstract trace entry: probe id, variable, inferred type -/
abbrev AObs := Nat × Nat × Ty

/-- `Pt.res` in `Normal` mode as a type: what `infer_expr` returns for a name bound to flow id `p` -/
def Pt.typeOf (p : Pt) (x : Nat) : Ty := (p.res x .normal).intoType

mutual
/-- `bind_*_stat`: flow id after the statement, and the types inferred at its probes -/
def Stmt.aexec (nv : Nat) (declOf : Nat → Atom) (cur : Pt) : Stmt → Pt × List AObs
  | .assign x l => (.node (assignNode nv declOf x l.ty cur), [])
  | .assignVar x y => (.node (assignVarNode nv declOf x y cur), [])
  | .probe id x => (.node (passNode nv cur), [(id, x, cur.typeOf x)])
  | .ite c thn rest =>
    let e := c.edges nv cur
    let rt := thn.aexec nv declOf (finishLabel e.1 cur)
    let rr := rest.aexec nv declOf cur e.2
    (finishLabel (rt.1 :: rr.1) cur, rt.2 ++ rr.2)
/-- the `elseif`/`else` chain; `elseIns` = antecedents of the current else label; returns the antecedents
added to the post-if label -/
def Else.aexec (nv : Nat) (declOf : Nat → Atom) (cur : Pt) (elseIns : List Pt) : Else → List Pt × List AObs
  | .none => ([finishLabel elseIns cur], [])
  | .els b =>
    let r := b.aexec nv declOf (finishLabel elseIns cur)
    ([r.1], r.2)
  | .elif c thn rest =>
    let pre := finishLabel elseIns cur
    let e := c.edges nv pre
    let rt := thn.aexec nv declOf (finishLabel e.1 cur)
    let rr := rest.aexec nv declOf cur e.2
    (rt.1 :: rr.1, rt.2 ++ rr.2)
def Block.aexec (nv : Nat) (declOf : Nat → Atom) (cur : Pt) : Block → Pt × List AObs
  | .nil => (cur, [])
  | .cons s rest =>
    let r1 := s.aexec nv declOf cur
    let r2 := rest.aexec nv declOf r1.1
    (r2.1, r1.2 ++ r2.2)
end

/-- flow state after the preamble: every query of a declared local ends at its `DeclPosition` node with
the declared type, in every mode -/
def Prog.initPt (p : Prog) : Pt :=
  .node ((List.range p.decls.length).map fun x =>
    let t : Res := .ty [p.declTy x]
    ⟨t, t, t⟩)

/-- `TypeAt`: for every probe of the program, the type the analyzer infers there -/
def Prog.typeAt (p : Prog) : List AObs :=
  (p.body.aexec p.decls.length p.declTy p.initPt).2

end Flow
