import EmmyVerif.Model.Ty
/-!
# `Ty` family — depth-guarded walks over alias-resolved union members (C12)

The walks `remove_type`, `intersect_type`, `narrow_down_type` (type ops / narrowing) and
`has_non_callable_member` (diagnostics) share one skeleton: resolve the type through `get_real_type`,
and when it is a union recurse into every member. Mutually recursive aliases (`A = B|string`,
`B = A|number`) make that recursion come back to the same alias, so each walk carries a depth and stops
at `maxWalkDepth` (`MAX_REMOVE_TYPE_DEPTH` = `MAX_INTERSECT_TYPE_DEPTH` = `MAX_NARROW_DOWN_DEPTH` =
`MAX_NON_CALLABLE_DEPTH` = 10). Two instances are modelled: `removeNil` (`remove_type(t, nil)`) and
`hasNonCallable`.

`unfoldChain`: the alias ids a `TypeSubstitutor` has in progress (`alias_chain` + its own alias):
`instantiate_generic_type` unfolds a generic alias only when it is not in the chain.
`memberUnfold`: `infer_generic_member` — one guard level per unfolding, at most `maxUnfoldLevel` (32).
-/
namespace TyM
open Ty

def maxWalkDepth : Nat := 10

/-- members the walk recurses into: the union members of the alias-resolved type -/
def walkMembers (e : Env) (t : Ty) : Option (List Ty) :=
  match (getRealType e t).getD t with
  | .union ms => some ms.toList
  | _ => none

/-- `remove_type(source, nil)` with its depth; `none` = the type disappears. `d` counts the levels left. -/
def removeNil (e : Env) : Nat → Ty → Option Ty
  | 0, t => some t
  | d + 1, t =>
    if t = tNil then none
    else if (getRealType e t).getD t = tNil then none
    else
      match walkMembers e t with
      | some ms => some (fromVec (ms.filterMap fun m => removeNil e d m))
      | none => some t

/-- `has_non_callable_member` with its depth -/
def hasNonCallable (e : Env) : Nat → Ty → Bool
  | 0, _ => false
  | d + 1, t =>
    match (getRealType e t).getD t with
    | .prim .function | .func _ => false
    | .prim .any | .prim .unknown | .prim .selfInfer | .prim .global | .prim .nil => false
    | .union ms => ms.toList.any (fun m => hasNonCallable e d m)
    | _ => true

/-- number of calls of the walk from `t` at depth `d` (the work, not only the depth) -/
def walkCalls (e : Env) : Nat → Ty → Nat
  | 0, _ => 1
  | d + 1, t =>
    match walkMembers e t with
    | some ms => 1 + (ms.map (walkCalls e d)).sum
    | none => 1

/-! ## generic aliases -/

/-- a generic alias declaration: name and the names of the generic aliases its origin mentions at
unfolding positions (union members / direct) -/
structure GAlias where
  name : Name
  mentions : List Name
deriving DecidableEq, Repr

/-- `instantiate_generic_type` following one alias: with the chain of aliases in progress, returns the
aliases unfolded (in order). An alias already in the chain stays folded (`check_recursion`). -/
def unfoldChain (decls : List GAlias) : Nat → List Name → Name → List Name
  | 0, _, _ => []
  | f + 1, chain, n =>
    if n ∈ chain then []
    else
      match decls.find? (fun d => d.name = n) with
      | none => []
      | some d => n :: (d.mentions.flatMap fun m => unfoldChain decls f (n :: chain) m)

def maxUnfoldLevel : Nat := 32

/-- `infer_generic_member` on `---@alias GA<T> GA<T[]>|nil`: the instance grows at every unfolding
(`size`), the guard level grows with it; returns the number of unfoldings performed -/
def memberUnfold : Nat → Nat → Nat → Nat
  | 0, _, _ => 0
  | f + 1, level, size =>
    if level ≥ maxUnfoldLevel then 0 else 1 + memberUnfold f (level + 1) (size + 1)

end TyM
