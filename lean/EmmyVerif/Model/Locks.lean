/-!
# `Locks` — tasks over FIFO-fair read/write locks (C28)

Model of the lock protocol of `emmylua_ls`: every shared object (`analysis`, `workspace_manager`,
`diagnostic_tokens`, `workspace_diagnostic_token`, `cancellations`, `response_manager`,
`reload_lock`) is a `tokio::sync::RwLock`/`Mutex`, i.e. a FIFO-fair (writer-preferring) lock: a
request joins the back of the lock's queue and only the queue head can be granted, so a reader that
arrives behind a queued writer waits although the lock is only read-held. A `Mutex` is a lock that is
only taken in mode `w`.

Locks are natural numbers (their *rank* in the global order). Tasks are straight-line programs of
acquire/release actions (one path through a handler). Import-free; everything is executable.
-/
namespace Locks

inductive Mode | r | w deriving DecidableEq, Repr

/-- `wait ts`: the task awaits the completion of the tasks with indices `ts` (join handles, a channel it
drains until every child has reported, …) — it can only continue when all of them have finished. -/
inductive Act | acq (l : Nat) (m : Mode) | rel (l : Nat) | wait (ts : List Nat) deriving DecidableEq, Repr

abbrev Prog := List Act

/-- static discipline: every acquire is strictly above everything currently held (one global order
on lock *objects*, so read-then-write of one lock and re-acquisition are rejected); releases are of
held locks; nothing is held at the end; and a task that **waits for other tasks while holding locks** may
only do so if every lock those tasks may still need (`need k`, closed under their own waits, see `WF`) is
strictly above everything it holds — as if the awaited tasks ran inside the waiter. `held` is the list of
locks held so far. -/
def Disciplined (need : Nat → List Nat) : List Nat → Prog → Prop
  | held, [] => held = []
  | held, .acq l _ :: rest => (∀ h ∈ held, h < l) ∧ Disciplined need (l :: held) rest
  | held, .rel l :: rest => l ∈ held ∧ Disciplined need (held.erase l) rest
  | held, .wait ts :: rest => (∀ k ∈ ts, ∀ l ∈ need k, ∀ h ∈ held, h < l) ∧ Disciplined need held rest

/-- executable version of `Disciplined` -/
def discB (need : Nat → List Nat) : List Nat → Prog → Bool
  | held, [] => held.isEmpty
  | held, .acq l _ :: rest => held.all (fun h => decide (h < l)) && discB need (l :: held) rest
  | held, .rel l :: rest => held.contains l && discB need (held.erase l) rest
  | held, .wait ts :: rest =>
      ts.all (fun k => (need k).all (fun l => held.all (fun h => decide (h < l)))) && discB need held rest

theorem discB_iff (need : Nat → List Nat) (held : List Nat) (p : Prog) :
    discB need held p = true ↔ Disciplined need held p := by
  induction p generalizing held with
  | nil => simp [discB, Disciplined]
  | cons a rest ih =>
    cases a with
    | acq l m => simp [discB, Disciplined, ih]
    | rel l => simp [discB, Disciplined, ih]
    | wait ts => simp [discB, Disciplined, ih]

instance (need : Nat → List Nat) (held : List Nat) (p : Prog) : Decidable (Disciplined need held p) :=
  decidable_of_iff _ (discB_iff need held p)

/-- one action respects the `need` table of task `j`: its acquisitions are listed; it only waits for tasks
spawned later (`j < k`: the wait-for graph is acyclic) and inherits their needs -/
def actWF (need : Nat → List Nat) (j : Nat) : Act → Bool
  | .acq l _ => (need j).contains l
  | .rel _ => true
  | .wait ts => ts.all (fun k => decide (j < k) && (need k).all (fun l => (need j).contains l))

/-- `need` over-approximates, for every task, the locks it may request itself or through the tasks it waits for -/
def WF (need : Nat → List Nat) (ps : List Prog) : Prop :=
  ∀ (j : Nat) (p : Prog), ps[j]? = some p → ∀ a ∈ p, actWF need j a = true

def wfB (need : Nat → List Nat) (ps : List Prog) : Bool :=
  (List.range ps.length).all (fun j => match ps[j]? with
    | some p => p.all (actWF need j)
    | none => true)

/-- the locks a program acquires -/
def acqLocks (p : Prog) : List Nat := p.filterMap (fun a => match a with | .acq l _ => some l | _ => none)

/-- the tasks a program waits for -/
def waitTargets (p : Prog) : List Nat := p.flatMap (fun a => match a with | .wait ts => ts | _ => [])

/-- the locks task `j` may request itself or through the tasks it waits for (`fuel` rounds of unfolding; with
forward waits `ps.length` rounds reach the fixed point; `wfB` checks the result) -/
def needAux (ps : List Prog) : Nat → Nat → List Nat
  | 0, j => acqLocks (ps.getD j [])
  | f + 1, j => acqLocks (ps.getD j []) ++ (waitTargets (ps.getD j [])).flatMap (needAux ps f)

def needOf (ps : List Prog) : Nat → List Nat := needAux ps ps.length

/-- the coarsest table: every task may need every lock any program acquires -/
def allNeed (ps : List Prog) : Nat → List Nat := fun _ => ps.flatMap acqLocks

/-- a program without `wait` actions -/
def waitFree (p : Prog) : Bool := p.all (fun a => match a with | .wait _ => false | _ => true)


/-- dynamic state of one task -/
structure Task where
  rest : Prog            -- remaining actions; head is the current one
  held : List Nat        -- locks currently held
  waiting : Bool         -- current action is an acquire that has been enqueued

/-- state of one lock: current holders (task index, mode) and FIFO queue -/
structure LockSt where
  holders : List (Nat × Mode)
  queue : List (Nat × Mode)

structure St where
  tasks : List Task
  locks : Nat → LockSt

def compatible (holders : List (Nat × Mode)) : Mode → Bool
  | .w => holders.isEmpty
  | .r => holders.all (fun h => h.2 == .r)

/-- task `k` has finished (an index outside the task list counts as finished) -/
def taskDone (ts : List Task) (k : Nat) : Bool :=
  match ts[k]? with
  | some t => t.rest.isEmpty
  | none => true

/-- A task can take a step on its own (request, release, or a wait whose tasks have all finished) -/
def selfEnabled (all : List Task) (t : Task) : Bool :=
  match t.rest with
  | [] => false
  | .rel _ :: _ => true
  | .acq _ _ :: _ => !t.waiting
  | .wait ts :: _ => ts.all (taskDone all)

/-- lock `l` can grant its queue head -/
def grantEnabled (s : St) (l : Nat) : Bool :=
  match (s.locks l).queue with
  | [] => false
  | (_, m) :: _ => compatible (s.locks l).holders m

def finished (s : St) : Prop := ∀ t ∈ s.tasks, t.rest = []

def finishedB (s : St) : Bool := s.tasks.all (fun t => t.rest.isEmpty)

theorem finishedB_iff (s : St) : finishedB s = true ↔ finished s := by
  simp [finishedB, finished]

/-! ## Step relation -/

def setLock (f : Nat → LockSt) (l : Nat) (v : LockSt) : Nat → LockSt :=
  fun k => if k = l then v else f k

/-- scheduler choices: task `i` enqueues its pending acquire; lock `l` grants its queue head;
task `i` executes its pending release. -/
inductive Label | req (i : Nat) | grant (l : Nat) | rel (i : Nat) | wait (i : Nat) deriving DecidableEq, Repr

/-- one atomic step; `none` = the label is not enabled in `s`. -/
def exec (s : St) : Label → Option St
  | .req i =>
    match s.tasks[i]? with
    | some t =>
      match t.rest with
      | .acq l m :: _ =>
        if t.waiting then none else
          some { tasks := s.tasks.set i { t with waiting := true },
                 locks := setLock s.locks l
                   { holders := (s.locks l).holders, queue := (s.locks l).queue ++ [(i, m)] } }
      | _ => none
    | none => none
  | .grant l =>
    match (s.locks l).queue with
    | (i, m) :: tl =>
      if compatible (s.locks l).holders m then
        match s.tasks[i]? with
        | some t =>
          match t.rest with
          | .acq _ _ :: rest' =>
            some { tasks := s.tasks.set i { rest := rest', held := l :: t.held, waiting := false },
                   locks := setLock s.locks l
                     { holders := (i, m) :: (s.locks l).holders, queue := tl } }
          | _ => none
        | none => none
      else none
    | [] => none
  | .rel i =>
    match s.tasks[i]? with
    | some t =>
      match t.rest with
      | .rel l :: rest' =>
        some { tasks := s.tasks.set i { rest := rest', held := t.held.erase l, waiting := false },
               locks := setLock s.locks l
                 { holders := (s.locks l).holders.filter (fun h => h.1 != i),
                   queue := (s.locks l).queue } }
      | _ => none
    | none => none
  | .wait i =>
    match s.tasks[i]? with
    | some t =>
      match t.rest with
      | .wait ts :: rest' =>
        if ts.all (taskDone s.tasks) then
          some { tasks := s.tasks.set i { rest := rest', held := t.held, waiting := t.waiting }, locks := s.locks }
        else none
      | _ => none
    | none => none

def Step (s s' : St) : Prop := ∃ lab, exec s lab = some s'

inductive Reachable (s0 : St) : St → Prop
  | refl : Reachable s0 s0
  | step {s s'} : Reachable s0 s → Step s s' → Reachable s0 s'

def emptyLock : LockSt := { holders := [], queue := [] }

/-- initial state of a set of task programs: nothing held, nothing queued -/
def init (ps : List Prog) : St :=
  { tasks := ps.map (fun p => { rest := p, held := [], waiting := false }),
    locks := fun _ => emptyLock }

/-- run a schedule (list of labels); `none` if some label is not enabled -/
def run (s : St) : List Label → Option St
  | [] => some s
  | lab :: rest => match exec s lab with
    | some s' => run s' rest
    | none => none

/-- progress measure: every step decreases it (see `Lemmas/Locks`) -/
def taskMeasure (t : Task) : Nat := 2 * t.rest.length + (if t.waiting then 0 else 1)

def measure (s : St) : Nat := (s.tasks.map taskMeasure).sum

/-! ## Extracted acquisition sites (T-src) -/

/-- One lock-acquisition site of the source: the lock's rank, the mode, and the ranks of all locks
that *may* be held when control reaches the site (lexically enclosing guards plus everything a
caller may hold). -/
structure Site where
  fn : String
  file : String
  line : Nat
  lock : Nat
  mode : Mode
  held : List Nat
  deriving Repr

/-- a site respects the global order: everything that may be held is strictly below the lock -/
def Site.ok (s : Site) : Bool := s.held.all (fun h => decide (h < s.lock))

/-- a program follows the site table: each acquire happens at some listed site for that lock and
mode whose may-held set covers what the task actually holds -/
def Conforms (sites : List Site) : List Nat → Prog → Prop
  | held, [] => held = []
  | held, .acq l m :: rest =>
      (∃ s ∈ sites, s.lock = l ∧ s.mode = m ∧ ∀ h ∈ held, h ∈ s.held) ∧ Conforms sites (l :: held) rest
  | held, .rel l :: rest => l ∈ held ∧ Conforms sites (held.erase l) rest
  | held, .wait _ :: rest => held = [] ∧ Conforms sites held rest   -- never wait for a task under a lock

def conformsB (sites : List Site) : List Nat → Prog → Bool
  | held, [] => held.isEmpty
  | held, .acq l m :: rest =>
      sites.any (fun s => s.lock == l && s.mode == m && held.all (fun h => s.held.contains h))
        && conformsB sites (l :: held) rest
  | held, .rel l :: rest => held.contains l && conformsB sites (held.erase l) rest
  | held, .wait _ :: rest => held.isEmpty && conformsB sites held rest

/-! ## Extracted non-lock awaits inside guard scopes (T-src) -/

inductive AwaitKind
  | channelRecv      -- drains a channel fed by spawned children
  | channelSend      -- bounded channel send (waits for the receiver)
  | join             -- join handle / join_all
  | clientResponse   -- waits for the client to answer a server→client request
  | cancel           -- waits for a cancellation token
  | timer            -- sleep / yield
  | other            -- anything the extractor cannot classify
  deriving DecidableEq, Repr

/-- One `.await` (or `select!`) that is not a lock acquisition, with the locks that may be held there, the locks
the awaited party may still request before the awaited event happens (`needs`), and whether the wait ends after
a fixed time whatever the other tasks do (`bounded`: sleep, timeout token). -/
structure AwaitSite where
  fn : String
  file : String
  line : Nat
  kind : AwaitKind
  held : List Nat
  needs : List Nat
  bounded : Bool
  deriving Repr

/-- allowed: nothing is held, or the wait is time-bounded, or everything the awaited party may still request
is strictly above everything held (the `wait` clause of `Disciplined`) -/
def AwaitSite.allowed (a : AwaitSite) : Bool :=
  a.held.isEmpty || a.bounded || a.needs.all (fun l => a.held.all (fun h => decide (h < l)))

/-! ## Exhaustive schedule exploration (search only; used by the driver and `decide`d witnesses) -/

/-- all labels that could possibly be enabled for `n` tasks and locks `< nl` -/
def allLabels (n nl : Nat) : List Label :=
  (List.range n).map Label.req ++ (List.range nl).map Label.grant ++ (List.range n).map Label.rel ++
    (List.range n).map Label.wait

/-- canonical key of a state over locks `< nl` (for the visited set) -/
def key (s : St) (nl : Nat) : List Nat :=
  s.tasks.flatMap (fun t => [t.rest.length, if t.waiting then 1 else 0]) ++
  (List.range nl).flatMap (fun l =>
    (1000 :: (s.locks l).queue.map (fun q => q.1)) ++ (2000 :: (s.locks l).holders.map (fun q => q.1)))

def stuck (s : St) (nl : Nat) : Bool :=
  !finishedB s && (allLabels s.tasks.length nl).all (fun lab => (exec s lab).isNone)

/-- depth-first search for a stuck (deadlocked) state; returns the schedule leading to it.
`fuel` bounds the number of expanded states; result `.error` = fuel exhausted. -/
def dfs (nl : Nat) : Nat → List (St × List Label) → List (List Nat) → Except String (Option (List Label) × Nat)
  | 0, _, _ => .error "fuel"
  | _, [], seen => .ok (none, seen.length)
  | fuel + 1, (s, path) :: work, seen =>
    let k := key s nl
    if seen.contains k then dfs nl fuel work seen
    else if stuck s nl then .ok (some path.reverse, seen.length + 1)
    else
      let succs := (allLabels s.tasks.length nl).filterMap (fun lab =>
        match exec s lab with
        | some s' => some (s', lab :: path)
        | none => none)
      dfs nl fuel (succs ++ work) (k :: seen)

/-! ## Mode-ranked orders (the style of the comment in `context/mod.rs` before the fix) -/

/-- the action only mentions locks `< nl` -/
def Act.below (nl : Nat) : Act → Prop
  | .acq l _ => l < nl
  | .rel l => l < nl
  | .wait _ => True

instance (nl : Nat) (a : Act) : Decidable (a.below nl) := by
  cases a <;> simp only [Act.below] <;> infer_instance

/-- discipline w.r.t. a rank on (lock, mode) pairs: every acquire is strictly above every (lock, mode)
currently held. `held` = list of (lock, mode). -/
def modeDiscB (rank : Nat → Mode → Nat) : List (Nat × Mode) → Prog → Bool
  | held, [] => held.isEmpty
  | held, .acq l m :: rest =>
      held.all (fun h => decide (rank h.1 h.2 < rank l m)) && modeDiscB rank ((l, m) :: held) rest
  | held, .rel l :: rest =>
      held.any (fun h => h.1 == l) && modeDiscB rank (held.filter (fun h => h.1 != l)) rest
  | held, .wait _ :: rest => modeDiscB rank held rest

def findDeadlock (ps : List Prog) (nl fuel : Nat) : Except String (Option (List Label) × Nat) :=
  dfs nl fuel [(init ps, [])] []

end Locks
