/-!
# `Sched` — the main loop with inline and spawned notification handlers (C27)

Model of `on_notification_handler` (`dispatch_notification!`) + the text-document handlers of
`text_document_handler.rs` + `WorkspaceManager::{sync_open_file, close_open_file}`.

* Shared state: `wm` = `open_file_texts` (editor text per open uri), `an` = the text the analysis holds
  per uri, `disk` = file content on disk (fixed during a C27 run).
* The main loop takes the messages in order. A handler dispatched *inline* (`sync:` block) runs to
  completion before the next message is taken; a *spawned* handler (`async:` block, `tokio::spawn`) becomes
  a task whose steps interleave arbitrarily with everything else.
* Every handler is a list of atomic steps; each step is one lock-protected section of the real handler
  (`should_process` is true for workspace files, which is what the model considers):
  `didOpen/didChange(u,t)` = `syncWm u t` (under `workspace_manager.write`) ; `updAn u t` (under
  `analysis.write`) — `didClose(u)` = `closeWm u` ; `closeAn u` (the analysis falls back to the file on
  disk, or forgets the file when it is not on disk) — other notifications = steps that do not touch these maps.

Uris and texts are natural numbers (a text is identified by the notification that carried it).
Import-free, executable.
-/
namespace Sched

abbrev Uri := Nat
abbrev Text := Nat
abbrev TMap := Uri → Option Text

def TMap.set (m : TMap) (u : Uri) (v : Option Text) : TMap := fun k => if k = u then v else m k

inductive Kind | didOpen | didChange | didClose | didSave | didChangeWatchedFiles | setTrace
  | didChangeConfiguration | didRenameFiles
  deriving DecidableEq, Repr

/-- LSP method constant names as they appear in the `dispatch_notification!` invocation -/
def Kind.name : Kind → String
  | .didOpen => "DidOpenTextDocument"
  | .didChange => "DidChangeTextDocument"
  | .didClose => "DidCloseTextDocument"
  | .didSave => "DidSaveTextDocument"
  | .didChangeWatchedFiles => "DidChangeWatchedFiles"
  | .setTrace => "SetTrace"
  | .didChangeConfiguration => "DidChangeConfiguration"
  | .didRenameFiles => "DidRenameFiles"

/-- the notifications that change what a document is analysed with -/
def docKinds : List Kind := [.didOpen, .didChange, .didClose]

structure Notif where
  kind : Kind
  uri : Uri
  text : Text
  deriving DecidableEq, Repr

inductive Step
  | syncWm (u : Uri) (t : Text)   -- workspace_manager.write: sync_open_file
  | updAn (u : Uri) (t : Text)    -- analysis.write: update_file_by_uri(uri, Some(text))
  | closeWm (u : Uri)             -- workspace_manager.write: close_open_file
  | closeAn (u : Uri)             -- analysis.write: back to the disk content / remove when not on disk
  | nop                           -- a section that does not touch the document maps
  deriving DecidableEq, Repr

def steps (n : Notif) : List Step :=
  match n.kind with
  | .didOpen => [.syncWm n.uri n.text, .updAn n.uri n.text]
  | .didChange => [.syncWm n.uri n.text, .updAn n.uri n.text]
  | .didClose => [.closeWm n.uri, .closeAn n.uri]
  | _ => [.nop, .nop]

structure Store where
  wm : TMap
  an : TMap

def execStep (disk : TMap) (s : Store) : Step → Store
  | .syncWm u t => { s with wm := s.wm.set u (some t) }
  | .updAn u t => { s with an := s.an.set u (some t) }
  | .closeWm u => { s with wm := s.wm.set u none }
  | .closeAn u => { s with an := s.an.set u (disk u) }
  | .nop => s

def execSteps (disk : TMap) (s : Store) (l : List Step) : Store := l.foldl (execStep disk) s

/-- the specification: handle the notifications one after the other -/
def spec (disk : TMap) (s : Store) (ms : List Notif) : Store :=
  execSteps disk s (ms.flatMap steps)

structure St where
  pending : List Notif        -- messages not yet taken by the main loop
  cur : List Step             -- remaining steps of the inline handler the main loop is executing
  tasks : List (List Step)    -- spawned handler tasks (remaining steps each)
  store : Store

/-- scheduler choices: the main loop advances (next step of the inline handler, or take the next
message), or spawned task `i` executes its next step -/
inductive Label | main | task (i : Nat) deriving DecidableEq, Repr

/-- one atomic step. `inline k` = kind `k` is in the `sync:` block of the dispatch macro. -/
def exec (inline : Kind → Bool) (disk : TMap) (s : St) : Label → Option St
  | .main =>
    match s.cur with
    | st :: rest => some { s with cur := rest, store := execStep disk s.store st }
    | [] =>
      match s.pending with
      | [] => none
      | n :: ms =>
        if inline n.kind then some { s with pending := ms, cur := steps n }
        else some { s with pending := ms, tasks := s.tasks ++ [steps n] }
  | .task i =>
    match s.tasks[i]? with
    | some (st :: rest) => some { s with tasks := s.tasks.set i rest, store := execStep disk s.store st }
    | _ => none

def run (inline : Kind → Bool) (disk : TMap) (s : St) : List Label → Option St
  | [] => some s
  | lab :: rest => match exec inline disk s lab with
    | some s' => run inline disk s' rest
    | none => none

def quiescent (s : St) : Prop := s.pending = [] ∧ s.cur = [] ∧ ∀ t ∈ s.tasks, t = []

def quiescentB (s : St) : Bool := s.pending.isEmpty && s.cur.isEmpty && s.tasks.all (fun t => t.isEmpty)

def init (ms : List Notif) (store : Store) : St := { pending := ms, cur := [], tasks := [], store := store }

/-- dispatch taken from the extracted `sync:` list -/
def inlineOf (syncList : List String) (k : Kind) : Bool := syncList.contains k.name

/-- a step that cannot change the document maps -/
def Step.inert : Step → Bool
  | .nop => true
  | _ => false

/-! ## Exhaustive exploration of all schedules (search only) -/

def allLabels (s : St) : List Label := Label.main :: (List.range s.tasks.length).map Label.task

/-- observable outcome at the uris `us` -/
def observe (s : Store) (us : List Uri) : List (Option Text × Option Text) := us.map (fun u => (s.wm u, s.an u))

def showLabel : Label → String
  | .main => "main"
  | .task i => s!"task{i}"

/-- depth-first over every schedule; collects the first quiescent state whose observation at `us`
differs from `expect` (returns its schedule), else the number of complete schedules explored -/
def explore (inline : Kind → Bool) (disk : TMap) (us : List Uri) (expect : List (Option Text × Option Text)) :
    Nat → List (St × List Label) → Nat → Except String (Option (List Label) × Nat)
  | 0, _, _ => .error "fuel"
  | _, [], n => .ok (none, n)
  | fuel + 1, (s, path) :: work, n =>
    if quiescentB s then
      if observe s.store us == expect then explore inline disk us expect fuel work (n + 1)
      else .ok (some path.reverse, n + 1)
    else
      let succs := (allLabels s).filterMap (fun lab =>
        match exec inline disk s lab with
        | some s' => some (s', lab :: path)
        | none => none)
      explore inline disk us expect fuel (succs ++ work) n

end Sched
