/-!
# Model of `LuaGreenNodeBuilder` (crates/emmylua_parser/src/syntax/tree/lua_green_builder.rs)

The Rust builder keeps `elements` (an arena), `children : Vec<usize>` (indices of the elements that
are currently top-level, in source order) and `parents : Vec<(kind, first_child_index)>`.
The model keeps the *trees* themselves in `children` (an index into an append-only arena denotes
the same tree for ever), so no index arithmetic into the arena is left; positions in `children`
(`first`) are modelled exactly.

Modelled: `token`, `start_node`, `finish_node` (root guard), `close_node` (the three kind classes,
trivia re-parenting, clamping of `first_start`), `finish` (close everything, single `Chunk` root or
wrap). Not modelled: the conversion to rowan green nodes (`build_rowan_green`), which is a
structure-preserving traversal; it is what the correspondence run observes.
Import-free (the driver links it).
-/
namespace Green

/-- `LuaSyntaxKind`, only as far as the builder distinguishes kinds -/
inductive NKind
  | block | chunk | comment | multiLineUnion | docDescription
  | none            -- `LuaSyntaxKind::None`
  | other (n : Nat)
  deriving DecidableEq, Repr

/-- `LuaTokenKind`, only as far as the builder distinguishes kinds -/
inductive TKind
  | ws | eol | docContinue
  | other (n : Nat)
  deriving DecidableEq, Repr

inductive Elem where
  | tok (k : TKind) (text : List Char)
  | node (k : NKind) (cs : List Elem)
  deriving Repr

mutual
/-- the tokens of a tree, left to right (what `descendants_with_tokens` yields as tokens) -/
def Elem.leaves : Elem → List (TKind × List Char)
  | .tok k t => [(k, t)]
  | .node _ cs => leavesL cs
def leavesL : List Elem → List (TKind × List Char)
  | [] => []
  | e :: es => e.leaves ++ leavesL es
end

/-- concatenated text of a token sequence -/
def catText (l : List (TKind × List Char)) : List Char := l.flatMap (·.2)

/-- `SyntaxNode::text()` -/
def Elem.text (e : Elem) : List Char := catText e.leaves
def textL (es : List Elem) : List Char := catText (leavesL es)

/-- `is_trivia` -/
def isTrivia : Elem → Bool
  | .tok .ws _ | .tok .eol _ | .tok .docContinue _ => true
  | .node .comment _ | .node .docDescription _ => true
  | _ => false

/-- `is_trivia_whitespace` -/
def isWs : Elem → Bool
  | .tok .ws _ | .tok .eol _ => true
  | _ => false

/-- split `l` as (a, mid, b): `a` the longest prefix satisfying `p`, `b` the longest suffix of the
rest satisfying `p` (the two `while` loops over `child_start` / `child_end`) -/
def trimSplit (p : Elem → Bool) (l : List Elem) : List Elem × List Elem × List Elem :=
  let a := l.takeWhile p
  let r := l.dropWhile p
  let b := (r.reverse.takeWhile p).reverse
  let mid := (r.reverse.dropWhile p).reverse
  (a, mid, b)

/-- top-level children after closing a node of kind `k` whose own children are `own`, preceded by
`before` (`close_node` after the `parents.pop()`) -/
def rebuild (k : NKind) (before own : List Elem) : List Elem :=
  match k with
  | .block | .chunk =>
    let stolen := (before.reverse.takeWhile isTrivia).reverse
    let keep := (before.reverse.dropWhile isTrivia).reverse
    keep ++ [Elem.node k (stolen ++ own)]
  | .comment | .multiLineUnion =>
    let t := trimSplit isWs own
    before ++ t.1 ++ [Elem.node k t.2.1] ++ t.2.2
  | _ =>
    let t := trimSplit isTrivia own
    before ++ t.1 ++ [Elem.node k t.2.1] ++ t.2.2

structure St where
  parents : List (NKind × Nat)     -- top of stack = head
  children : List Elem             -- in source order
  deriving Repr

def St.empty : St := ⟨[], []⟩

/-- `start_node` -/
def startNode (s : St) (k : NKind) : St :=
  { s with parents := (k, s.children.length) :: s.parents }

/-- `token` -/
def token (s : St) (k : TKind) (t : List Char) : St :=
  { s with children := s.children ++ [Elem.tok k t] }

/-- `close_node`: `first_start` is clamped to the current length -/
def closeNode (s : St) : St :=
  match s.parents with
  | [] => s
  | (k, first) :: ps =>
    if s.children.isEmpty then s else
    let first := min first s.children.length
    { parents := ps, children := rebuild k (s.children.take first) (s.children.drop first) }

/-- `finish_node`: the root (outermost parent) is only closed by `finish` -/
def finishNode (s : St) : St :=
  if s.parents.length ≤ 1 then s else closeNode s

/-- the `while !parents.is_empty() && !children.is_empty() { close_node() }` loop of `finish`
(`close_node` is the identity once either is empty, and pops one parent otherwise) -/
def closeAll : Nat → St → St
  | 0, s => s
  | n+1, s => closeAll n (closeNode s)

/-- root selection of `finish` -/
def root : List Elem → Elem
  | [Elem.node .chunk cs] => Elem.node .chunk cs
  | cs => Elem.node .chunk cs

/-- `finish` -/
def finish (s : St) : Elem := root (closeAll s.parents.length s).children

/-- builder calls -/
inductive Op | start (k : NKind) | tok (k : TKind) (t : List Char) | fin
  deriving Repr

def step (s : St) : Op → St
  | .start k => startNode s k
  | .tok k t => token s k t
  | .fin => finishNode s

def opLeaves : List Op → List (TKind × List Char)
  | [] => []
  | .tok k t :: es => (k, t) :: opLeaves es
  | _ :: es => opLeaves es

/-- any sequence of builder calls followed by `finish` -/
def buildOps (ops : List Op) : Elem := finish (ops.foldl step St.empty)

end Green
