/-!
# Model of path ↔ file-URI conversion (C34)

Byte-level model (Unix build) of
* `file_path_to_uri`  = `Url::from_file_path(path)` followed by `Uri::from_str(url.as_str())`
  (`emmy_lsp_types::Uri` is a newtype around `url::Url`, so this is a re-parse),
* `uri_to_file_path`  = `Url::parse(uri.as_str())`, `percent_decode_str(url.path()).decode_utf8()`,
* `Vfs::file_id`      = a map keyed by the decoded `PathBuf` (equality of `PathBuf`s is equality of
  their component lists).

Bytes are `Nat`s (`< 256` is a hypothesis of the theorems, not a subtype). A path is the byte string
of a `PathBuf`; a URI string is a byte string too (non-ASCII characters of a `&str` are percent-encoded
byte by byte by the `url` parser, so the byte view is exact for valid UTF-8 input).

Domain of `parseUri`: strings that — after `url`'s trimming of C0/space at both ends and removal of
tab/LF/CR — start with lower-case `file://` followed by `/` or `\` (empty host), and contain no
double-dot path segment. Everything else answers `unsupported` (the correspondence run counts and
skips those; nothing is defaulted).
-/
namespace Uri

local notation "Byte" => Nat

/-! ## percent-encoding -/

/-- upper-case hex digit, as `percent_encoding` emits it -/
def hexUp (n : Nat) : Byte := if n < 10 then 48 + n else 55 + n

/-- `%XX` -/
def pct (b : Byte) : List Byte := [37, hexUp (b / 16), hexUp (b % 16)]

/-- `url::parser::PATH` (the set the *parser* applies inside a path): C0 controls, bytes ≥ 0x7F,
space `"` `#` `<` `>` `?` `` ` `` `{` `}` -/
def inPathSet (b : Byte) : Bool :=
  b < 32 || 127 ≤ b || b == 32 || b == 34 || b == 35 || b == 60 || b == 62 || b == 63 ||
  b == 96 || b == 123 || b == 125

/-- `url::parser::SPECIAL_PATH_SEGMENT` (what `Url::from_file_path` applies to each component):
`PATH` plus `/` `%` `\` -/
def inSegSet (b : Byte) : Bool := inPathSet b || b == 37 || b == 47 || b == 92

def encByte (b : Byte) : List Byte := if inSegSet b then pct b else [b]
def encSeg (s : List Byte) : List Byte := s.flatMap encByte

def normByte (b : Byte) : List Byte := if inPathSet b then pct b else [b]
def normSeg (s : List Byte) : List Byte := s.flatMap normByte

/-- value of a hex digit of either case (`percent_decode` uses `char::to_digit(16)`) -/
def hexVal (b : Byte) : Option Nat :=
  if 48 ≤ b ∧ b ≤ 57 then some (b - 48)
  else if 65 ≤ b ∧ b ≤ 70 then some (b - 55)
  else if 97 ≤ b ∧ b ≤ 102 then some (b - 87)
  else none

/-- `percent_encoding::percent_decode`, written with a skip counter so that the recursion is
structural: `%` followed by two hex digits is one byte (the two digits are then skipped), any
other `%` stays literal and decoding resumes right after it -/
def pctGo : Nat → List Byte → List Byte
  | _, [] => []
  | k + 1, _ :: rest => pctGo k rest
  | 0, b :: rest =>
    if b = 37 then
      match rest with
      | h :: l :: _ =>
        match hexVal h, hexVal l with
        | some x, some y => (x * 16 + y) :: pctGo 2 rest
        | _, _ => 37 :: pctGo 0 rest
      | _ => 37 :: pctGo 0 rest
    else b :: pctGo 0 rest

def pctDecode (l : List Byte) : List Byte := pctGo 0 l

/-! ## strict UTF-8 validation (`str::from_utf8`) -/

def cont (b : Byte) : Bool := 128 ≤ b && b ≤ 191

def validUtf8 : List Byte → Bool
  | [] => true
  | b0 :: rest =>
    if b0 < 128 then validUtf8 rest
    else if 194 ≤ b0 ∧ b0 ≤ 223 then
      match rest with
      | b1 :: r => cont b1 && validUtf8 r
      | _ => false
    else if 224 ≤ b0 ∧ b0 ≤ 239 then
      match rest with
      | b1 :: b2 :: r =>
        (if b0 = 224 then 160 ≤ b1 && b1 ≤ 191
         else if b0 = 237 then 128 ≤ b1 && b1 ≤ 159
         else cont b1) && cont b2 && validUtf8 r
      | _ => false
    else if 240 ≤ b0 ∧ b0 ≤ 244 then
      match rest with
      | b1 :: b2 :: b3 :: r =>
        (if b0 = 240 then 144 ≤ b1 && b1 ≤ 191
         else if b0 = 244 then 128 ≤ b1 && b1 ≤ 143
         else cont b1) && cont b2 && cont b3 && validUtf8 r
      | _ => false
    else false

/-! ## paths -/

/-- split at `/` (always returns at least one segment) -/
def splitSlash : List Byte → List (List Byte)
  | [] => [[]]
  | b :: rest =>
    if b = 47 then [] :: splitSlash rest
    else match splitSlash rest with
      | [] => [[b]]
      | s :: ss => (b :: s) :: ss

/-- split at `/` or `\` (the `url` parser treats `\` as `/` in special schemes) -/
def splitSlashBs : List Byte → List (List Byte)
  | [] => [[]]
  | b :: rest =>
    if b = 47 ∨ b = 92 then [] :: splitSlashBs rest
    else match splitSlashBs rest with
      | [] => [[b]]
      | s :: ss => (b :: s) :: ss

/-- `Path::components()` of an absolute Unix path, without the root: empty and `.` components are
dropped, `..` is kept. `none` for a relative path. -/
def components (p : List Byte) : Option (List (List Byte)) :=
  match p with
  | [] => none
  | b :: rest =>
    if b = 47 then some ((splitSlash rest).filter fun s => !(s.isEmpty || s == [46]))
    else none

/-- `/c1/c2/…`, `/` for the root -/
def joinPath (cs : List (List Byte)) : List Byte :=
  if cs.isEmpty then [47] else cs.flatMap fun c => 47 :: c

/-- `file://` -/
def filePrefix : List Byte := [102, 105, 108, 101, 58, 47, 47]

/-- serialization built by `Url::from_file_path` (no parsing yet) -/
def fromFilePath (p : List Byte) : Option (List Byte) :=
  (components p).map fun cs => filePrefix ++ joinPath (cs.map encSeg)

/-! ## the `url` parser on `file:///…` -/

/-- single-dot segments: `.`, `%2e`, `%2E` -/
def isDot (s : List Byte) : Bool :=
  s == [46] || s == [37, 50, 101] || s == [37, 50, 69]

/-- double-dot segments: `..` and its eight percent-spelled variants -/
def isDotDot (s : List Byte) : Bool :=
  s == [46, 46] ||
  s == [37, 50, 101, 37, 50, 101] || s == [37, 50, 101, 37, 50, 69] ||
  s == [37, 50, 69, 37, 50, 101] || s == [37, 50, 69, 37, 50, 69] ||
  s == [37, 50, 101, 46] || s == [37, 50, 69, 46] ||
  s == [46, 37, 50, 101] || s == [46, 37, 50, 69]

/-- path-state treatment of dot segments on already percent-normalised segments: a single-dot
segment disappears (an empty segment remains when it was last); a double-dot segment is outside
the model (`none`) -/
def dotStep : List (List Byte) → Option (List (List Byte))
  | [] => some []
  | s :: rest =>
    if isDotDot s then none
    else if isDot s then (if rest.isEmpty then some [[]] else dotStep rest)
    else (dotStep rest).map (s :: ·)

def joinSlash : List (List Byte) → List Byte
  | [] => []
  | [s] => s
  | s :: rest => s ++ 47 :: joinSlash rest

/-- `Parser::parse_path` for the file scheme on input that starts with `/` or `\`: the serialized
`url.path()`. Leading empty segments are removed at the end (`path.trim_start_matches('/')`). -/
def normPath (bs : List Byte) : Option (List Byte) :=
  match bs with
  | [] => none
  | b :: tail =>
    if b = 47 ∨ b = 92 then
      (dotStep ((splitSlashBs tail).map normSeg)).map fun segs =>
        47 :: joinSlash (segs.dropWhile List.isEmpty)
    else none

def trimEnd (s : List Byte) : List Byte := (s.reverse.dropWhile (· ≤ 32)).reverse
def trimStart (s : List Byte) : List Byte := s.dropWhile (· ≤ 32)

def stripPrefix : List Byte → List Byte → Option (List Byte)
  | [], s => some s
  | _ :: _, [] => none
  | a :: p, b :: s => if a = b then stripPrefix p s else none

/-- a parsed `Uri`: we keep its path (query and fragment do not matter to `url.path()`) -/
structure Uri where
  path : List Byte
  deriving DecidableEq, Repr

inductive Res (α : Type) where
  | ok (a : α)
  | unsupported
  deriving DecidableEq, Repr

/-- `Uri::from_str` = `Url::parse` on strings in the model's domain -/
def parseUri (s : List Byte) : Res Uri :=
  let s := (trimEnd (trimStart s)).filter fun b => !(b == 9 || b == 10 || b == 13)
  match stripPrefix filePrefix s with
  | none => .unsupported
  | some r =>
    match normPath (r.takeWhile fun b => !(b == 63 || b == 35)) with
    | none => .unsupported
    | some p => .ok ⟨p⟩

/-- `Uri::as_str` up to query/fragment -/
def Uri.str (u : Uri) : List Byte := filePrefix ++ u.path

/-- `file_path_to_uri`: `none` = relative path (`from_file_path` fails) -/
def filePathToUri (p : List Byte) : Option (Res Uri) :=
  (fromFilePath p).map parseUri

/-- `uri_to_file_path`: re-parse, percent-decode the path, require UTF-8 -/
def uriToFilePath (u : Uri) : Res (Option (List Byte)) :=
  match normPath u.path with
  | none => .unsupported
  | some p =>
    let d := pctDecode p
    .ok (if validUtf8 d then some d else none)

/-- string → path: `Uri::from_str` then `uri_to_file_path` -/
def strToPath (s : List Byte) : Res (Option (List Byte)) :=
  match parseUri s with
  | .ok u => uriToFilePath u
  | .unsupported => .unsupported

/-! ## `Vfs::file_id` -/

/-- `PathBuf` map key: the component list (`PathBuf`'s `Eq`/`Hash` compare components);
`none` for a path that is not absolute is kept apart by `rel` -/
structure Key where
  abs : Bool
  comps : List (List Byte)
  deriving DecidableEq, Repr

def keyOf (p : List Byte) : Key :=
  match components p with
  | some cs => ⟨true, cs⟩
  | none => ⟨false, (splitSlash p).filter fun s => !(s.isEmpty)⟩

/-- the path-keyed part of `Vfs`: `file_id_map` / `file_path_map` (one association list, they are
inverse to each other) and `file_data` (per id: the content, here a tag, or nothing) -/
structure Vfs where
  ids : List (Key × Nat)
  data : List (Option Nat)
  deriving Repr

def Vfs.empty : Vfs := ⟨[], []⟩

def lookup (k : Key) : List (Key × Nat) → Option Nat
  | [] => none
  | (k', i) :: rest => if k = k' then some i else lookup k rest

/-- `Vfs::file_id`: a URI without a file path gets a fresh slot each time; otherwise the id bound to
the decoded path, allocating a slot when absent -/
def Vfs.fileId (v : Vfs) (path : Option (List Byte)) : Nat × Vfs :=
  match path with
  | none => (v.data.length, ⟨v.ids, v.data ++ [none]⟩)
  | some p =>
    match lookup (keyOf p) v.ids with
    | some i => (i, v)
    | none => (v.data.length, ⟨(keyOf p, v.data.length) :: v.ids, v.data ++ [none]⟩)

/-- `Vfs::get_file_id` -/
def Vfs.getFileId (v : Vfs) (path : Option (List Byte)) : Option Nat :=
  match path with
  | none => none
  | some p => lookup (keyOf p) v.ids

/-- `Vfs::set_file_content` -/
def Vfs.setContent (v : Vfs) (path : Option (List Byte)) (c : Option Nat) : Nat × Vfs :=
  let r := v.fileId path
  (r.1, ⟨r.2.ids, r.2.data.set r.1 c⟩)

/-- `Vfs::remove_file`: the path is forgotten, its slot emptied -/
def Vfs.removeFile (v : Vfs) (path : Option (List Byte)) : Option Nat × Vfs :=
  match v.getFileId path with
  | none => (none, v)
  | some i => (some i, ⟨v.ids.filter (fun e => e.2 != i), v.data.set i none⟩)

/-- ids whose slot holds content (`get_all_local_file_ids`; no remote files in the model) -/
def localIdsFrom : Nat → List (Option Nat) → List Nat
  | _, [] => []
  | i, none :: rest => localIdsFrom (i + 1) rest
  | i, some _ :: rest => i :: localIdsFrom (i + 1) rest

def Vfs.localIds (v : Vfs) : List Nat := localIdsFrom 0 v.data

/-- `get_file_id` then `get_file_content` -/
def Vfs.read (v : Vfs) (path : Option (List Byte)) : Option Nat :=
  match v.getFileId path with
  | none => none
  | some i => (v.data.getD i none)

inductive Op where
  | fileId | getFileId | removeFile | read | clear | localIds
  | setContent (c : Option Nat)
  deriving DecidableEq, Repr

inductive Out where
  | id (i : Nat)
  | optId (i : Option Nat)
  | content (c : Option Nat)
  | ids (l : List Nat)
  | unit
  deriving DecidableEq, Repr

/-- one operation addressed by a decoded path (`clear` and `localIds` ignore it) -/
def Vfs.step (v : Vfs) (op : Op) (path : Option (List Byte)) : Out × Vfs :=
  match op with
  | .fileId => let r := v.fileId path; (.id r.1, r.2)
  | .getFileId => (.optId (v.getFileId path), v)
  | .removeFile => let r := v.removeFile path; (.optId r.1, r.2)
  | .read => (.content (v.read path), v)
  | .clear => (.unit, Vfs.empty)
  | .localIds => (.ids v.localIds, v)
  | .setContent c => let r := v.setContent path c; (.id r.1, r.2)

def Vfs.run (v : Vfs) : List (Op × Option (List Byte)) → List Out
  | [] => []
  | (op, p) :: rest => (v.step op p).1 :: (v.step op p).2.run rest

/-- decode the URI strings of a history; `none` when one is outside the model's domain -/
def decodeHistory : List (Op × List Byte) → Option (List (Op × Option (List Byte)))
  | [] => some []
  | (op, s) :: rest =>
    match strToPath s, decodeHistory rest with
    | .ok p, some r => some ((op, p) :: r)
    | _, _ => none

/-- a history of operations, each addressed by a URI *string* -/
def Vfs.runStr (v : Vfs) (h : List (Op × List Byte)) : Option (List Out) :=
  (decodeHistory h).map v.run

end Uri

namespace Uri
local notation "Byte" => Nat

/-- per-byte view of the parser's path state (used only for the T-exec bridge `parse_table`): what
one ASCII byte inside a segment of `file:///x<b>y` leaves in `url.path()`; `[999]` = path ends -/
def parseRow (b : Byte) : List Byte :=
  if b == 63 || b == 35 then [999]
  else if b == 9 || b == 10 || b == 13 then []
  else if b == 47 || b == 92 then [47]
  else normByte b

/-- per-byte view of `Url::from_file_path` (T-exec bridge `enc_table`): `/` separates components -/
def encRow (b : Byte) : List Byte := if b = 47 then [47] else encByte b

end Uri
