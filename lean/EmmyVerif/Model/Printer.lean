/-!
# Printer family — the formatter's IR and its printer
(crates/emmylua_formatter/src/ir/doc_ir.rs, crates/emmylua_formatter/src/printer/mod.rs)

`Doc` mirrors `DocIR` (source nodes/tokens/syntax tokens are resolved to the text they print, which is
what `verif::ir_to_sexpr` exports). Texts and the output are byte lists; widths are byte counts
(`str::len`), as in the Rust code. `printDoc` mirrors `Printer::print_doc` with its state
(`output` kept reversed, `current_column`, `indent_level`, `pending_indent_width`, `group_break_map`,
`line_suffixes`); `fits` mirrors `fits_impl` (explicit stack), `hasHardLine` mirrors `has_hard_line`,
`flatWidth` mirrors `ir_flat_width`, `fillLoop` mirrors `print_fill`, `alignLoop` mirrors
`print_align_group`. The printer recurses on a fuel argument (a line suffix stored in the state is
printed later, so the recursion is not structural in the document); `none` = fuel exhausted.

Import-free (core only).
-/
namespace Printer

structure Entry (α : Type) where
  /-- `AlignEntry::Aligned` (true) or `AlignEntry::Line` (false; `before` is its content, `after = []`) -/
  aligned : Bool
  before : List α
  after : List α
  trailing : Option (List α)

inductive Doc where
  | text (s : List Nat)
  | hardLine
  | softLine
  | softLineOrEmpty
  | space
  | indent (ds : List Doc)
  | group (ds : List Doc) (shouldBreak : Bool) (id : Option Nat)
  | list (ds : List Doc)
  | ifBreak (brk flat : Doc) (gid : Option Nat)
  | fill (ds : List Doc)
  | lineSuffix (ds : List Doc)
  | alignGroup (es : List (Entry Doc))

inductive Mode where
  | flat
  | brk
  deriving DecidableEq, Repr

structure Cfg where
  maxWidth : Nat
  indentStr : List Nat
  indentWidth : Nat
  newline : List Nat
  /-- `line_comment_min_spaces_before.max(1)` -/
  lcMinSpaces : Nat
  lcMinColumn : Nat

structure St where
  /-- the output, last byte first -/
  outRev : List Nat
  col : Nat
  level : Nat
  pending : Option Nat
  breaks : List (Nat × Bool)
  suffixes : List (List Doc)

def St.init : St := ⟨[], 0, 0, none, [], []⟩
def St.out (s : St) : List Nat := s.outRev.reverse

def lookupBreak (m : List (Nat × Bool)) (g : Nat) : Bool :=
  match m with
  | [] => false
  | (k, v) :: r => if k = g then v else lookupBreak r g

/-! ## widths -/

mutual
/-- `ir_flat_width` of one document -/
def Doc.flatWidth : Doc → Nat
  | .text s => s.length
  | .hardLine => 0
  | .softLine => 1
  | .softLineOrEmpty => 0
  | .space => 1
  | .indent ds => flatWidthL ds
  | .group ds _ _ => flatWidthL ds
  | .list ds => flatWidthL ds
  | .ifBreak _ f _ => f.flatWidth
  | .fill ds => flatWidthL ds
  | .lineSuffix _ => 0
  | .alignGroup es => flatWidthE es
/-- `ir_flat_width` of a slice -/
def flatWidthL : List Doc → Nat
  | [] => 0
  | d :: ds => d.flatWidth + flatWidthL ds
def flatWidthO : Option (List Doc) → Nat
  | none => 0
  | some t => 1 + flatWidthL t
/-- maximum over the entries -/
def flatWidthE : List (Entry Doc) → Nat
  | [] => 0
  | ⟨_, b, a, t⟩ :: es => max (flatWidthL b + flatWidthL a + flatWidthO t) (flatWidthE es)
end

mutual
/-- `has_hard_line`: descends into lists, indents and groups only; an align group with two or more
entries counts as a hard line -/
def Doc.hasHardLine : Doc → Bool
  | .hardLine => true
  | .list ds => hasHardLineL ds
  | .indent ds => hasHardLineL ds
  | .group ds _ _ => hasHardLineL ds
  | .alignGroup es => decide (2 ≤ es.length)
  | _ => false
def hasHardLineL : List Doc → Bool
  | [] => false
  | d :: ds => d.hasHardLine || hasHardLineL ds
end

/-- the documents of an align group in the order `fits_impl` pops them: entries last to first, for
each entry trailing, after, before -/
def alignFitsSeq : List (Entry Doc) → List Doc
  | [] => []
  | ⟨_, b, a, t⟩ :: es => alignFitsSeq es ++ (t.getD [] ++ a ++ b)

/-- `fits_impl`: the explicit stack of (document, mode); `rem` is the remaining width -/
def fits (breaks : List (Nat × Bool)) : Nat → List (Doc × Mode) → Int → Bool
  | _, [], rem => decide (0 ≤ rem)
  | 0, _, _ => false
  | fuel + 1, (d, m) :: rest, rem =>
    if rem < 0 then false else
    match d with
    | .text s => fits breaks fuel rest (rem - s.length)
    | .space => fits breaks fuel rest (rem - 1)
    | .hardLine => true
    | .softLine => if m = .brk then true else fits breaks fuel rest (rem - 1)
    | .softLineOrEmpty => if m = .brk then true else fits breaks fuel rest rem
    | .group ds sb _ => fits breaks fuel (ds.map (·, if sb then Mode.brk else Mode.flat) ++ rest) rem
    | .indent ds => fits breaks fuel (ds.map (·, m) ++ rest) rem
    | .list ds => fits breaks fuel (ds.map (·, m) ++ rest) rem
    | .ifBreak b f gid =>
      let isBreak : Bool := match gid with
        | some g => lookupBreak breaks g
        | none => decide (m = .brk)
      fits breaks fuel ((if isBreak then b else f, m) :: rest) rem
    | .fill ds => fits breaks fuel (ds.map (·, m) ++ rest) rem
    | .lineSuffix _ => fits breaks fuel rest rem
    | .alignGroup es => fits breaks fuel ((alignFitsSeq es).map (·, m) ++ rest) rem

/-! ## output primitives -/

def lastNewlineTail : List Nat → Option Nat
  | [] => none
  | b :: r => match lastNewlineTail r with
    | some k => some k
    | none => if b = 10 then some r.length else none

/-- `flush_pending_indent_for_text` -/
def flushPending (cfg : Cfg) (st : St) (s : List Nat) : St :=
  match st.pending with
  | none => st
  | some w =>
    if s.isEmpty then st else
    let lvl := if cfg.indentWidth = 0 then 0 else w / cfg.indentWidth
    let ind := (List.replicate lvl cfg.indentStr).flatten
    { st with outRev := ind.reverse ++ st.outRev, col := w, pending := none }

/-- `push_text` -/
def pushText (cfg : Cfg) (st : St) (s : List Nat) : St :=
  let st := flushPending cfg st s
  let col := match lastNewlineTail s with
    | some k => k
    | none => st.col + s.length
  { st with outRev := s.reverse ++ st.outRev, col := col }

/-- `push_newline`: trailing spaces are trimmed, then the newline string -/
def pushNewline (cfg : Cfg) (st : St) : St :=
  { st with outRev := cfg.newline.reverse ++ st.outRev.dropWhile (· == 32), col := 0,
            pending := some (st.level * cfg.indentWidth) }

def spaces (n : Nat) : List Nat := List.replicate n 32

/-- `trailing_comment_padding` -/
def trailingPadding (cfg : Cfg) (contentWidth alignedWidth : Nat) : Nat :=
  let natural := (alignedWidth - contentWidth) + cfg.lcMinSpaces
  if cfg.lcMinColumn = 0 then natural else max natural (cfg.lcMinColumn - contentWidth)

def fitsOnLine (cfg : Cfg) (st : St) (fuel : Nat) (ds : List Doc) : Bool :=
  fits st.breaks fuel (ds.map (·, Mode.flat)) (Int.ofNat (cfg.maxWidth - st.col))

/-! ## the printer -/

/-- print a slice with a given one-document printer -/
def docsWith (pd : St → Doc → Mode → Option St) (st : St) (ds : List Doc) (m : Mode) : Option St :=
  ds.foldlM (fun s d => pd s d m) st

/-- `flush_line_suffixes` (also the final flush of `print`): take the pending suffixes, print each in break mode -/
def flushWith (pd : St → Doc → Mode → Option St) (st : St) : Option St :=
  st.suffixes.foldlM (fun s ds => docsWith pd s ds .brk) { st with suffixes := [] }

/-- `print_fill` -/
def fillLoop (pd : St → Doc → Mode → Option St) (fitsF : St → List Doc → Bool) : St → List Doc → Option St
  | st, [] => some st
  | st, [c] => pd st c (if fitsF st [c] then .flat else .brk)
  | st, c :: sep :: rest => do
    let st ← pd st c (if fitsF st [c] then .flat else .brk)
    let nextFits := match rest with
      | [] => true
      | n :: _ => fitsF st [sep, n]
    let st ← pd st sep (if nextFits then .flat else .brk)
    fillLoop pd fitsF st rest

def maxBefore : List (Entry Doc) → Nat
  | [] => 0
  | e :: es => if e.aligned then max (flatWidthL e.before) (maxBefore es) else maxBefore es

def maxContentWidth (mb : Nat) : List (Entry Doc) → Nat
  | [] => 0
  | e :: es =>
    max (if e.aligned then mb + 1 + flatWidthL e.after else flatWidthL e.before) (maxContentWidth mb es)

/-- between two entries of an align group: flush the line suffixes, new line -/
def alignSep (cfg : Cfg) (pd : St → Doc → Mode → Option St) (first : Bool) (st : St) : Option St :=
  if first then some st else (flushWith pd st).map (pushNewline cfg)

/-- the optional trailing comment of an entry after `p` padding spaces -/
def printTrailing (cfg : Cfg) (pd : St → Doc → Mode → Option St) (t : Option (List Doc)) (p : Nat) (m : Mode)
    (st : St) : Option St :=
  match t with
  | none => some st
  | some t => docsWith pd (if p > 0 then pushText cfg st (spaces p) else st) t m

/-- one entry of an align group -/
def alignEntry (cfg : Cfg) (pd : St → Doc → Mode → Option St) (mb mcw : Nat) (m : Mode) (st : St)
    (e : Entry Doc) : Option St :=
  if e.aligned then
    (docsWith pd st e.before m).bind fun st =>
    (docsWith pd
      (pushText cfg (if mb - flatWidthL e.before > 0 then pushText cfg st (spaces (mb - flatWidthL e.before)) else st) [32])
      e.after m).bind fun st =>
    printTrailing cfg pd e.trailing (trailingPadding cfg (mb + 1 + flatWidthL e.after) mcw) m st
  else
    (docsWith pd st e.before m).bind fun st =>
    printTrailing cfg pd e.trailing (trailingPadding cfg (flatWidthL e.before) mcw) m st

/-- phase 3 of `print_align_group` -/
def alignLoop (cfg : Cfg) (pd : St → Doc → Mode → Option St) (mb mcw : Nat) (m : Mode) :
    Bool → St → List (Entry Doc) → Option St
  | _, st, [] => some st
  | first, st, e :: es =>
    (alignSep cfg pd first st).bind fun st =>
    (alignEntry cfg pd mb mcw m st e).bind fun st =>
    alignLoop cfg pd mb mcw m false st es

/-- `Printer::print_doc` -/
def printDoc (cfg : Cfg) : Nat → St → Doc → Mode → Option St
  | 0, _, _, _ => none
  | fuel + 1, st, d, mode =>
    let pd := printDoc cfg fuel
    match d with
    | .text s => some (pushText cfg st s)
    | .space => some (pushText cfg st [32])
    | .hardLine => (flushWith pd st).map (pushNewline cfg)
    | .softLine =>
      match mode with
      | .flat => some (pushText cfg st [32])
      | .brk => (flushWith pd st).map (pushNewline cfg)
    | .softLineOrEmpty =>
      match mode with
      | .flat => some st
      | .brk => (flushWith pd st).map (pushNewline cfg)
    | .group ds sb id =>
      let childMode :=
        if sb || hasHardLineL ds then Mode.brk
        else if fitsOnLine cfg st (fuel + 1) ds then Mode.flat else Mode.brk
      let st := match id with
        | some g => { st with breaks := (g, decide (childMode = .brk)) :: st.breaks }
        | none => st
      docsWith pd st ds childMode
    | .indent ds =>
      (docsWith pd { st with level := st.level + 1 } ds mode).map fun s => { s with level := s.level - 1 }
    | .list ds => docsWith pd st ds mode
    | .ifBreak b f gid =>
      let isBreak : Bool := match gid with
        | some g => lookupBreak st.breaks g
        | none => decide (mode = .brk)
      pd st (if isBreak then b else f) mode
    | .fill ds =>
      fillLoop pd (fun s xs => fits s.breaks (fuel + 1) (xs.map (·, Mode.flat)) (Int.ofNat (cfg.maxWidth - s.col))) st ds
    | .lineSuffix ds => some { st with suffixes := st.suffixes ++ [ds] }
    | .alignGroup es =>
      let mb := maxBefore es
      let mcw := if es.any (·.trailing.isSome) then maxContentWidth mb es else 0
      alignLoop cfg pd mb mcw mode true st es

/-- `Printer::print`: the documents in break mode, then the remaining line suffixes -/
def print (cfg : Cfg) (fuel : Nat) (ds : List Doc) : Option (List Nat) :=
  (docsWith (printDoc cfg fuel) St.init ds .brk).bind fun st =>
  (if st.suffixes.isEmpty then some st else flushWith (printDoc cfg fuel) st).map (·.out)

end Printer
