import EmmyVerif.Model.Ty
/-!
# `check_type_compact` for the `Ty` fragment, with the `TypeCheckGuard` level

Model of `semantic/type_check/{mod,simple_type,ref_type,sub_type,complex_type/*}.rs` restricted to the
fragment of `Model/Ty.lean`; classes have no members (so `find_members` yields the empty list), no
enums, no generics, `TypeCheckCheckLevel::Normal`, `detail = false`.

`ip` is `TypeCheckContext.alias_in_progress` (the `(alias, compact)` pairs being unfolded up the stack);
`lvl` is `TypeCheckGuard.stack_level`; `next lvl` is `next_level()` (`Err(TypeRecursion)` past 100).
`fuel` bounds the *depth* of the model's own recursion (every call between the mutually recursive
functions spends one unit); `Res.outOfFuel` is distinct from every result of the real checker and
`Lemmas/TyGuard.lean` proves it is never returned when `fuel ≥ fuelBound`.
-/
namespace TyM
open Ty

inductive Res
  | ok
  /-- `TypeNotMatch` / `TypeNotMatchWithReason(_)` -/
  | notMatch
  /-- `TypeRecursion` -/
  | recursion
  | donotCheck
  | outOfFuel
  /-- the checker left the modelled fragment (enum, function source, members of an alias …) -/
  | unsupported
deriving DecidableEq, Repr

def maxLevel : Nat := 100

/-- `TypeCheckGuard::next_level` -/
def next (lvl : Nat) : Option Nat := if lvl + 1 > maxLevel then none else some (lvl + 1)

/-- `guard.next_level()?` followed by a continuation -/
@[inline] def withNext (lvl : Nat) (k : Nat → Res) : Res :=
  match next lvl with
  | none => .recursion
  | some l => k l

/-- `?` -/
@[inline] def Res.andThen (r : Res) (k : Unit → Res) : Res :=
  match r with
  | .ok => k ()
  | e => e

/-- run `f` on every element, stop at the first non-`ok` (the `for … { f(x)?; } Ok(())` loops) -/
def allOk {α : Type} (f : α → Res) : List α → Res
  | [] => .ok
  | x :: xs => (f x).andThen fun _ => allOk f xs

/-- `for x in xs { match f(x) { Ok => return Ok, Err(e) if e.is_type_not_match() => {}, Err(e) => return Err(e) } }
Err(TypeNotMatch)` -/
def anyOk {α : Type} (f : α → Res) : List α → Res
  | [] => .notMatch
  | x :: xs =>
    match f x with
    | .ok => .ok
    | .notMatch => anyOk f xs
    | e => e

/-! ## sub-typing between declarations (`sub_type.rs`, `LuaTypeIndex::get_super_types_iter`) -/

/-- `self.supers.get(id)`: `None` when the class lists no super type -/
def Env.supersOf (e : Env) (n : Name) : Option (List Name) :=
  match e.find n with
  | some d => if d.supers.isEmpty then none else some d.supers
  | none => none

mutual
/-- `super_reaches(current, target, visited)`; returns the answer and the updated visited set -/
def superReaches (e : Env) : Nat → Name → Name → List Name → Bool × List Name
  | 0, _, _, vis => (false, vis)
  | f + 1, cur, target, vis =>
    if cur = target then (true, vis)
    else if cur ∈ vis then (false, vis)
    else
      match e.supersOf cur with
      | none => (false, cur :: vis)
      | some ss => anyReaches e f ss target (cur :: vis)
def anyReaches (e : Env) : Nat → List Name → Name → List Name → Bool × List Name
  | 0, _, _, vis => (false, vis)
  | _, [], _, vis => (false, vis)
  | f + 1, s :: ss, target, vis =>
    match superReaches e f s target vis with
    | (true, v) => (true, v)
    | (false, v) => anyReaches e f ss target v
end

/-- number of declarations plus super-type entries: bounds every walk over the declaration graph -/
def Env.size (e : Env) : Nat := e.decls.length + (e.decls.map (·.supers.length)).sum

/-- enough for every graph: each recursive call either stops or adds a fresh declaration to `visited`,
and scanning a super list spends one unit per entry -/
def Env.walkFuel (e : Env) : Nat := 2 * e.size + 4

/-- `get_super_types_iter`: the super types minus the edges that close a cycle -/
def Env.supersIter (e : Env) (n : Name) : Option (List Name) :=
  (e.supersOf n).map fun ss => ss.filter fun s => !(superReaches e e.walkFuel s n []).1

/-- list without repetitions (first occurrences from the right) -/
def nodupOf : List Name → List Name
  | [] => []
  | x :: xs => if x ∈ nodupOf xs then nodupOf xs else x :: nodupOf xs

/-- `l` without `x` -/
def without (x : Name) : List Name → List Name
  | [] => []
  | y :: ys => if y = x then without x ys else y :: without x ys

/-- `rem` without the members of `fresh` -/
def withoutAll (rem : List Name) : List Name → List Name
  | [] => rem
  | x :: xs => without x (withoutAll rem xs)

/-- every name that can ever be pushed by the sub-type walk: the super-type entries of the graph -/
def Env.superNames (e : Env) : List Name := nodupOf (e.decls.flatMap (·.supers))

/-- the `while let Some(current) = stack.pop()` loop of `check_sub_type_of_iterative`.
The `visited` hash set is represented by its complement `rem` within `superNames` (every id the loop
can insert is a super-type entry): `visited.insert(id)` succeeds iff `id ∈ rem`, and removes it. -/
def subTypeLoop (e : Env) (target : Name) : Nat → List Name → List Name → Bool
  | 0, _, _ => false
  | _, [], _ => false
  | f + 1, cur :: stack, rem =>
    match e.supersIter cur with
    | none => subTypeLoop e target f stack rem
    | some ss =>
      if ss.contains target then true
      else
        let fresh := nodupOf (ss.filter (· ∈ rem))
        subTypeLoop e target f (fresh.reverse ++ stack) (withoutAll rem fresh)

/-- `is_sub_type_of(db, sub, super)` -/
def isSubTypeOf (e : Env) (sub sup : Name) : Bool :=
  if sub = sup then true
  else
    let rem := without sub e.superNames
    subTypeLoop e sup (rem.length + 2) [sub] rem

/-! ## predicates of `LuaType` -/

mutual
/-- `LuaType::is_optional` -/
def isOptional : Ty → Bool
  | .prim .nil | .prim .any | .prim .unknown => true
  | .union ms => if allPrimL ms then hasNilL ms else anyOptionalL ms
  | _ => false
def anyOptionalL : TyL → Bool
  | .nil => false
  | .cons t ts => isOptional t || anyOptionalL ts
def allPrimL : TyL → Bool
  | .nil => true
  | .cons t ts => t.isPrim && allPrimL ts
def hasNilL : TyL → Bool
  | .nil => false
  | .cons t ts => decide (t = tNil) || hasNilL ts
end

mutual
/-- `LuaType::is_nullable` -/
def isNullable : Ty → Bool
  | .prim .nil => true
  | .union ms => anyNullableL ms
  | _ => false
def anyNullableL : TyL → Bool
  | .nil => false
  | .cons t ts => isNullable t || anyNullableL ts
end

/-- `base_type_name` (`sub_type.rs`) -/
def baseTypeName : Ty → Option Name
  | .prim .integer | .lit (.intC _) | .lit (.docInt _) => some "integer".toList
  | .prim .number | .lit (.floatC _) => some "number".toList
  | .prim .boolean | .lit (.boolC _) | .lit (.docBool _) => some "boolean".toList
  | .prim .string | .lit (.strC _) | .lit (.docStr _) => some "string".toList
  | .prim .table | .tgen _ | .tuple _ | .array _ | .object _ => some "table".toList
  | .func _ | .prim .function => some "function".toList
  | .prim .thread => some "thread".toList
  | .prim .userdata => some "userdata".toList
  | .prim .io => some "io".toList
  | .prim .global => some "global".toList
  | .prim .selfInfer => some "self".toList
  | .prim .nil => some "nil".toList
  | _ => none

def isLikeAny : Ty → Bool
  | .prim .any | .prim .unknown => true
  | _ => false

/-- `fast_eq_check` -/
def fastEq : Ty → Ty → Bool
  | .prim a, .prim b =>
    a = b ∧ a ∈ [Prim.nil, .table, .userdata, .function, .thread, .boolean, .string, .integer, .number,
      .io, .global, .unknown, .any]
  | .ref a, .ref b => a = b
  | .union ms, .ref b =>
    -- `Nullable(Ref(a))`
    match ms.toList with
    | [.ref a, .prim .nil] => a = b
    | [.prim .nil, .ref a] => a = b
    | _ => false
  | _, _ => false

/-- `escape_type` (only the alias case exists in the fragment) -/
def escapeType (e : Env) : Ty → Option Ty
  | .ref n =>
    match e.find n with
    | some d => match d.kind with
      | .alias (some o) => some o
      | _ => none
    | none => none
  | _ => none

def Env.isAlias (e : Env) (n : Name) : Bool :=
  match e.find n with
  | some d => match d.kind with
    | .alias _ => true
    | _ => false
  | none => false

def Env.isEnum (e : Env) (n : Name) : Bool :=
  match e.find n with
  | some d => d.kind = .enum
  | none => false

/-- `get_alias_real_type`: `Except`-like, `inl` = error -/
def aliasRealType (e : Env) : Nat → Nat → Ty → Res ⊕ Ty
  | 0, _, _ => .inl .outOfFuel
  | f + 1, lvl, .ref n =>
    match e.find n with
    | none => .inl .donotCheck
    | some d =>
      match d.kind with
      | .alias none => .inl .donotCheck
      | .alias (some o) =>
        match next lvl with
        | none => .inl .recursion
        | some l => aliasRealType e f l o
      | _ => .inr (.ref n)
  | _ + 1, _, t => .inr t

/-- what the first `match source` of `check_simple_type_compact` decides: `some r` = `return r`,
`none` = fall through to the union loop. `base` is the result of `check_base_type_for_ref_compact`
(only consulted for a `Ref` compact type). -/
def simpleDecide (e : Env) (s c : Ty) (base : Unit → Res) : Option Res :=
  let viaRef : Option Res :=
    match base () with
    | .ok => some .ok
    | .notMatch => none
    | err => some err
  match s with
  | .prim .unknown | .prim .any => some .ok
  | .prim .nil => if c = tNil then some .ok else none
  | .prim .table =>
    match c with
    | .prim .table | .tuple _ | .array _ | .object _ | .ref _ | .tgen _ | .prim .global | .prim .userdata
    | .prim .any => some .ok
    | _ => none
  | .prim .userdata =>
    match c with
    | .prim .userdata | .ref _ => some .ok
    | _ => none
  | .prim .function =>
    match c with
    | .prim .function | .func _ => some .ok
    | _ => none
  | .prim .thread => if c = .prim .thread then some .ok else none
  | .prim .boolean | .lit (.boolC _) => if c.isBoolean then some .ok else none
  | .prim .string =>
    match c with
    | .prim .string | .lit (.strC _) | .lit (.docStr _) => some .ok
    | .ref _ => viaRef
    | _ => none
  | .lit (.strC _) =>
    match c with
    | .prim .string | .lit (.strC _) | .lit (.docStr _) => some .ok
    | .ref _ => viaRef
    | _ => none
  | .prim .integer | .lit (.intC _) =>
    match c with
    | .prim .integer | .lit (.intC _) | .lit (.docInt _) => some .ok
    | .ref _ => viaRef
    | _ => none
  | .prim .number | .lit (.floatC _) =>
    match c with
    | .prim .number | .lit (.floatC _) | .prim .integer | .lit (.intC _) | .lit (.docInt _) => some .ok
    | _ => none
  | .prim .io => if c = .prim .io then some .ok else none
  | .prim .global => if c = .prim .global then some .ok else none
  | .lit (.docInt i) =>
    match c with
    | .lit (.intC j) => if i = j then some .ok else some .notMatch
    | .prim .integer => if e.docBaseConst then some .ok else some .notMatch
    | .lit (.docInt j) => if i = j then some .ok else some .notMatch
    | .ref _ => if e.docBaseConst then viaRef else none
    | _ => none
  | .lit (.docStr a) =>
    match c with
    | .lit (.strC b) => if a = b then some .ok else some .notMatch
    | .prim .string => some .notMatch
    | .lit (.docStr b) => if a = b then some .ok else some .notMatch
    | .ref _ => if e.docBaseConst then viaRef else none
    | _ => none
  | .lit (.docBool a) =>
    match c with
    | .lit (.boolC b) => if a = b then some .ok else some .notMatch
    | .prim .boolean => some .notMatch
    | .lit (.docBool b) => if a = b then some .ok else some .notMatch
    | _ => none
  | _ => none

/-- `check_base_type_for_ref_compact` for a `Ref` compact type -/
def baseTypeForRef (e : Env) (fuel lvl : Nat) (s c : Ty) : Res :=
  match next lvl with
  | none => .recursion
  | some l =>
    match aliasRealType e fuel l c with
    | .inl err => err
    | .inr (.ref id) =>
      if (match baseTypeName s with
          | some b => isSubTypeOf e id b
          | none => false) then .ok
      else if e.isEnum id then .unsupported
      else .notMatch
    | .inr _ => .notMatch

def tupleGet (ts : List Ty) (i : Nat) : Option Ty := ts[i]?

mutual
/-- `check_general_type_compact` -/
def checkGeneral (e : Env) (ip : List (Name × Ty)) : Nat → Nat → Ty → Ty → Res
  | 0, _, _, _ => .outOfFuel
  | f + 1, lvl, s, c =>
    if isLikeAny c then .ok
    else if fastEq s c then .ok
    else
      match escapeType e c with
      | some o => withNext lvl fun l => checkGeneral e ip f l s o
      | none =>
        match s with
        | .prim .unknown | .prim .any => .ok
        | .prim .never => if c = tNever then .ok else .notMatch
        | .prim .selfInfer => .notMatch
        | .prim _ | .lit _ => checkSimple e ip f lvl s c
        | .ref n => checkRef e ip f lvl n c
        | .func _ => .unsupported
        | .array _ | .tuple _ | .object _ | .union _ | .tgen _ => checkComplex e ip f lvl s c

/-- `check_simple_type_compact` -/
def checkSimple (e : Env) (ip : List (Name × Ty)) : Nat → Nat → Ty → Ty → Res
  | 0, _, _, _ => .outOfFuel
  | f + 1, lvl, s, c =>
    match simpleDecide e s c (fun _ => baseTypeForRef e f lvl s c) with
    | some r => r
    | none =>
      match c with
      | .union ms => allOk (fun m => withNext lvl fun l => checkSimple e ip f l s m) ms.toList
      | _ => .notMatch

/-- `check_ref_type_compact` -/
def checkRef (e : Env) (ip : List (Name × Ty)) : Nat → Nat → Name → Ty → Res
  | 0, _, _, _ => .outOfFuel
  | f + 1, lvl, n, c =>
    match e.find n with
    | none => .notMatch
    | some d =>
      match d.kind with
      | .alias origin =>
        match c with
        | .union ms => allOk (fun m => withNext lvl fun l => checkRef e ip f l n m) ms.toList
        | _ =>
          match origin with
          | none => .notMatch
          | some o =>
            let contains := match o with
              | .union oms => oms.toList.contains c
              | _ => decide (o = c)
            if contains then .ok
            -- the same (alias, compact) pair is already being unfolded further up: recursive aliases
            else if (n, c) ∈ ip then .recursion
            else
              match next lvl with
              | none => .recursion
              | some l =>
                match checkGeneral e ((n, c) :: ip) f l o c with
                | .ok => .ok
                | .unsupported => .unsupported
                | .outOfFuel => .outOfFuel
                | err => if c.isRef then checkRefClass e ip f lvl n c else err
      | .enum => .unsupported
      | .cls => checkRefClass e ip f lvl n c

/-- `check_ref_class` -/
def checkRefClass (e : Env) (ip : List (Name × Ty)) : Nat → Nat → Name → Ty → Res
  | 0, _, _, _ => .outOfFuel
  | f + 1, lvl, n, c =>
    match c with
    | .ref id =>
      if n = id then .ok
      else if isSubTypeOf e id n then .ok
      else if isSubTypeOf e n id then .ok
      else if e.isEnum id then .unsupported
      else .notMatch
    -- `find_members` of a member-less class is empty: nothing to compare
    | .object _ => withNext lvl fun _ => if e.isAlias n then .unsupported else .ok
    | .prim .table => .ok
    | .union ms => allOk (fun m => withNext lvl fun l => checkGeneral e ip f l (.ref n) m) ms.toList
    | .tuple _ => withNext lvl fun _ => if e.isAlias n then .unsupported else .ok
    | _ =>
      match baseTypeName c with
      | some b => if n = b ∨ isSubTypeOf e b n ∨ isSubTypeOf e n b then .ok else .notMatch
      | none => .notMatch

/-- `check_complex_type_compact` -/
def checkComplex (e : Env) (ip : List (Name × Ty)) : Nat → Nat → Ty → Ty → Res
  | 0, _, _, _ => .outOfFuel
  | f + 1, lvl, s, c =>
    let first : Res :=
      match s with
      | .array b => checkArray e ip f lvl b c
      | .tuple ts => checkTuple e ip f lvl ts.toList c
      | .object fs => checkObject e ip f lvl fs.toList c
      | .tgen ps => checkTgen e ip f lvl ps.toList c
      | .union ms =>
        match c with
        | .union cms =>
          withNext lvl fun l => allOk (fun cm => withNext l fun l' => checkGeneral e ip f l' s cm) cms.toList
        | _ => anyOk (fun m => withNext lvl fun l => checkGeneral e ip f l m c) ms.toList
      | _ => .donotCheck
    match first with
    | .donotCheck =>
      match c with
      | .union cms => allOk (fun cm => withNext lvl fun l => checkComplex e ip f l s cm) cms.toList
      | _ => .notMatch
    | r => r

/-- `check_array_type_compact` -/
def checkArray (e : Env) (ip : List (Name × Ty)) : Nat → Nat → Ty → Ty → Res
  | 0, _, _, _ => .outOfFuel
  | f + 1, lvl, base, c =>
    let sb := if e.arrayIndex then union e base tNil else base
    match c with
    | .array cb => withNext lvl fun l => checkGeneral e ip f l sb cb
    | .tuple ts => allOk (fun t => withNext lvl fun l => checkGeneral e ip f l sb t) ts.toList
    | .object fs =>
      -- `cast_down_array_base`: name keys never form `1..n`; the empty object casts to `unknown`
      match fs with
      | .nil => withNext lvl fun l => checkGeneral e ip f l sb tUnknown
      | _ => .notMatch
    | .prim .table => .ok
    | .tgen ps =>
      if ps.toList.length = 2 then
        allOk (fun p => withNext lvl fun l => checkGeneral e ip f l sb p) ps.toList
      else .donotCheck
    | .prim .any => .ok
    -- `find_index_operations` of a member-less class has no integer index signature
    | .ref n => withNext lvl fun _ => if e.isAlias n then .unsupported else .notMatch
    | _ => .donotCheck

/-- `check_tuple_type_compact` (no variadic members in the fragment) -/
def checkTuple (e : Env) (ip : List (Name × Ty)) : Nat → Nat → List Ty → Ty → Res
  | 0, _, _, _ => .outOfFuel
  | f + 1, lvl, ts, c =>
    match c with
    | .tuple cs =>
      withNext lvl fun l =>
        allOk (fun (p : Nat × Ty) =>
          match tupleGet cs.toList p.1 with
          | none => if isOptional p.2 then .ok else .notMatch
          | some ct =>
            withNext l fun l' =>
              match checkGeneral e ip f l' p.2 ct with
              | .ok => .ok
              | err => err) (ts.zipIdx.map fun (t, i) => (i, t))
    | .array cb => allOk (fun t => withNext lvl fun l => checkGeneral e ip f l cb t) ts
    | .object _ =>
      withNext lvl fun _ =>
        allOk (fun t => if isNullable t ∨ t = tAny then .ok else .notMatch) ts
    | .prim .table => .ok
    | _ => .donotCheck

/-- `check_object_type_compact` -/
def checkObject (e : Env) (ip : List (Name × Ty)) : Nat → Nat → List (Name × Ty) → Ty → Res
  | 0, _, _, _ => .outOfFuel
  | f + 1, lvl, fs, c =>
    match c with
    | .object cfs =>
      withNext lvl fun l =>
        allOk (fun (kt : Name × Ty) =>
          match cfs.toList.find? (fun x => x.1 = kt.1) with
          | none => if isNullable kt.2 ∨ kt.2 = tAny then .ok else .notMatch
          | some (_, ct) => withNext l fun l' => checkGeneral e ip f l' kt.2 ct) fs
    | .ref n =>
      withNext lvl fun _ =>
        if e.isAlias n then .unsupported
        else if (e.find n).isNone then .ok   -- `find_members` = None
        else allOk (fun (kt : Name × Ty) => if isNullable kt.2 ∨ kt.2 = tAny then .ok else .notMatch) fs
    | .tuple _ =>
      withNext lvl fun _ =>
        allOk (fun (kt : Name × Ty) => if isNullable kt.2 ∨ kt.2 = tAny then .ok else .notMatch) fs
    | .array _ => withNext lvl fun _ => .notMatch
    | .prim .table => .ok
    | _ => .donotCheck

/-- `check_table_generic_type_compact` -/
def checkTgen (e : Env) (ip : List (Name × Ty)) : Nat → Nat → List Ty → Ty → Res
  | 0, _, _, _ => .outOfFuel
  | f + 1, lvl, ps, c =>
    match c with
    | .prim .table | .prim .global => .ok
    | .tgen cps =>
      -- equal arities are compared parameter by parameter (`table<K,V>` and the odd `table<X>`)
      if ps.length = cps.toList.length then
        allOk (fun (p : Ty × Ty) => withNext lvl fun l => checkGeneral e ip f l p.1 p.2) (ps.zip cps.toList)
      else .notMatch
    | .array cb =>
      match ps with
      | [k, v] =>
        if k = tAny ∨ k.isInteger then withNext lvl fun l => checkGeneral e ip f l v cb else .notMatch
      | _ => .notMatch
    | .tuple cts =>
      match ps with
      | [k, v] =>
        if k = tAny then allOk (fun t => withNext lvl fun l => checkGeneral e ip f l v t) cts.toList
        else .ok
      | _ => .notMatch
    | .prim .userdata => .ok
    -- `get_members(LuaMemberOwner::Type(id))` is `None` for member-less classes and for aliases
    | .ref _ => withNext lvl fun _ => if ps.length ≠ 2 then .notMatch else .ok
    | .union ms => allOk (fun m => checkTgen e ip f lvl ps m) ms.toList
    | _ => .notMatch
end

/-- fuel that is always enough (`Lemmas/TyGuard.lean`) -/
def checkFuel : Nat := 1200

/-- `check_type_compact(db, source, compact)` -/
def checkTop (e : Env) (s c : Ty) : Res := checkGeneral e [] checkFuel 0 s c

end TyM
