/-!
# Text family — model of `emmylua_parser::text::LineIndex` (crates/emmylua_parser/src/text/line_index.rs)

Texts are `List Char`; byte offsets are UTF-8 (`u8`), columns are UTF-16 code units (`u16`).
A document is split into lines *with* their terminators (`\n`, `\r\n`, lone `\r`).
`lineCol` mirrors `LineIndex::get_line_col`, `offsetOf` mirrors `LineIndex::get_offset`
(clamped to the reachable part of the line: everything but the last terminator byte).

Import-free (core only) so that the driver links natively.
-/
namespace Text

def u8 (c : Char) : Nat := c.utf8Size
def u16 (c : Char) : Nat := if c.val < 0x10000 then 1 else 2

def len8 : List Char → Nat
  | [] => 0
  | c :: cs => u8 c + len8 cs
def len16 : List Char → Nat
  | [] => 0
  | c :: cs => u16 c + len16 cs

/-- bytes consumed from `cs` with a budget of `col` UTF-16 units; a column inside a surrogate
pair rounds down -/
def walk : List Char → Nat → Nat
  | [], _ => 0
  | c :: cs, col => if u16 c ≤ col then u8 c + walk cs (col - u16 c) else 0

/-- a line is its content plus its terminator; `reach` is the part a column may point into:
everything but the last terminator byte (so the boundary between `\r` and `\n` stays reachable) -/
structure Line where
  chars : List Char
  terminated : Bool       -- true for every line but the last
  deriving Repr, DecidableEq

def Line.reach (l : Line) : List Char := if l.terminated then l.chars.dropLast else l.chars

abbrev Doc := List Line

/-- column (UTF-16) of byte offset `o` inside `cs`, if `o` is a char boundary of `cs` -/
def colOf : List Char → Nat → Option Nat
  | _, 0 => some 0
  | [], _ + 1 => none
  | c :: cs, o + 1 => if u8 c ≤ o + 1 then (colOf cs (o + 1 - u8 c)).map (u16 c + ·) else none

/-- offset → (line, col). The offset at a line's end belongs to the next line, except on the
last line. -/
def lineCol : Doc → Nat → Nat → Option (Nat × Nat)
  | [], _, _ => none
  | [l], o, n => (colOf l.chars o).map (n, ·)
  | l :: l' :: rest, o, n =>
    if o < len8 l.chars then (colOf l.chars o).map (n, ·)
    else lineCol (l' :: rest) (o - len8 l.chars) (n + 1)

/-- (line, col) → offset, clamped to the reachable part of the line; `none` for a missing line -/
def offsetOf : Doc → Nat → Nat → Nat → Option Nat
  | [], _, _, _ => none
  | l :: _, 0, col, base => some (base + walk l.reach col)
  | l :: rest, n + 1, col, base => offsetOf rest n col (base + len8 l.chars)

/-- Split a text into lines with terminators. `cur` is the current line so far. -/
def splitAux : List Char → List Char → Doc
  | [], cur => [⟨cur, false⟩]
  | [c], cur =>
    if c = '\n' ∨ c = '\r' then [⟨cur ++ [c], true⟩, ⟨[], false⟩] else [⟨cur ++ [c], false⟩]
  | c :: c' :: cs, cur =>
    if c = '\n' then ⟨cur ++ [c], true⟩ :: splitAux (c' :: cs) []
    else if c = '\r' then
      if c' = '\n' then ⟨cur ++ [c, c'], true⟩ :: splitAux cs []
      else ⟨cur ++ [c], true⟩ :: splitAux (c' :: cs) []
    else splitAux (c' :: cs) (cur ++ [c])

def splitLines (t : List Char) : Doc := splitAux t []

def join : Doc → List Char
  | [] => []
  | l :: rest => l.chars ++ join rest

/-! ### flat API as the Rust exposes it -/

def getLineCol (t : List Char) (o : Nat) : Option (Nat × Nat) := lineCol (splitLines t) o 0
def getOffset (t : List Char) (line col : Nat) : Option Nat := offsetOf (splitLines t) line col 0
def lineCount (t : List Char) : Nat := (splitLines t).length

/-- line start offsets (`LineIndex::line_offsets`) -/
def lineStarts : Doc → Nat → List Nat
  | [], _ => []
  | l :: rest, base => base :: lineStarts rest (base + len8 l.chars)

/-- `LuaDocument::to_rowan_range`: both ends converted; the real code then calls
`TextRange::new`, which asserts `start ≤ end` — modelled as `Except.error`. -/
def toRowanRange (t : List Char) (sl sc el ec : Nat) : Option (Except Unit (Nat × Nat)) :=
  match getOffset t sl sc, getOffset t el ec with
  | some s, some e => some (if s ≤ e then .ok (s, e) else .error ())
  | _, _ => none

end Text
