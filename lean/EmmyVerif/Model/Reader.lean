/-!
# Model of `Reader` (crates/emmylua_parser/src/text/reader.rs) and of the lexer loop discipline

`Reader` walks a text with one char of look-ahead and look-behind, accumulating the bytes of the
chars it has bumped over in `current_buffer_byte_len`; `reset_buff` moves the buffer start to the
current position. End of input is decided by position (after the `fix:` commit): a `'\0'` char in
the text is an ordinary char.

`tokenizeA` is `LuaLexer::tokenize` seen through the Reader: every iteration does `reset_buff`,
then *some* number of bumps (the lexer arms — `lex`, `lex_string`, `lex_number`, … — only ever move
the reader forward by `bump`, directly or through `eat_while`/`eat_when`/`consume_*`), then emits
`current_range()` as a token. The arm is an arbitrary function of the reader state.
Import-free.
-/
namespace Reader

/-- UTF-8 length of a char -/
def u8 (c : Char) : Nat :=
  if c.val < 0x80 then 1 else if c.val < 0x800 then 2 else if c.val < 0x10000 then 3 else 4

def len8 : List Char → Nat
  | [] => 0
  | c :: cs => u8 c + len8 cs

structure R where
  total : Nat          -- `text.len()`
  start : Nat          -- `valid_range.start_offset`
  pos : Nat            -- `current_buffer_byte_pos`
  len : Nat            -- `current_buffer_byte_len`
  rest : List Char     -- `current`, `next`, and what `chars` still holds
  prev : Char
  deriving Repr

def EOF : Char := '\x00'

/-- `Reader::new_with_range(text, SourceRange::new(start, text.len()))` -/
def new (text : List Char) (start : Nat) : R :=
  { total := len8 text, start := start, pos := 0, len := 0, rest := text, prev := EOF }

def isEof (r : R) : Bool := r.total ≤ r.pos + r.len
def currentChar (r : R) : Char := r.rest.headD EOF
def nextChar (r : R) : Char := r.rest.tail.headD EOF
def prevChar (r : R) : Char := r.prev

/-- `bump` -/
def bump (r : R) : R :=
  if isEof r then r else
  match r.rest with
  | [] => r
  | c :: cs => { r with len := r.len + u8 c, prev := c, rest := cs }

/-- `reset_buff` -/
def resetBuff (r : R) : R := { r with pos := r.pos + r.len, len := 0 }

/-- `current_range()` as (start offset, length) -/
def currentRange (r : R) : Nat × Nat := (r.start + r.pos, r.len)

/-- `get_current_end_pos` -/
def endPos (r : R) : Nat := r.pos + r.len

def bumpN : Nat → R → R
  | 0, r => r
  | n+1, r => bumpN n (bump r)

/-- `eat_while(f)`: bumps while not at the end and `f(current)`; returns the count too -/
def eatWhile (f : Char → Bool) : Nat → R → R × Nat
  | 0, r => (r, 0)
  | fuel+1, r =>
    if !isEof r && f (currentChar r) then
      let x := eatWhile f fuel (bump r)
      (x.1, x.2 + 1)
    else (r, 0)

/-- the lexer loop: `arm r` = how many bumps the arm does after `reset_buff` (any function);
returns the token ranges in order and the final reader. `fuel` = iterations. -/
def tokenizeA (arm : R → Nat) : Nat → R → List (Nat × Nat) × R
  | 0, r => ([], r)
  | fuel+1, r =>
    if isEof r then ([], r) else
    let r1 := bumpN (arm (resetBuff r)) (resetBuff r)
    let x := tokenizeA arm fuel r1
    (currentRange r1 :: x.1, x.2)

/-- ranges `(start, len)` are contiguous from `a` and end at `b` -/
def Tiles : List (Nat × Nat) → Nat → Nat → Prop
  | [], a, b => a = b
  | (s, l) :: rest, a, b => s = a ∧ Tiles rest (a + l) b

end Reader
