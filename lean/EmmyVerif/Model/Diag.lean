/-!
# Diag family — model of diagnostic suppression scopes and of the enable/severity precedence chain

Anchors (crates/emmylua_code_analysis/src):
* `compilation/analyzer/doc/diagnostic_tags.rs` — `analyze_diagnostic*` (which action a
  `---@diagnostic <kind>[: codes]` tag registers and over which byte range),
* `vfs/document.rs` — `LuaDocument::get_line`, `get_line_range` (incl. the last-line rule); `scope_end_of_line`,
* `db_index/diagnostic/diagnostic_action.rs` — `DiagnosticAction::is_match` (half-open overlap test
  `scope_covers`, installed by the `fix:` commit in place of rowan's `TextRange::intersect`),
* `db_index/diagnostic/mod.rs` — `is_file_diagnostic_code_disabled`, file-level enabled/disabled sets,
* `diagnostic/checker/mod.rs` — `is_checker_enable_by_code`, `should_report_diagnostic`, `get_severity`.

Offsets are UTF-8 byte offsets; a range `(s, e)` is the half-open `[s, e)` with `s ≤ e`
(`rowan::TextRange`). Diagnostic codes are natural numbers (the harness interns the names).
Import-free (core only) so that the driver links natively.
-/
namespace Diag

abbrev Range := Nat × Nat
abbrev Code := Nat

/-- `scope_covers` (diagnostic_action.rs): the range lies (partly) inside the half-open scope; an
empty range is inside when its position is. -/
def covers (scope r : Range) : Bool :=
  if r.1 = r.2 then decide (scope.1 ≤ r.1) && decide (r.1 < scope.2)
  else decide (r.1 < scope.2) && decide (scope.1 < r.2)

/-- rowan's `TextRange::intersect(..).is_some()` — the test the code used before the fix: touching
ranges count as intersecting. Kept only to state what the fix changed. -/
def touches (scope r : Range) : Bool := decide (max scope.1 r.1 ≤ min scope.2 r.2)

inductive ActionKind where
  | disable (c : Code)
  | enable (c : Code)
  | disableAll
  deriving Repr, DecidableEq

structure Action where
  range : Range
  kind : ActionKind
  deriving Repr, DecidableEq

/-- `DiagnosticAction::is_match` -/
def Action.isMatch (a : Action) (isDisable : Bool) (r : Range) (c : Code) : Bool :=
  covers a.range r &&
  match a.kind, isDisable with
  | .disable d, true => d == c
  | .enable e, false => e == c
  | .disableAll, true => true
  | _, _ => false

/-- per-file part of `DiagnosticIndex` -/
structure FileDiag where
  actions : List Action := []
  fileDisabled : List Code := []
  fileEnabled : List Code := []
  deriving Repr, DecidableEq

/-- `LineIndex::get_line`: `partition_point(|s| s <= o) - 1` over the line start offsets -/
def getLine (starts : List Nat) (o : Nat) : Option Nat :=
  match (starts.takeWhile (· ≤ o)).length with
  | 0 => none
  | n + 1 => some n

/-- `LuaDocument::get_line_range`: `[start(line), start(line+1))`; the last line runs to the end of
the text and has no range when it is empty. -/
def lineRange (starts : List Nat) (len : Nat) (line : Nat) : Option Range :=
  match starts[line]? with
  | none => none
  | some s =>
    match starts[line + 1]? with
    | some e => some (s, e)
    | none => if s < len then some (s, len) else none

inductive TagKind where
  | disable | disableNextLine | disableLine | enable | other
  deriving Repr, DecidableEq

/-- what the analyzer reads off one `---@diagnostic` tag: action word, code list (`none` = no list;
an element `none` = a name that is not a diagnostic code, skipped by the analyzer), the range of the
comment node, and the enclosing `LuaBlock` (range, is its parent the chunk) if any. -/
structure Tag where
  kind : TagKind
  codes : Option (List (Option Code))
  comment : Range
  block : Option (Range × Bool)
  deriving Repr, DecidableEq

def knownCodes (cs : List (Option Code)) : List Code := cs.filterMap id

/-- the actions a ranged tag registers over `range` -/
def scopedActions (range : Range) : Option (List (Option Code)) → List Action
  | none => [⟨range, .disableAll⟩]
  | some cs => (knownCodes cs).map fun c => ⟨range, .disable c⟩

/-- `scope_end_of_line` (diagnostic_tags.rs): end of a scope whose last line is `line` — the start of
the following line, or one past the end of the text when `line` is the last line, so that the
end-of-file position belongs to the last line -/
def lineScopeEnd (starts : List Nat) (len : Nat) (line : Nat) : Option Nat :=
  match starts[line + 1]? with
  | some e => some e
  | none => if line + 1 = starts.length then some (len + 1) else none

/-- the byte range a tag is valid in (`valid_range` / `owner_block_range`), when it registers ranged
actions at all. `disable-next-line`: from the start of the comment to the end of the line after the
comment's last line (its own last line when the document ends there); `disable-line`: the comment's
last line; `disable`: the enclosing block; scopes that run to the end of the document include the
end-of-file position `len`. -/
def tagRange (starts : List Nat) (len : Nat) (tag : Tag) : Option Range :=
  match tag.kind with
  | .disableNextLine =>
    match getLine starts tag.comment.2 with
    | none => none
    | some l =>
      match lineScopeEnd starts len (min (l + 1) (starts.length - 1)) with
      | none => none
      | some e => some (tag.comment.1, e)
  | .disableLine =>
    match getLine starts tag.comment.2 with
    | none => none
    | some l =>
      match lineRange starts len l, lineScopeEnd starts len l with
      | some lr, some e => some (lr.1, e)
      | _, _ => none
  | .disable =>
    match tag.block with
    | none => none
    | some (br, top) =>
      if top && tag.codes.isSome then none
      else some (if br.2 = len then (br.1, len + 1) else br)
  | _ => none

/-- `analyze_diagnostic` for one tag: a top-level `disable: codes` fills the file-disabled set,
`enable: codes` the file-enabled set, everything else registers ranged actions (or nothing). -/
def analyzeTag (starts : List Nat) (len : Nat) (st : FileDiag) (tag : Tag) : FileDiag :=
  match tag.kind, tag.block, tag.codes with
  | .disable, some (_, true), some cs => { st with fileDisabled := st.fileDisabled ++ knownCodes cs }
  | .enable, _, some cs => { st with fileEnabled := st.fileEnabled ++ knownCodes cs }
  | _, _, _ =>
    match tagRange starts len tag with
    | none => st
    | some r => { st with actions := st.actions ++ scopedActions r tag.codes }

def analyze (starts : List Nat) (len : Nat) (tags : List Tag) : FileDiag :=
  tags.foldl (analyzeTag starts len) {}

/-- `DiagnosticIndex::is_file_diagnostic_code_disabled` -/
def suppressed (st : FileDiag) (c : Code) (r : Range) : Bool :=
  st.actions.any fun a => a.isMatch true r c

/-- workspace-level switches of `LuaDiagnosticConfig` -/
structure Config where
  wsEnabled : List Code := []
  wsDisabled : List Code := []
  deriving Repr, DecidableEq

/-- `DiagnosticContext::is_checker_enable_by_code`: the precedence chain
file enable > workspace disable > meta file > file disable > workspace enable > default. -/
def enabledByCode (defaultOn : Code → Bool) (cfg : Config) (st : FileDiag) (isMeta : Bool)
    (c : Code) : Bool :=
  if st.fileEnabled.contains c then true
  else if cfg.wsDisabled.contains c then false
  else if isMeta then false
  else if st.fileDisabled.contains c then false
  else if cfg.wsEnabled.contains c then true
  else defaultOn c

/-- the gate of `DiagnosticContext::add_diagnostic` -/
def reported (defaultOn : Code → Bool) (cfg : Config) (st : FileDiag) (isMeta : Bool)
    (c : Code) (r : Range) : Bool :=
  enabledByCode defaultOn cfg st isMeta c && !suppressed st c r

end Diag
