import EmmyVerif.Model.Ty
/-!
# `Ty` family — rendering (`humanize_type` at `RenderLevel::Documentation`) and the doc type parser

Three layers for the annotation sub-grammar of C17 (basic kinds, literals, references, unions /
optionals, arrays, `table<…>`, records):

* concrete syntax trees `TypeE` that mirror `grammar/doc/types.rs` level by level
  (`parse_type` ⊃ `parse_sub_type` ⊃ `parse_simple_type` ⊃ `parse_primary_type`), their token printer
  `printType` and the recursive-descent parser `parseType` (fuel = recursion depth);
* `toCst` — the layout `TypeHumanizer` chooses (`write_union_type`: members without `nil`, parentheses
  when more than one, trailing `?`; `write_array_type`: parenthesised optional element; item limits and
  level stepping) — and `ofCst`, the conversion of `infer_type` (`compilation/analyzer/doc/infer_type.rs`);
* text: `showType` (exact spacing of the humanizer) and `lex` (doc lexer, `Normal` state, for this
  token set).
-/
namespace TyM

inductive Tok
  | name (s : Name) | str (s : Name) | int (i : Int) | tt | ff
  | lbrack | rbrack | lparen | rparen | lbrace | rbrace | lt | gt | comma | colon | quest | bar
deriving DecidableEq, Repr

mutual
/-- `parse_primary_type` (+ the `<…>` suffix, which only follows a name) -/
inductive Prim0 where
  | name (s : Name)
  | str (s : Name)
  | int (i : Int)
  | bool (b : Bool)
  | paren (t : TypeE)
  | generic (n : Name) (first : TypeE) (args : TypeEL)
  | obj (fs : FieldEL)
/-- `parse_simple_type`: a primary followed by `arr` pairs of brackets -/
inductive Simple where
  | mk (base : Prim0) (arr : Nat)
inductive SimpleL where
  | nil | cons (s : Simple) (r : SimpleL)
/-- `parse_type`: `s₀ | s₁ | …` followed by `q` question marks -/
inductive TypeE where
  | mk (first : Simple) (rest : SimpleL) (q : Nat)
inductive TypeEL where
  | nil | cons (t : TypeE) (r : TypeEL)
/-- `name: type` fields, comma separated -/
inductive FieldEL where
  | nil | cons (k : Name) (t : TypeE) (r : FieldEL)
end

deriving instance DecidableEq for Prim0, Simple, SimpleL, TypeE, TypeEL, FieldEL
deriving instance Repr for Prim0, Simple, SimpleL, TypeE, TypeEL, FieldEL

def brackets : Nat → List Tok
  | 0 => []
  | k + 1 => .lbrack :: .rbrack :: brackets k

def quests : Nat → List Tok
  | 0 => []
  | k + 1 => .quest :: quests k

mutual
def printPrim : Prim0 → List Tok
  | .name s => [.name s]
  | .str s => [.str s]
  | .int i => [.int i]
  | .bool b => [if b then .tt else .ff]
  | .paren t => .lparen :: (printType t ++ [.rparen])
  | .generic n a as => .name n :: .lt :: (printType a ++ printArgs as ++ [.gt])
  | .obj fs => .lbrace :: (printFields fs ++ [.rbrace])
def printSimple : Simple → List Tok
  | .mk b k => printPrim b ++ brackets k
def printRest : SimpleL → List Tok
  | .nil => []
  | .cons s r => .bar :: (printSimple s ++ printRest r)
def printType : TypeE → List Tok
  | .mk f r q => printSimple f ++ (printRest r ++ quests q)
/-- the arguments after the first: each preceded by a comma -/
def printArgs : TypeEL → List Tok
  | .nil => []
  | .cons t r => .comma :: (printType t ++ printArgs r)
def printFields : FieldEL → List Tok
  | .nil => []
  | .cons k t .nil => .name k :: .colon :: printType t
  | .cons k t r => .name k :: .colon :: (printType t ++ .comma :: printFields r)
end

/-- count `[]` suffixes (`parse_suffixed_type`, array case only) -/
def parseBrackets : Nat → List Tok → Nat × List Tok
  | 0, ts => (0, ts)
  | f + 1, .lbrack :: .rbrack :: ts => let r := parseBrackets f ts; (r.1 + 1, r.2)
  | _ + 1, ts => (0, ts)

def parseQuests : Nat → List Tok → Nat × List Tok
  | 0, ts => (0, ts)
  | f + 1, .quest :: ts => let r := parseQuests f ts; (r.1 + 1, r.2)
  | _ + 1, ts => (0, ts)

mutual
def parsePrim : Nat → List Tok → Option (Prim0 × List Tok)
  | 0, _ => none
  | f + 1, .name s :: .lt :: ts =>
    match parseType f ts with
    | some (a, ts') =>
      match parseArgs f ts' with
      | some (as, .gt :: ts'') => some (.generic s a as, ts'')
      | _ => none
    | none => none
  | _ + 1, .name s :: ts => some (.name s, ts)
  | _ + 1, .str s :: ts => some (.str s, ts)
  | _ + 1, .int i :: ts => some (.int i, ts)
  | _ + 1, .tt :: ts => some (.bool true, ts)
  | _ + 1, .ff :: ts => some (.bool false, ts)
  | f + 1, .lparen :: ts =>
    match parseType f ts with
    | some (t, .rparen :: ts') => some (.paren t, ts')
    | _ => none
  | f + 1, .lbrace :: ts =>
    match parseFields f ts with
    | some (fs, .rbrace :: ts') => some (.obj fs, ts')
    | _ => none
  | _ + 1, _ => none
def parseSimple : Nat → List Tok → Option (Simple × List Tok)
  | 0, _ => none
  | f + 1, ts =>
    match parsePrim f ts with
    | some (b, ts') => let r := parseBrackets ts'.length ts'; some (.mk b r.1, r.2)
    | none => none
def parseRest : Nat → List Tok → Option (SimpleL × List Tok)
  | 0, _ => none
  | f + 1, .bar :: ts =>
    match parseSimple f ts with
    | some (s, ts') =>
      match parseRest f ts' with
      | some (r, ts'') => some (.cons s r, ts'')
      | none => none
    | none => none
  | _ + 1, ts => some (.nil, ts)
def parseType : Nat → List Tok → Option (TypeE × List Tok)
  | 0, _ => none
  | f + 1, ts =>
    match parseSimple f ts with
    | some (s, ts') =>
      match parseRest f ts' with
      | some (r, ts'') => let q := parseQuests ts''.length ts''; some (.mk s r q.1, q.2)
      | none => none
    | none => none
def parseArgs : Nat → List Tok → Option (TypeEL × List Tok)
  | 0, _ => none
  | f + 1, .comma :: ts =>
    match parseType f ts with
    | some (t, ts') =>
      match parseArgs f ts' with
      | some (r, ts'') => some (.cons t r, ts'')
      | none => none
    | none => none
  | _ + 1, ts => some (.nil, ts)
def parseFields : Nat → List Tok → Option (FieldEL × List Tok)
  | 0, _ => none
  | f + 1, .name k :: .colon :: ts =>
    match parseType f ts with
    | some (t, .comma :: ts') =>
      match parseFields f ts' with
      | some (r, ts'') => some (.cons k t r, ts'')
      | none => none
    | some (t, ts') => some (.cons k t .nil, ts')
    | none => none
  | _ + 1, ts => some (.nil, ts)
end

/-! ## sizes (fuel that suffices) -/

mutual
def Prim0.size : Prim0 → Nat
  | .paren t => t.size + 1
  | .generic _ a as => a.size + as.size + 2
  | .obj fs => fs.size + 1
  | _ => 1
def Simple.size : Simple → Nat
  | .mk b _ => b.size + 1
def SimpleL.size : SimpleL → Nat
  | .nil => 1
  | .cons s r => s.size + r.size + 1
def TypeE.size : TypeE → Nat
  | .mk f r _ => f.size + r.size + 1
def TypeEL.size : TypeEL → Nat
  | .nil => 1
  | .cons t r => t.size + r.size + 1
def FieldEL.size : FieldEL → Nat
  | .nil => 1
  | .cons _ t r => t.size + r.size + 1
end

/-! ## `infer_type`: syntax tree → type -/

def builtinName (s : Name) : Option Prim :=
  if s = "unknown".toList then some .unknown
  else if s = "never".toList then some .never
  else if s = "nil".toList ∨ s = "void".toList then some .nil
  else if s = "any".toList then some .any
  else if s = "userdata".toList then some .userdata
  else if s = "thread".toList then some .thread
  else if s = "boolean".toList ∨ s = "bool".toList then some .boolean
  else if s = "string".toList then some .string
  else if s = "integer".toList ∨ s = "int".toList then some .integer
  else if s = "number".toList then some .number
  else if s = "io".toList then some .io
  else if s = "self".toList then some .selfInfer
  else if s = "global".toList then some .global
  else if s = "function".toList then some .function
  else if s = "table".toList then some .table
  else none

/-- `LuaDocType::Binary` with `|` -/
def binUnion (l r : Ty) : Ty :=
  match l, r with
  | .union a, .union b => fromVec (a.toList ++ b.toList)
  | .union a, r => fromVec (a.toList ++ [r])
  | l, .union b => fromVec (b.toList ++ [l])
  | l, r => fromVec [l, r]

/-- `is_nullable` of the union view used by `LuaDocType::Nullable` -/
def nullableTy : Ty → Bool
  | .prim .nil => true
  | .union ms => ms.toList.any (fun t => decide (t = Ty.tNil))
  | _ => false

/-- `LuaDocType::Nullable` -/
def mkNullable (e : Env) (t : Ty) : Ty :=
  if t = Ty.tUnknown then Ty.tUnknown
  else if nullableTy t then t
  else union e t Ty.tNil

def mkArray (t : Ty) : Ty := if t = Ty.tUnknown then Ty.tUnknown else .array t

def iter {α : Type} (f : α → α) : Nat → α → α
  | 0, x => x
  | k + 1, x => iter f k (f x)

mutual
def ofPrim (e : Env) : Prim0 → Ty
  | .name s => match builtinName s with
    | some k => .prim k
    | none => .ref s
  | .str s => .lit (.docStr s)
  | .int i => .lit (.docInt i)
  | .bool b => .lit (.docBool b)
  | .paren t => ofType e t
  | .generic n a as =>
    if n = "table".toList then
      let ps := ofType e a :: ofArgs e as
      if ps.any (fun t => decide (t = Ty.tUnknown)) then Ty.tUnknown else .tgen (TyL.ofList ps)
    else Ty.tUnknown
  | .obj fs => .object (FdL.ofList (ofFields e fs))
def ofSimple (e : Env) : Simple → Ty
  | .mk b k => iter mkArray k (ofPrim e b)
def ofRest (e : Env) : Ty → SimpleL → Ty
  | acc, .nil => acc
  | acc, .cons s r => ofRest e (binUnion acc (ofSimple e s)) r
def ofType (e : Env) : TypeE → Ty
  | .mk f r q => iter (mkNullable e) q (ofRest e (ofSimple e f) r)
def ofArgs (e : Env) : TypeEL → List Ty
  | .nil => []
  | .cons t r => ofType e t :: ofArgs e r
def ofFields (e : Env) : FieldEL → List (Name × Ty)
  | .nil => []
  | .cons k t r => (k, ofType e t) :: ofFields e r
end

/-! ## `TypeHumanizer` at `Documentation`: the layout as a syntax tree -/

/-- render levels below `Documentation`, as the number of `next_level` steps taken -/
def maxUnionItems : Nat → Nat
  | 0 => 500 | 1 => 6 | 2 => 4 | _ => 2

def maxItems : Nat → Nat
  | 0 => 500 | 1 => 8 | 2 => 4 | _ => 2

def isMinimal (lv : Nat) : Bool := lv ≥ 4

def primText : Prim → Name
  | .unknown => "unknown".toList | .any => "any".toList | .nil => "nil".toList | .table => "table".toList
  | .userdata => "userdata".toList | .function => "function".toList | .thread => "thread".toList
  | .boolean => "boolean".toList | .string => "string".toList | .integer => "integer".toList
  | .number => "number".toList | .io => "io".toList | .selfInfer => "self".toList
  | .global => "global".toList | .never => "never".toList

/-- wrap a rendered type so that it can be followed by `[]`, `|` … : a type that is a single simple
type without `?` is used as is, anything else is parenthesised -/
def asSimple : TypeE → Simple
  | .mk s .nil 0 => s
  | t => .mk (.paren t) 0

mutual
/-- `write_type` at level `lv` with `g` levels of the depth guard (`DEFAULT_MAX_DEPTH = 12`) left;
`d` is model fuel. `none` = the rendering is
truncated (`...`), elided (`{...}`) or outside the sub-grammar. -/
def toCst : Nat → Nat → Nat → Ty → Option TypeE
  | 0, _, _, _ => none
  | _, 0, _, _ => none
  | _ + 1, _ + 1, _, .prim k => some (.mk (.mk (.name (primText k)) 0) .nil 0)
  | _ + 1, _ + 1, _, .lit (.docStr s) | _ + 1, _ + 1, _, .lit (.strC s) => some (.mk (.mk (.str s) 0) .nil 0)
  | _ + 1, _ + 1, _, .lit (.docInt i) | _ + 1, _ + 1, _, .lit (.intC i) => some (.mk (.mk (.int i) 0) .nil 0)
  | _ + 1, _ + 1, _, .lit (.docBool b) | _ + 1, _ + 1, _, .lit (.boolC b) => some (.mk (.mk (.bool b) 0) .nil 0)
  | _ + 1, _ + 1, _, .lit (.floatC _) => none
  | _ + 1, _ + 1, _, .ref n => some (.mk (.mk (.name n) 0) .nil 0)
  | _ + 1, _ + 1, _, .func _ => none
  | _ + 1, _ + 1, _, .tuple _ => none
  | d + 1, g + 1, lv, .array b =>
    match toCst d g (lv + 1) b with
    | none => none
    | some c =>
      -- `write_array_type`: an optional element type is parenthesised
      let s : Simple := match b with
        | .union ms => if ms.toList.any (fun t => decide (t = Ty.tNil)) then .mk (.paren c) 0 else asSimple c
        -- … and so is a negative integer literal (`-1[]` would read as `-(1[])`)
        | .lit (.docInt i) | .lit (.intC i) => if i < 0 then .mk (.paren c) 0 else asSimple c
        | _ => asSimple c
      match s with
      | .mk p k => some (.mk (.mk p (k + 1)) .nil 0)
  | d + 1, g + 1, lv, .tgen ps =>
    if isMinimal lv ∨ ps.toList.length > maxItems lv then none
    else
      match toCstL d g (lv + 1) ps with
      | some (.cons a as) => some (.mk (.mk (.generic "table".toList a as) 0) .nil 0)
      | _ => none
  | d + 1, g + 1, lv, .object fs =>
    if isMinimal lv ∨ fs.toList.length > maxItems lv then none
    else
      match toCstF d g (lv + 1) fs with
      | some cf => some (.mk (.mk (.obj cf) 0) .nil 0)
      | none => none
  | d + 1, g + 1, lv, .union ms =>
    let hasNil := ms.toList.any (fun t => decide (t = Ty.tNil))
    match toCstU d g (lv + 1) ms with
    | none => none
    | some cs =>
      -- dedupe by rendered key
      let us := cs.foldl (fun (acc : List TypeE) c => if acc.contains c then acc else acc ++ [c]) []
      if us.length > maxUnionItems lv then none
      else
        match us with
        | [] => if hasNil then some (.mk (.mk (.name "nil".toList) 0) .nil 0) else none
        | [c] =>
          -- one member: no parentheses, `?` appended to whatever was rendered
          match c with
          | .mk s r q => some (.mk s r (q + (if hasNil then 1 else 0)))
        | c :: rest =>
          let simples := (c :: rest).map asSimple
          match simples with
          | s0 :: ss =>
            let inner : TypeE := .mk s0 (ss.foldr (fun s acc => .cons s acc) .nil) 0
            some (.mk (.mk (.paren inner) 0) .nil (if hasNil then 1 else 0))
          | [] => none
def toCstL : Nat → Nat → Nat → TyL → Option TypeEL
  | 0, _, _, _ => none
  | _ + 1, _, _, .nil => some .nil
  | d + 1, g, lv, .cons t ts =>
    match toCst d g lv t, toCstL d g lv ts with
    | some c, some cs => some (.cons c cs)
    | _, _ => none
def toCstF : Nat → Nat → Nat → FdL → Option FieldEL
  | 0, _, _, _ => none
  | _ + 1, _, _, .nil => some .nil
  | d + 1, g, lv, .cons k t fs =>
    match toCst d g lv t, toCstF d g lv fs with
    | some c, some cs => some (.cons k c cs)
    | _, _ => none
/-- the non-`nil` members of a union, each rendered -/
def toCstU : Nat → Nat → Nat → TyL → Option (List TypeE)
  | 0, _, _, _ => none
  | _ + 1, _, _, .nil => some []
  | d + 1, g, lv, .cons t ts =>
    if t = Ty.tNil then toCstU d g lv ts
    else
      match toCst d g lv t, toCstU d g lv ts with
      | some c, some cs => some (c :: cs)
      | _, _ => none
end

/-- fuel for `toCst`: generous; the humanizer's own depth guard (12) is part of `fits` -/
def renderCst (t : Ty) : Option TypeE := toCst 4096 12 0 t

/-- the rendering as tokens -/
def render (t : Ty) : Option (List Tok) := (renderCst t).map printType

/-- parse a token list as one type, nothing may remain -/
def parseTy (e : Env) (ts : List Tok) : Option Ty :=
  match parseType (4 * ts.length + 4) ts with
  | some (c, []) => some (ofType e c)
  | _ => none

/-- what reading the rendering back yields -/
def reread (e : Env) (t : Ty) : Option Ty := (renderCst t).map (ofType e)

end TyM
