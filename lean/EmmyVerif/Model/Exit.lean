/-!
# Exit — executable model of `emmylua_check`'s `output_result`
(crates/emmylua_check/src/output/mod.rs, cmd_args.rs `DiagnosticSeverityFilter::allows`,
json/text/sarif writers' membership logic). Import-free.

A diagnostic is its identity `id` plus its LSP severity (`Option i32`; 1 error, 2 warning,
3 information, 4 hint, anything else is possible in the type and is modelled).
The channel delivers one message per checked file in *arbitrary* order (concurrent tasks):
`(file, Option diagnostics)`; `none` = `diagnose_file` returned nothing (cancelled / unknown file).
-/
namespace Exit

abbrev Sev := Option Int

inductive Filter where
  | error | warn | info | hint
deriving DecidableEq, Repr

/-- `impl From<DiagnosticSeverityFilter> for DiagnosticSeverity` -/
def Filter.rank : Filter → Int
  | .error => 1
  | .warn => 2
  | .info => 3
  | .hint => 4

/-- `DiagnosticSeverityFilter::allows`: `Some(s) => s <= self.into()`, `None => false` -/
def allows (f : Filter) : Sev → Bool
  | some s => decide (s ≤ f.rank)
  | none => false

structure Diag where
  id : Nat
  sev : Sev
deriving DecidableEq, Repr

/-- `diagnostics.retain(|d| severity_filter.allows(d.severity))` when a filter is given -/
def keep (filt : Option Filter) (d : Diag) : Bool :=
  match filt with
  | none => true
  | some f => allows f d.sev

inductive Format where
  | json | text | sarif
deriving DecidableEq, Repr

/-- one channel message -/
abbrev Msg := Nat × Option (List Diag)

/-- the accumulators of the receive loop -/
structure Acc where
  hasError : Bool
  errors : Nat
  warnings : Nat
  infos : Nat
  hints : Nat
  /-- the calls `writer.write(db, file_id, diagnostics)` in order -/
  written : List (Nat × List Diag)
deriving Repr

def Acc.init : Acc := ⟨false, 0, 0, 0, 0, []⟩

/-- body of `for diagnostic in &diagnostics { match diagnostic.severity … }` -/
def countDiag (wae : Bool) (a : Acc) (d : Diag) : Acc :=
  if d.sev = some 1 then { a with hasError := true, errors := a.errors + 1 }
  else if d.sev = some 2 then { a with hasError := a.hasError || wae, warnings := a.warnings + 1 }
  else if d.sev = some 3 then { a with infos := a.infos + 1 }
  else if d.sev = some 4 then { a with hints := a.hints + 1 }
  else a

/-- one iteration of the `while let Some((file_id, diagnostics)) = receiver.recv().await` body
(without the completion-count test) -/
def step (wae : Bool) (filt : Option Filter) (a : Acc) (m : Msg) : Acc :=
  match m.2 with
  | none => a
  | some ds =>
    let ds' := ds.filter (keep filt)
    let a' := ds'.foldl (countDiag wae) a
    { a' with written := a'.written ++ [(m.1, ds')] }

/-- the receive loop with its manual completion count: `count += 1; …; if count == total_count { break }`;
the list is what the channel still delivers before it closes -/
def loop (total : Nat) (wae : Bool) (filt : Option Filter) : Nat → Acc → List Msg → Acc
  | _, a, [] => a
  | count, a, m :: rest =>
    let a' := step wae filt a m
    if count + 1 = total then a' else loop total wae filt (count + 1) a' rest

def run (total : Nat) (wae : Bool) (filt : Option Filter) (msgs : List Msg) : Acc :=
  loop total wae filt 0 Acc.init msgs

/-- `if has_error { 1 } else { 0 }` -/
def exitCode (a : Acc) : Nat := if a.hasError then 1 else 0

/-- the file entries a writer emits: the JSON writer emits one entry per `write` call (also for an empty
list); text and SARIF return early on an empty list -/
def entries (fmt : Format) (a : Acc) : List (Nat × List Diag) :=
  match fmt with
  | .json => a.written
  | .text => a.written.filter (fun e => !e.2.isEmpty)
  | .sarif => a.written.filter (fun e => !e.2.isEmpty)

/-- the (file, diagnostic) pairs of a report, in report order -/
def reportPairs (fmt : Format) (a : Acc) : List (Nat × Diag) :=
  (entries fmt a).flatMap (fun e => e.2.map (fun d => (e.1, d)))

/-- SARIF `level` (`get_sarif_level`) -/
def sarifLevel (s : Sev) : String :=
  if s = some 1 then "error" else if s = some 2 then "warning" else "note"

/-- text writer's level word (`display_single_diagnostic`; the catch-all arm prints `error`) -/
def textLevel (s : Sev) : String :=
  if s = some 1 then "error" else if s = some 2 then "warning"
  else if s = some 3 then "info" else if s = some 4 then "hint" else "error"

/-! ## Specification-side definitions (what the property talks about) -/

/-- a diagnostic that must make the exit status non-zero -/
def fatal (wae : Bool) (d : Diag) : Bool :=
  d.sev = some 1 || (d.sev = some 2 && wae)

/-- the messages the loop consumes when `count` were consumed before -/
def processed (total count : Nat) (msgs : List Msg) : List Msg :=
  if count < total then msgs.take (total - count) else msgs

/-- the filtered diagnostics of a message list, each under its own file -/
def filteredPairs (filt : Option Filter) (msgs : List Msg) : List (Nat × Diag) :=
  msgs.flatMap (fun m => match m.2 with
    | none => []
    | some ds => (ds.filter (keep filt)).map (fun d => (m.1, d)))

end Exit
