import EmmyVerif.Model.IndexMap
/-!
# Index family — `LuaModuleIndex` (crates/emmylua_code_analysis/src/db_index/module/mod.rs)

Executable model of: `set_module_extract_patterns` / `match_pattern`, `extract_module_path`,
`set_module_replace_patterns` / `replace_module_path` (for the anchored template fragment),
`add_module_by_path` / `add_module_by_module_path`, `LuaIndex::remove` (after the `fix:` commit),
`set_module_visibility`, `find_module` (exact → moduleMap → fuzzy), `find_module_node`.

Representation. Strings are `List Char`. The node arena `module_nodes : HashMap<ModuleNodeId, ModuleNode>`
is keyed by the node's *path from the root* instead of its numeric id (ids are opaque handles; a
node's `parent`/`children` links are the path structure), so `children` of `p` are the keys
`p ++ [s]`. `file_ids` vectors keep their push order. The spec state (`live`) is the insertion-ordered
list of the live files' `ModuleInfo`s.
-/
namespace Index.Module
open Index

abbrev Seg := List Char
abbrev MPath := List Seg

/-! ## strings -/

/-- `str::split(c)` (always at least one piece) -/
def splitOn (c : Char) : List Char → List (List Char)
  | [] => [[]]
  | x :: r =>
    if x = c then [] :: splitOn c r
    else match splitOn c r with
      | [] => [[x]]
      | h :: t => (x :: h) :: t

def joinWith (sep : Char) : List (List Char) → List Char
  | [] => []
  | [x] => x
  | x :: y :: r => x ++ sep :: joinWith sep (y :: r)

/-- `s.replace(['\\', '/'], ".")` -/
def normSep (s : List Char) : List Char :=
  s.map fun c => if c = '\\' ∨ c = '/' then '.' else c

/-- `String::len` (UTF-8 bytes) -/
def utf8Len (s : List Char) : Nat := (s.map Char.utf8Size).sum

def lastSeg (p : MPath) : Seg := p.getLast?.getD []

/-- `str::cmp` (bytewise on UTF-8 = lexicographic on scalar values) : `a < b` -/
def lexLt : List Char → List Char → Bool
  | [], [] => false
  | [], _ :: _ => true
  | _ :: _, [] => false
  | a :: as, b :: bs => if a.toNat < b.toNat then true else if b.toNat < a.toNat then false else lexLt as bs

/-! ## patterns (`?.lua`, `?/init.lua`, custom) -/

def insertDesc (x : List Char) : List (List Char) → List (List Char)
  | [] => [x]
  | y :: r => if utf8Len y ≤ utf8Len x then x :: y :: r else y :: insertDesc x r

/-- `patterns.sort_by_key(|b| Reverse(b.len()))` (stable) -/
def sortDesc : List (List Char) → List (List Char)
  | [] => []
  | x :: r => insertDesc x (sortDesc r)

/-- `Vec::dedup` (consecutive equal elements) -/
def dedup : List (List Char) → List (List Char)
  | [] => []
  | [x] => [x]
  | x :: y :: r => if x = y then dedup (y :: r) else x :: dedup (y :: r)

/-- a compiled pattern: the literal pieces between the `?`s of the template, i.e. the regex
`^L0(.*)L1(.*)…Ln$` -/
abbrev Pattern := List (List Char)

def compilePatterns (raw : List (List Char)) : List Pattern :=
  (dedup (sortDesc raw)).map fun t => splitOn '?' (t.map fun c => if c = '\\' then '/' else c)

/-- greedy `(.*)` followed by a continuation `mt`: the longest capture (no `\n`) of length ≤ `k`
after which the rest matches -/
def tryGroup (mt : List Char → Bool) (s : List Char) : Nat → Option (List Char)
  | 0 => if mt s then some [] else none
  | k + 1 =>
    if (s.take (k + 1)).all (fun c => c ≠ '\n') && mt (s.drop (k + 1)) then some (s.take (k + 1))
    else tryGroup mt s k

/-- does `s` match `L0(.*)L1…Ln$` (the pieces `L0 :: …`) -/
def matchTail : List (List Char) → List Char → Bool
  | [], s => s.isEmpty
  | [l], s => s == l
  | l :: r :: rest, s =>
    l.isPrefixOf s &&
      (tryGroup (matchTail (r :: rest)) (s.drop l.length) (s.length - l.length)).isSome

/-- `pattern.captures(path)?.get(1)` -/
def matchPattern (p : Pattern) (path : List Char) : Option (List Char) :=
  match p with
  | [] => none
  | [_] => none
  | l :: r :: rest =>
    if l.isPrefixOf path then
      tryGroup (matchTail (r :: rest)) (path.drop l.length) (path.length - l.length)
    else none

/-- `match_pattern`: first pattern (longest template first) with a capture -/
def matchPatterns : List Pattern → List Char → Option (List Char)
  | [], _ => none
  | p :: ps, path =>
    match matchPattern p path with
    | some m => some m
    | none => matchPatterns ps path

/-! ## workspaces and `extract_module_path` -/

structure Workspace where
  root : List Seg          -- path components of the root
  pkg : Option (List Seg)  -- `WorkspaceImport::Package(dir)` components; `none` = `All`
  id : Nat
deriving DecidableEq, Repr

/-- `Path::strip_prefix` on component lists -/
def stripPrefix : List Seg → List Seg → Option (List Seg)
  | [], p => some p
  | _ :: _, [] => none
  | r :: rs, p :: ps => if r = p then stripPrefix rs ps else none

def includes (pkg : Option (List Seg)) (rel : List Seg) : Bool :=
  match pkg with
  | none => true
  | some d => (stripPrefix d rel).isSome

/-- `Path::file_prefix` of a file name -/
def filePrefix (name : Seg) : Seg :=
  match name with
  | '.' :: r => '.' :: r.takeWhile (fun c => c ≠ '.')
  | n => n.takeWhile (fun c => c ≠ '.')

def extractGo (pats : List Pattern) (comps : List Seg) :
    List Workspace → Option (List Char × Nat) → Option (List Char × Nat)
  | [], acc => acc
  | w :: ws, acc =>
    match stripPrefix w.root comps with
    | none => extractGo pats comps ws acc
    | some rel =>
      if !includes w.pkg rel then extractGo pats comps ws acc
      else if rel.isEmpty && !(lastSeg w.root).isEmpty then some (filePrefix (lastSeg w.root), w.id)
      else
        match matchPatterns pats (joinWith '/' rel) with
        | none => extractGo pats comps ws acc
        | some mp =>
          match acc with
          | none => extractGo pats comps ws (some (mp, w.id))
          | some (m, mid) =>
            if utf8Len mp < utf8Len m then
              extractGo pats comps ws (some (mp, if w.id = 1 then mid else w.id))
            else extractGo pats comps ws acc

/-- `extract_module_path` (paths are normalised: components separated by single `/`) -/
def extractModulePath (pats : List Pattern) (wss : List Workspace) (path : List Char) :
    Option (List Char × Nat) :=
  extractGo pats (splitOn '/' path) wss none

/-! ## moduleMap rules (fragment `^pre(.*)suf$` → `rpre${1}rsuf`) -/

structure Rule where
  pre : List Char
  suf : List Char
  rpre : List Char
  rsuf : List Char
deriving DecidableEq, Repr

def applyRule (r : Rule) (s : List Char) : List Char :=
  if r.pre.isPrefixOf s && r.pre.length + r.suf.length ≤ s.length then
    let rest := s.drop r.pre.length
    let mid := rest.take (rest.length - r.suf.length)
    if rest.drop (rest.length - r.suf.length) == r.suf && mid.all (fun c => c ≠ '\n') then
      r.rpre ++ mid ++ r.rsuf
    else s
  else s

/-- `replace_module_path` -/
def replacePath (rules : List Rule) (s : List Char) : List Char :=
  rules.foldl (fun acc r => applyRule r acc) s

structure Config where
  patterns : List (List Char)
  workspaces : List Workspace
  rules : List Rule
  fuzzy : Bool
deriving Repr

/-! ## `update_config` -/

/-- `extension.strip_prefix(".").or_else(|| extension.strip_prefix("*."))` -/
def normExt (e : List Char) : List Char :=
  match e with
  | '.' :: r => r
  | '*' :: '.' :: r => r
  | _ => e

/-- the templates `update_config` derives from `runtime.extensions` and `runtime.requirePattern` -/
def configPatterns (exts reqPat : List (List Char)) : List (List Char) :=
  let names := exts.map normExt
  let names := if names.contains "lua".toList then names else names ++ ["lua".toList]
  names.map (fun e => "?.".toList ++ e) ++
    (if reqPat.isEmpty then names.map (fun e => "?/init.".toList ++ e) else reqPat)

/-- `LuaModuleIndex::update_config`: patterns, moduleMap rules and the fuzzy flag are replaced entirely
(workspaces are managed separately) -/
def updateConfig (cfg : Config) (fuzzy : Bool) (exts reqPat : List (List Char)) (rules : List Rule) : Config :=
  { cfg with patterns := configPatterns exts reqPat, rules := rules, fuzzy := fuzzy }

/-! ## state -/

structure Info where
  file : Nat
  path : MPath     -- `full_module_name` split at '.'
  ws : Nat
  hidden : Bool
deriving DecidableEq, Repr

structure MState where
  nodes : List (MPath × List Nat)   -- `module_nodes` (+ `file_ids` per node); the root is `[]`
  infos : List (Nat × Info)         -- `file_module_map`
  fuzzy : List (Seg × List Nat)     -- `module_name_to_file_ids`
deriving Repr

def MState.new : MState := ⟨[([], [])], [], []⟩

/-- node `p` has a child (a key `p ++ [s]`) -/
def hasChild (nodes : List (MPath × List Nat)) (p : MPath) : Bool :=
  nodes.any fun e => !e.1.isEmpty && e.1.dropLast == p

/-- the `while` loop of `remove`: delete empty nodes from `rp.reverse` upwards, never the root -/
def pruneUp (nodes : List (MPath × List Nat)) : List Seg → List (MPath × List Nat)
  | [] => nodes
  | s :: rp =>
    match aget nodes (s :: rp).reverse with
    | none => nodes
    | some fs =>
      if !fs.isEmpty || hasChild nodes (s :: rp).reverse then nodes
      else pruneUp (adel nodes (s :: rp).reverse) rp

/-- `LuaIndex::remove` -/
def remove (s : MState) (f : Nat) : MState :=
  match aget s.infos f with
  | none => s
  | some i =>
    { nodes := pruneUp (aupdate s.nodes i.path fun fs => fs.filter fun x => x ≠ f) i.path.reverse
      infos := adel s.infos f
      fuzzy := aretainDrop s.fuzzy (lastSeg i.path) (fun x => x ≠ f) }

/-- `LuaIndex::clear` (`id_counter`, patterns, workspaces are not touched) -/
def clear (s : MState) : MState :=
  { nodes := if survivesClear (some ("modules_index", "module_nodes")) then s.nodes else [([], [])]
    infos := if survivesClear (some ("modules_index", "file_module_map")) then s.infos else []
    fuzzy := if survivesClear (some ("modules_index", "module_name_to_file_ids")) then s.fuzzy else [] }

/-- the descent of `add_module_by_module_path`: create the missing nodes along the path -/
def ensurePrefixes (nodes : List (MPath × List Nat)) (acc : MPath) : List Seg → List (MPath × List Nat)
  | [] => nodes
  | s :: r =>
    let q := acc ++ [s]
    ensurePrefixes (if (aget nodes q).isSome then nodes else aset nodes q []) q r

/-- `add_module_by_module_path` -/
def addModule (fuzzyOn : Bool) (s : MState) (f : Nat) (modPath : List Char) (ws : Nat) : MState :=
  let s := if (aget s.infos f).isSome then remove s f else s
  let p := splitOn '.' modPath
  let nodes := ensurePrefixes s.nodes [] p
  { nodes := apush nodes p f
    infos := aset s.infos f { file := f, path := p, ws := ws, hidden := false }
    fuzzy := if fuzzyOn then apush s.fuzzy (lastSeg p) f else s.fuzzy }

/-- `add_module_by_path`; second component = the returned `Option<WorkspaceId>` -/
def addByPath (cfg : Config) (s : MState) (f : Nat) (path : List Char) : MState × Option Nat :=
  let s := if (aget s.infos f).isSome then remove s f else s
  match extractModulePath (compilePatterns cfg.patterns) cfg.workspaces path with
  | none => (s, none)
  | some (mp, ws) =>
    let mp := normSep mp
    let mp := if cfg.rules.isEmpty then mp else replacePath cfg.rules mp
    (addModule cfg.fuzzy s f mp ws, some ws)

/-- `set_module_visibility(file, Hide / not Hide)` -/
def setHidden (s : MState) (f : Nat) (b : Bool) : MState :=
  match aget s.infos f with
  | none => s
  | some i => { s with infos := aset s.infos f { i with hidden := b } }

/-! ## lookup -/

/-- the loop of `exact_find_module` over the node's `file_ids` -/
def pickGo (infos : List (Nat × Info)) (prefer : Bool) (first : Option Info) : List Nat → Option Info
  | [] => first
  | f :: r =>
    match aget infos f with
    | none => none
    | some i =>
      if !prefer || !i.hidden then some i
      else pickGo infos prefer (first <|> some i) r

/-- `exact_find_module` -/
def exactFind (s : MState) (p : MPath) : Option Info :=
  match aget s.nodes p with
  | none => none
  | some fs => pickGo s.infos (decide (1 < fs.length)) none fs

/-- leading segment count of `fuzzy_find_module`'s candidate filter -/
def leading (full p : MPath) : Option Nat :=
  if full = p then some 0
  else if p.length < full.length ∧ full.drop (full.length - p.length) = p then
    some ((full.take (full.length - p.length)).filter fun s => !s.isEmpty).length
  else none

def fullName (i : Info) : List Char := joinWith '.' i.path

/-- `compare` of `min_by`: `b` strictly smaller than `a` -/
def better (b a : Nat × Info) : Bool :=
  b.1 < a.1 || (b.1 == a.1 && lexLt (fullName b.2) (fullName a.2))

/-- `Iterator::min_by` (first of the minima) -/
def minBy : List (Nat × Info) → Option (Nat × Info)
  | [] => none
  | x :: r => some (r.foldl (fun acc y => if better y acc then y else acc) x)

def candidates (infos : List (Nat × Info)) (p : MPath) (fs : List Nat) : List (Nat × Info) :=
  fs.filterMap fun f => (aget infos f).bind fun i => (leading i.path p).map fun n => (n, i)

/-- `fuzzy_find_module(module_path, last_name)` -/
def fuzzyFind (s : MState) (p : MPath) : Option Info :=
  match aget s.fuzzy (lastSeg p) with
  | none => none
  | some fs => (minBy (candidates s.infos p fs)).map (·.2)

/-- the moduleMap-rewritten query, when rules exist and change it -/
def mappedQuery (rules : List Rule) (q : List Char) : Option MPath :=
  if rules.isEmpty then none
  else if replacePath rules q = q then none
  else some (splitOn '.' (replacePath rules q))

/-- `find_module` parameterised by the two lookups (shared by model and spec) -/
def findWith (exact fuzzy : MPath → Option Info) (cfg : Config) (query : List Char) : Option Info :=
  let q := normSep query
  let p := splitOn '.' q
  match exact p with
  | some i => some i
  | none =>
    let mapped := mappedQuery cfg.rules q
    match mapped.bind exact with
    | some i => some i
    | none =>
      if cfg.fuzzy then
        match mapped.bind fuzzy with
        | some i => some i
        | none => fuzzy p
      else none

/-- `find_module` -/
def find (cfg : Config) (s : MState) (query : List Char) : Option Info :=
  findWith (exactFind s) (fuzzyFind s) cfg query

/-- `find_module_node(path).children.keys()` -/
def nodeChildren (s : MState) (query : List Char) : Option (List Seg) :=
  let p : MPath := if query.isEmpty then [] else splitOn '.' (normSep query)
  match aget s.nodes p with
  | none => none
  | some _ => some ((s.nodes.filter fun e => !e.1.isEmpty && e.1.dropLast == p).map fun e => lastSeg e.1)

/-! ## histories -/

inductive Op where
  | add (f : Nat) (path : List Char)
  | addMod (f : Nat) (modPath : List Char) (ws : Nat)
  | remove (f : Nat)
  | hide (f : Nat) (b : Bool)
  | clear
deriving Repr

def step (cfg : Config) (s : MState) : Op → MState
  | .add f path => (addByPath cfg s f path).1
  | .addMod f mp ws => addModule cfg.fuzzy s f mp ws
  | .remove f => remove s f
  | .hide f b => setHidden s f b
  | .clear => clear s

def run (cfg : Config) (ops : List Op) : MState := ops.foldl (step cfg) MState.new

/-- histories with configuration changes: an index operation or an `update_config` -/
inductive COp where
  | op (o : Op)
  | config (fuzzy : Bool) (exts reqPat : List (List Char)) (rules : List Rule)

def stepC (st : Config × MState) : COp → Config × MState
  | .op o => (st.1, step st.1 st.2 o)
  | .config fz exts rp rules => (updateConfig st.1 fz exts rp rules, st.2)

def runC (cfg : Config) (h : List COp) : Config × MState := h.foldl stepC (cfg, MState.new)

/-! ## specification: the set of live (file, module path), in insertion order -/

def specRemove (live : List Info) (f : Nat) : List Info := live.filter fun i => i.file ≠ f

def specAddMod (live : List Info) (f : Nat) (modPath : List Char) (ws : Nat) : List Info :=
  specRemove live f ++ [{ file := f, path := splitOn '.' modPath, ws := ws, hidden := false }]

def specStep (cfg : Config) (live : List Info) : Op → List Info
  | .add f path =>
    match extractModulePath (compilePatterns cfg.patterns) cfg.workspaces path with
    | none => specRemove live f
    | some (mp, ws) =>
      specAddMod live f (if cfg.rules.isEmpty then normSep mp else replacePath cfg.rules (normSep mp)) ws
  | .addMod f mp ws => specAddMod live f mp ws
  | .remove f => specRemove live f
  | .hide f b => live.map fun i => if i.file = f then { i with hidden := b } else i
  | .clear => []

def specLive (cfg : Config) (ops : List Op) : List Info := ops.foldl (specStep cfg) []

/-- exact choice: among the live files with that module path, the earliest added one; when there are
several, the earliest added non-hidden one (falling back to the earliest) -/
def specExact (live : List Info) (p : MPath) : Option Info :=
  let c := live.filter fun i => i.path = p
  if 1 < c.length then (c.find? fun i => !i.hidden) <|> c.head? else c.head?

/-- fuzzy choice: among the live files whose module path equals or properly ends with `p`
(segment-wise), the minimum by (number of non-empty leading segments, full name), earliest first -/
def specFuzzy (live : List Info) (p : MPath) : Option Info :=
  (minBy (live.filterMap fun i => (leading i.path p).map fun n => (n, i))).map (·.2)

def specFind (cfg : Config) (live : List Info) (query : List Char) : Option Info :=
  findWith (specExact live) (specFuzzy live) cfg query

end Index.Module
