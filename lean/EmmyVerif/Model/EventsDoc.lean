/-!
# Model of the doc parser's token core (`DocCore`, crates/emmylua_parser/src/parser/lua_doc_parser.rs)

`init`/`bump`, `calc_next_current_token` (the per-state whitespace skipping), `eat_current_and_lex_next`,
`lex_token` (walking the origin tokens of a comment group, passing whitespace / end-of-line / shebang
tokens through and re-lexing comment tokens with the doc lexer), `set_lexer_state` with `re_calc_detail`
and `re_calc_cast_type` (both rewind the doc lexer to the start of the current, not yet emitted token),
`bump_to_end`, `set_current_token_kind`.

The doc lexer (`lua_doc_lexer.rs`, 15 states, 900 lines) is constrained only by the Reader
discipline: `lex()` does `reset_buff`, answers `TkEof` at the end of its reader, and otherwise consumes
some bytes — at least one, at most what is left — and names a kind. Which kind and how many bytes is
an arbitrary `script` (for the correspondence run: the results recorded by the hook).
Positions are absolute byte offsets; ranges are `(start, length)`. Import-free.
-/
namespace Doc

/-- token kinds as far as the core distinguishes them -/
inductive K
  | none | eof
  | ws | eol | cont | contOr | normalStart | longStart | docStart | docLongStart | longEnd
  | trivia | detail
  | attrUse        -- TkDocAttributeUse: lexing it switches the doc lexer itself to AttributeUse
  | other (n : Nat)
  deriving DecidableEq, Repr

/-- `LuaDocLexerState` as far as the core distinguishes the states -/
inductive LS
  | init          -- Init
  | normal        -- Normal
  | normalLike    -- Version | Mapped | Extends
  | wsOnly        -- FieldStart | See | Source | AttributeUse
  | castExpr      -- CastExpr
  | description   -- Description
  | trivia        -- Trivia
  | other         -- Tag | LongDescription | NormalDescription
  deriving DecidableEq, Repr

/-- an origin token of the comment group (a lexer token of the Lua lexer) -/
structure OTok where
  pass : Bool      -- TkEndOfLine | TkWhitespace | TkShebang: handed through unchanged
  kind : K
  start : Nat
  len : Nat
  deriving Repr

/-- the doc lexer's `Reader` over an origin token (or its rest): text ends at `stop`,
buffer = `[bstart, bstart + blen)` -/
structure Rd where
  stop : Nat
  bstart : Nat
  blen : Nat
  deriving Repr

structure D where
  toks : List OTok
  oidx : Nat                      -- origin_token_index
  rd : Option Rd                  -- lexer.reader
  st : LS                         -- lexer.state
  cur : K                         -- current_token
  cstart : Nat                    -- current_token_range
  clen : Nat
  script : List (K × Nat)         -- what the doc lexer arms will answer: (kind, bytes)
  events : List (K × Nat × Nat)   -- EatToken events: (kind, start, length)
  deriving Repr

def D.new (toks : List OTok) (script : List (K × Nat)) : D :=
  { toks := toks, oidx := 0, rd := none, st := .init, cur := .none, cstart := 0, clen := 0,
    script := script, events := [] }

/-- `lexer.is_invalid()` -/
def rdInvalid (d : D) : Bool :=
  match d.rd with
  | none => true
  | some r => decide (r.stop ≤ r.bstart + r.blen)

def fixK : K → K
  | .none => .other 0
  | .eof => .other 0
  | k => k

/-- one `lexer.lex()`: `none` = `TkEof` -/
def lexOnce (d : D) : D × Option (K × Nat × Nat) :=
  match d.rd with
  | none => (d, none)
  | some r =>
    let b := r.bstart + r.blen
    if r.stop ≤ b then ({ d with rd := some ⟨r.stop, b, 0⟩ }, none)
    else
      match d.script with
      | [] => ({ d with rd := some ⟨r.stop, b, r.stop - b⟩ }, some (.other 0, b, r.stop - b))
      | (k, n) :: rest =>
        let n' := min (max n 1) (r.stop - b)
        ({ d with rd := some ⟨r.stop, b, n'⟩, script := rest }, some (fixK k, b, n'))

/-- `lex_token` (fuel = iterations of its loop) -/
def lexToken : Nat → D → D × (K × Nat × Nat)
  | 0, d => (d, (.eof, d.cstart + d.clen, 0))
  | f+1, d =>
    if rdInvalid d then
      let next := if d.oidx == 0 && d.cur == .none then 0 else d.oidx + 1
      match d.toks[next]? with
      | none => (d, (.eof, d.cstart + d.clen, 0))
      | some t =>
        let d1 := { d with oidx := next }
        if t.pass then (d1, (t.kind, t.start, t.len))
        else
          match lexOnce { d1 with rd := some ⟨t.start + t.len, t.start, 0⟩ } with
          | (d3, some tk) => (d3, tk)
          | (d3, none) => lexToken f d3
    else
      match lexOnce d with
      | (d3, some tk) => (d3, tk)
      | (d3, none) => lexToken f d3

def lexFuel (d : D) : Nat := d.toks.length + 2

/-- the one state change the doc lexer makes on its own (`lex_tag` on `[`): after a `TkDocAttributeUse`
token the lexer is in `AttributeUse` -/
def stAfter (k : K) (s : LS) : LS := if k == .attrUse then .wsOnly else s

/-- `eat_current_and_lex_next` -/
def eat (d : D) : D :=
  let d1 := { d with events := d.events ++ [(d.cur, d.cstart, d.clen)] }
  let r := lexToken (lexFuel d1) d1
  let d2 := r.1
  if r.2.2.2 = 0 then { d2 with cur := r.2.1, st := stAfter r.2.1 d2.st }
  else { d2 with cur := r.2.1, cstart := r.2.2.1, clen := r.2.2.2, st := stAfter r.2.1 d2.st }

/-- which tokens `calc_next_current_token` eats on its own, per lexer state -/
def skipP : LS → K → Bool
  | .normal, k | .normalLike, k => k == .cont || k == .eol || k == .ws
  | .wsOnly, k | .castExpr, k => k == .ws
  | .init, k => k == .eol || k == .ws
  | _, _ => false

def skipLoop : Nat → D → D
  | 0, d => d
  | f+1, d => if skipP d.st d.cur then skipLoop f (eat d) else d

/-- bytes of the group: bound for the skip loop -/
def groupBytes (d : D) : Nat := (d.toks.map (·.len)).sum

/-- `calc_next_current_token` -/
def calcNext (d : D) : D :=
  let r := lexToken (lexFuel d) d
  let d1 := { r.1 with cur := r.2.1, cstart := r.2.2.1, clen := r.2.2.2, st := stAfter r.2.1 r.1.st }
  if d1.cur == .eof then d1 else skipLoop (groupBytes d1 + 1) d1

def isInvalidKind : K → Bool
  | .none | .eof => true
  | _ => false

/-- `bump` -/
def bump (d : D) : D :=
  let d1 := if isInvalidKind d.cur then d else { d with events := d.events ++ [(d.cur, d.cstart, d.clen)] }
  calcNext d1

def tokEnd (d : D) : Option Nat := (d.toks[d.oidx]?).map fun t => t.start + t.len

/-- `re_calc_detail`; `none` = index panic -/
def reCalcDetail (d : D) : Option D :=
  let d1 := { d with cur := .detail }
  if rdInvalid d1 then some d1
  else
    match tokEnd d1 with
    | none => none
    | some e =>
      some (bump { d1 with cur := .none, rd := some ⟨e, d1.cstart, 0⟩, st := .description })

/-- `re_calc_cast_type` -/
def reCalcCast (d : D) : Option D :=
  if rdInvalid d then some d
  else
    match tokEnd d with
    | none => none
    | some e =>
      let d1 := { d with rd := some ⟨e, d.cstart, 0⟩, st := .normal }
      let r := lexToken (lexFuel d1) d1
      let d2 := r.1
      some (if r.2.2.2 = 0 then { d2 with cur := r.2.1, st := stAfter r.2.1 d2.st }
            else { d2 with cur := r.2.1, cstart := r.2.2.1, clen := r.2.2.2, st := stAfter r.2.1 d2.st })

def exclDescription : K → Bool
  | .ws | .eol | .eof | .contOr | .normalStart | .longStart | .docStart | .docLongStart | .longEnd => true
  | _ => false

def exclTrivia : K → Bool
  | .ws | .eol | .eof | .contOr => true
  | _ => false

/-- `set_lexer_state` -/
def setState (d : D) (s : LS) : Option D :=
  let r : Option D :=
    match s with
    | .description => if exclDescription d.cur then some d else reCalcDetail d
    | .trivia => if exclTrivia d.cur then some d else some { d with cur := .trivia }
    | .normal => if d.st == .castExpr then reCalcCast d else some d
    | _ => some d
  r.map fun d' => { d' with st := s }

/-- `bump_to_end` -/
def bumpToEnd (d : D) : Option D := do
  let d1 ← setState d .trivia
  let d2 := eat d1
  let d3 ← setState d2 .init
  pure (bump d3)

/-- what the doc grammar can do to the core -/
inductive Op
  | bump
  | setState (s : LS)
  | bumpToEnd
  | setKind (k : K)
  deriving Repr

/-- one grammar operation. `set_current_token_kind` is only ever applied to a present token and
never with `None`/`TkEof` (every call site is under a `current_token() == …` test), and the only call
site of `bump_to_end` (`parse_docs`) is under `!reader.is_eof()`: other uses are rejected (`none`),
like an index panic. -/
def step (d : D) : Op → Option D
  | .bump => some (bump d)
  | .setState s => setState d s
  | .bumpToEnd => if rdInvalid d then none else bumpToEnd d
  | .setKind k => if isInvalidKind d.cur || isInvalidKind k then none else some { d with cur := k }

def run (d : D) : List Op → Option D
  | [] => some d
  | op :: ops => match step d op with
    | none => none
    | some d' => run d' ops

/-- `LuaDocParser::parse` up to the point where the grammar takes over: `init` -/
def start (toks : List OTok) (script : List (K × Nat)) : D :=
  if toks.isEmpty then D.new toks script else bump (D.new toks script)

/-- ranges `(kind, start, len)` are contiguous from `a` to `b` -/
def Tiles : List (K × Nat × Nat) → Nat → Nat → Prop
  | [], a, b => a = b
  | (_, s, l) :: rest, a, b => s = a ∧ Tiles rest (a + l) b

end Doc
