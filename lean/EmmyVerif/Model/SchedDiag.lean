/-!
# `SchedDiag` — debounced per-file diagnostic tasks (C30)

Model of `FileDiagnostic::add_diagnostic_task` / `clear_push_file_diagnostics`
(`crates/emmylua_ls/src/context/file_diagnostic.rs`) driven by the text-document handlers.

* The main loop handles events in order (inline handlers, C27): `edit u t` = `analysis.write: update`
  then `add_diagnostic_task(u)`; `remove u` = `analysis.write: remove_file` then
  `clear_push_file_diagnostics(u)` (publish `[]`).
* `add_diagnostic_task(u)` (under the `diagnostic_tokens` mutex): cancel the token stored for `u` (if
  any), store a **fresh** token, spawn a task.
* The spawned task: `select!{ sleep(interval) | token.cancelled() }` — (`wake`) the timer fires, or
  (`cancelExit`) the token is cancelled first and the task ends; then (`diag`, under `analysis.read`):
  if the file is still known, diagnose its *current* text and **publish while still holding the read
  lock**; a cancelled token may make `diagnose_file` return `None` (`diagSkip`); finally (`rmTok`, under
  the mutex) remove the map entry of the file — whatever token is there.
* `wsDiag u`: any other publisher that diagnoses and publishes under the read lock (workspace
  diagnostic subtasks); may run any number of times.

Diagnosis is abstracted to a function of the analysed text of that file, so a publication is recorded as
the text it diagnosed (`some t`) or as the empty set (`none`). Timers are arbitrary: a task may wake at any
time after it was spawned. `Cfg` switches the two mechanisms the property names, to show each is needed.
Import-free, executable.
-/
namespace SchedDiag

abbrev Uri := Nat
abbrev Text := Nat

structure Cfg where
  publishUnderLock : Bool   -- publish inside the `analysis.read` section that diagnosed
  freshToken : Bool         -- every add_diagnostic_task stores a new token (token replacement)
  deriving DecidableEq, Repr

def realCfg : Cfg := { publishUnderLock := true, freshToken := true }

inductive Event | edit (u : Uri) (t : Text) | remove (u : Uri) deriving DecidableEq, Repr

inductive MStep
  | updAn (u : Uri) (t : Text)
  | addTask (u : Uri)
  | rmAn (u : Uri)
  | clearPub (u : Uri)
  deriving DecidableEq, Repr

def msteps : Event → List MStep
  | .edit u t => [.updAn u t, .addTask u]
  | .remove u => [.rmAn u, .clearPub u]

inductive Phase | sleeping | woke | computed (d : Option Text) | finishing | done
  deriving DecidableEq, Repr

structure DTask where
  u : Uri
  tok : Nat
  phase : Phase
  deriving DecidableEq, Repr

structure St where
  pending : List Event
  cur : List MStep
  an : Uri → Option Text
  tokens : Uri → Option Nat
  cancelled : List Nat
  nextTok : Nat
  tasks : List DTask
  pubs : List (Uri × Option Text)   -- newest first; `none` = empty diagnostics, `some t` = diagnostics of text `t`

def upd {α} (f : Nat → α) (k : Nat) (v : α) : Nat → α := fun x => if x = k then v else f x

def lastPub (s : St) (u : Uri) : Option (Option Text) := (s.pubs.find? (fun p => p.1 == u)).map (·.2)

inductive Label
  | main
  | wake (i : Nat) | cancelExit (i : Nat) | diag (i : Nat) | diagSkip (i : Nat) | pub (i : Nat) | rmTok (i : Nat)
  | wsDiag (u : Uri)
  deriving DecidableEq, Repr

def setPhase (s : St) (i : Nat) (t : DTask) (p : Phase) : St := { s with tasks := s.tasks.set i { t with phase := p } }

def execMain (cfg : Cfg) (s : St) : MStep → List MStep → St
  | .updAn u t, rest => { s with cur := rest, an := upd s.an u (some t) }
  | .rmAn u, rest => { s with cur := rest, an := upd s.an u none }
  | .clearPub u, rest => { s with cur := rest, pubs := (u, none) :: s.pubs }
  | .addTask u, rest =>
    match s.tokens u with
    | some old =>
      if cfg.freshToken then
        { s with cur := rest, cancelled := old :: s.cancelled, tokens := upd s.tokens u (some s.nextTok),
                 nextTok := s.nextTok + 1, tasks := s.tasks ++ [{ u := u, tok := s.nextTok, phase := .sleeping }] }
      else
        -- no replacement: the stored token is cancelled and handed to the new task as well
        { s with cur := rest, cancelled := old :: s.cancelled,
                 tasks := s.tasks ++ [{ u := u, tok := old, phase := .sleeping }] }
    | none =>
      { s with cur := rest, tokens := upd s.tokens u (some s.nextTok), nextTok := s.nextTok + 1,
               tasks := s.tasks ++ [{ u := u, tok := s.nextTok, phase := .sleeping }] }

def exec (cfg : Cfg) (s : St) : Label → Option St
  | .main =>
    match s.cur with
    | st :: rest => some (execMain cfg s st rest)
    | [] =>
      match s.pending with
      | [] => none
      | e :: es => some { s with pending := es, cur := msteps e }
  | .wake i =>
    match s.tasks[i]? with
    | some t => if t.phase = .sleeping then some (setPhase s i t .woke) else none
    | none => none
  | .cancelExit i =>
    match s.tasks[i]? with
    | some t => if t.phase = .sleeping ∧ t.tok ∈ s.cancelled then some (setPhase s i t .done) else none
    | none => none
  | .diag i =>
    match s.tasks[i]? with
    | some t =>
      if t.phase = .woke then
        if cfg.publishUnderLock then
          match s.an t.u with
          | some txt => some { setPhase s i t .finishing with pubs := (t.u, some txt) :: s.pubs }
          | none => some (setPhase s i t .finishing)
        else some (setPhase s i t (.computed (s.an t.u)))
      else none
    | none => none
  | .diagSkip i =>
    match s.tasks[i]? with
    | some t => if t.phase = .woke ∧ t.tok ∈ s.cancelled then some (setPhase s i t .finishing) else none
    | none => none
  | .pub i =>
    match s.tasks[i]? with
    | some t =>
      match t.phase with
      | .computed (some txt) => some { setPhase s i t .finishing with pubs := (t.u, some txt) :: s.pubs }
      | .computed none => some (setPhase s i t .finishing)
      | _ => none
    | none => none
  | .rmTok i =>
    match s.tasks[i]? with
    | some t => if t.phase = .finishing then some { setPhase s i t .done with tokens := upd s.tokens t.u none } else none
    | none => none
  | .wsDiag u =>
    match s.an u with
    | some txt => some { s with pubs := (u, some txt) :: s.pubs }
    | none => none

def run (cfg : Cfg) (s : St) : List Label → Option St
  | [] => some s
  | lab :: rest => match exec cfg s lab with
    | some s' => run cfg s' rest
    | none => none

def init (es : List Event) : St :=
  { pending := es, cur := [], an := fun _ => none, tokens := fun _ => none, cancelled := [], nextTok := 0,
    tasks := [], pubs := [] }

def quiescent (s : St) : Prop := s.pending = [] ∧ s.cur = [] ∧ ∀ t ∈ s.tasks, t.phase = .done

def quiescentB (s : St) : Bool := s.pending.isEmpty && s.cur.isEmpty && s.tasks.all (fun t => t.phase == .done)

/-- the last publication for `u` is the diagnosis of what is analysed now; a file that is not analysed ends
with the empty set (or never had a publication) -/
def Settled (s : St) (u : Uri) : Prop :=
  match s.an u with
  | some t => lastPub s u = some (some t)
  | none => lastPub s u = some none ∨ lastPub s u = none

def settledB (s : St) (u : Uri) : Bool :=
  match s.an u with
  | some t => lastPub s u == some (some t)
  | none => lastPub s u == some none || lastPub s u == none

/-! ## Exhaustive exploration (search only) -/

def allLabels (s : St) (us : List Uri) (ws : Bool) : List Label :=
  Label.main :: ((List.range s.tasks.length).flatMap (fun i =>
    [Label.wake i, .cancelExit i, .diag i, .diagSkip i, .pub i, .rmTok i])) ++ (if ws then us.map Label.wsDiag else [])

def showLabel : Label → String
  | .main => "main" | .wake i => s!"wake{i}" | .cancelExit i => s!"cancelExit{i}" | .diag i => s!"diag{i}"
  | .diagSkip i => s!"diagSkip{i}" | .pub i => s!"pub{i}" | .rmTok i => s!"rmTok{i}" | .wsDiag u => s!"wsDiag{u}"

/-- depth-first over all schedules (without `wsDiag`, which can only repair); returns the schedule of the
first quiescent state that is not settled at some uri of `us` -/
def explore (cfg : Cfg) (us : List Uri) : Nat → List (St × List Label) → Nat → Except String (Option (List Label) × Nat)
  | 0, _, _ => .error "fuel"
  | _, [], n => .ok (none, n)
  | fuel + 1, (s, path) :: work, n =>
    if quiescentB s then
      if us.all (settledB s) then explore cfg us fuel work (n + 1) else .ok (some path.reverse, n + 1)
    else
      let succs := (allLabels s us false).filterMap (fun lab =>
        match exec cfg s lab with
        | some s' => some (s', lab :: path)
        | none => none)
      explore cfg us fuel (succs ++ work) n

end SchedDiag
