import EmmyVerif.Model.Perm
/-!
# Order — executable model of the file-order mechanisms behind C11 (and the listing/sort step of C35)

* `batchOrder`     — `EmmyLuaAnalysis::update_files_by_uri`: the updated file ids are collected in a
                     `std::collections::HashSet` and handed to `update_index` as a `Vec`. A hash set's
                     iteration order is modelled as an *arbitrary permutation* of its elements (the argument
                     `hashOrder`); after the fix the vector is sorted.
* `contexts`       — `module_analyze`: grouping per workspace in a `hashbrown::HashMap` (iteration again an
                     arbitrary permutation of the entries), STD first, library/remote sorted by id, main last.
* `bestOrder`      — `FileDependencyRelation::get_best_analysis_order`: Kahn's algorithm with the
                     meta-first / FileId tie-break and the cycle tail.
Core-only (imports the structural insertion sort of `Model/Perm.lean`; Rust's `sort`/`sort_by` are stable
sorts, and on the distinct keys that occur here every correct sort returns the same list).
-/
namespace Order
open PermModel

abbrev FileId := Nat
/-- `WorkspaceId.id`: 0 STD, 1 MAIN, 2 REMOTE, ≥ 3 library -/
abbrev Ws := Nat

def isLibrary (w : Ws) : Bool := decide (3 ≤ w)
def isRemote (w : Ws) : Bool := decide (w = 2)

/-! ## update_files_by_uri -/

/-- the pre-fix behaviour: the vector is the set's iteration order -/
def batchOrderUnsorted (hashOrder : List FileId) : List FileId := hashOrder

/-- `updated_files.sort()` on the collected vector -/
def batchOrder (hashOrder : List FileId) : List FileId := isort (fun a b => decide (a ≤ b)) hashOrder

/-! ## module_analyze -/

/-- `file_tree_map.entry(workspace_id).or_default().push(tree)` -/
def groupInsert (w : Ws) (f : FileId) : List (Ws × List FileId) → List (Ws × List FileId)
  | [] => [(w, [f])]
  | (w', fs) :: rest => if w' = w then (w', fs ++ [f]) :: rest else (w', fs) :: groupInsert w f rest

/-- the map's content after the loop over `need_analyzed_files` (entries in first-insertion order; the
real map has no order — see `contexts`) -/
def groupAll (wsOf : FileId → Ws) (files : List FileId) : List (Ws × List FileId) :=
  files.foldl (fun acc f => groupInsert (wsOf f) f acc) []

def wsLe (a b : Ws × List FileId) : Bool := decide (a.1 ≤ b.1)

/-- the context list built from the map's entries *in iteration order* `entries`:
`remove(&STD)` first; library and remote entries pushed in iteration order, then
`contexts.sort_by_key(|a| a.0)`; the remaining (main) entries appended in iteration order -/
def contexts (entries : List (Ws × List FileId)) : List (Ws × List FileId) :=
  let std := entries.filter (fun e => decide (e.1 = 0))
  let rest := entries.filter (fun e => !decide (e.1 = 0))
  let libs := rest.filter (fun e => isLibrary e.1 || isRemote e.1)
  let mains := rest.filter (fun e => !(isLibrary e.1 || isRemote e.1))
  isort wsLe (std ++ libs) ++ mains

/-! ## get_best_analysis_order -/

/-- dependency map `HashMap<FileId, HashSet<FileId>>` as an association list -/
abbrev Deps := List (FileId × List FileId)

def depsOf (deps : Deps) (v : FileId) : List FileId :=
  match deps.find? (fun p => p.1 == v) with
  | some p => p.2
  | none => []

/-- the comparator of `zero_in_degree.sort_by` / `new_zero.sort_by`: meta files first, then by FileId -/
def tieLe (metas : List FileId) (a b : FileId) : Bool :=
  let ma := metas.contains a
  let mb := metas.contains b
  if ma && !mb then true
  else if !ma && mb then false
  else decide (a ≤ b)

/-- `in_degree[idx]`: number of dependencies of `v` that are in the analysed list -/
def indeg0 (ids : List FileId) (deps : Deps) (v : FileId) : Nat :=
  ((depsOf deps v).filter (fun d => ids.contains d)).length

/-- `adjacency[dep_idx]`: the files that depend on `d`, in list order -/
def dependents (ids : List FileId) (deps : Deps) (d : FileId) : List FileId :=
  ids.filter (fun w => (depsOf deps w).contains d)

abbrev Deg := List (FileId × Nat)

def getDeg (deg : Deg) (w : FileId) : Nat :=
  match deg.find? (fun p => p.1 == w) with
  | some p => p.2
  | none => 0

/-- `in_degree[neighbor] -= 1` -/
def decr (deg : Deg) (w : FileId) : Deg :=
  deg.map (fun p => if p.1 == w then (p.1, p.2 - 1) else p)

/-- the loop over `adjacency[idx]`: decrement, collect the nodes that reach zero -/
def relax (deg : Deg) (nbrs : List FileId) : Deg × List FileId :=
  nbrs.foldl (fun st w =>
    let d' := decr st.1 w
    (d', if getDeg d' w = 0 then st.2 ++ [w] else st.2)) (deg, [])

/-- `while let Some(idx) = queue.pop_front()`; fuel = number of nodes (each is queued at most once) -/
def kahn (ids : List FileId) (metas : List FileId) (deps : Deps) :
    Nat → List FileId → Deg → List FileId → List FileId × Deg
  | 0, _, deg, res => (res, deg)
  | _ + 1, [], deg, res => (res, deg)
  | fuel + 1, v :: q, deg, res =>
    let (deg', newZero) := relax deg (dependents ids deps v)
    kahn ids metas deps fuel (q ++ isort (tieLe metas) newZero) deg' (res ++ [v])

def bestOrder (ids : List FileId) (metas : List FileId) (deps : Deps) : List FileId :=
  if ids.length < 2 then ids
  else
    let deg : Deg := ids.map (fun v => (v, indeg0 ids deps v))
    let zero := isort (tieLe metas) (ids.filter (fun v => indeg0 ids deps v == 0))
    let (res, deg') := kahn ids metas deps ids.length zero deg []
    if res.length < ids.length then res ++ ids.filter (fun v => decide (0 < getDeg deg' v)) else res

/-! ## the whole pipeline order -/

structure Env where
  wsOf : FileId → Ws
  metas : List FileId
  deps : Deps

/-- one analysed context: workspace, the order of the decl/doc/flow pipelines (`tree_list` order) and the
order of the lua pipeline (`get_best_analysis_order`) -/
structure Ctx where
  ws : Ws
  treeOrder : List FileId
  luaOrder : List FileId
deriving DecidableEq, Repr

/-- the analysis schedule from the map's entries in iteration order -/
def schedule (env : Env) (entries : List (Ws × List FileId)) : List Ctx :=
  (contexts entries).map (fun e => ⟨e.1, e.2, bestOrder e.2 env.metas env.deps⟩)

/-- the order in which `update_files_by_uri` makes the pipelines visit the files, given the iteration
order `hashOrder` of the id set; the grouping map is iterated in the order `mapPerm` gives it -/
def pipelineOrder (env : Env) (mapPerm : List (Ws × List FileId) → List (Ws × List FileId))
    (hashOrder : List FileId) : List Ctx :=
  schedule env (mapPerm (groupAll env.wsOf (batchOrder hashOrder)))

end Order
