/-!
# Model of the syntax-level counter (`LuaParser::enter_level` / `leave_level`) and of the guard shape

`enter` fails — and changes nothing — at the limit; `leave` is a saturating decrement. A guard user is
`enter_level(p)?; let result = body(p); p.leave_level(); result`: the body runs, and the level is
released, only after a successful `enter`. Import-free.
-/
namespace Level

/-- `enter_level`: (counter after, success) -/
def enter (max n : Nat) : Nat × Bool := if max ≤ n then (n, false) else (n + 1, true)

/-- `leave_level` (`saturating_sub(1)`) -/
def leave (n : Nat) : Nat := n - 1

/-- the guard shape; `body` maps the counter before it runs to the counter after it. Also returns the
highest counter value seen, given the highest value `bodyMax` seen inside the body. -/
def guarded (max : Nat) (body : Nat → Nat) (n : Nat) : Nat :=
  match enter max n with
  | (n', false) => n'
  | (n', true) => leave (body n')

/-- the seeded variant: `let r = enter_level(p).and_then(|_| body); p.leave_level(); r` -/
def guardedBad (max : Nat) (body : Nat → Nat) (n : Nat) : Nat :=
  match enter max n with
  | (n', false) => leave n'
  | (n', true) => leave (body n')

/-- `k` nested guarded calls around an innermost body -/
def nest (max : Nat) (inner : Nat → Nat) : Nat → Nat → Nat
  | 0 => inner
  | k+1 => guarded max (nest max inner k)

end Level
