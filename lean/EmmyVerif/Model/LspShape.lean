/-!
# LspShape family — shapes of LSP results (C26)

* `SemanticBuilder::build` (crates/emmylua_ls/src/handlers/semantic_token/semantic_token_builder.rs): drops
  empty entries, sorts the entries by (line, col) (stable), collapses entries with the same start, clips
  an entry where the next one on its line starts, delta-encodes. (`push_data`, which turns token ranges into
  entries, is not modelled; its output is recorded by the hook and fed to the model by the tie.)
* the decoder a client applies to `SemanticTokens.data`.
* validators for the other structures: nested selection ranges, document symbols, folding ranges,
  pairwise disjoint text edits — over plain positions `(line, character)`.

Import-free (core only) so that the driver links natively.
-/
namespace LspShape

structure Entry where
  line : Nat
  col : Nat
  len : Nat
  typ : Nat
  mods : Nat
  deriving DecidableEq, Repr

structure Tok where
  dl : Nat
  ds : Nat
  len : Nat
  typ : Nat
  mods : Nat
  deriving DecidableEq, Repr

/-- the key comparison of `sort_by_key(|t| (t.line, t.col))` in `build` -/
def keyLe (a b : Entry) : Bool := a.line < b.line || (a.line == b.line && a.col ≤ b.col)

def insertE (e : Entry) : List Entry → List Entry
  | [] => [e]
  | x :: xs => if keyLe e x then e :: x :: xs else x :: insertE e xs

/-- sort by (line, col) — a stable insertion sort, like the Rust `sort_by_key` (stable): entries with the
same start keep their push order -/
def sortE : List Entry → List Entry
  | [] => []
  | e :: es => insertE e (sortE es)

/-- the delta-encoding loop of `build` (`prev_line`, `prev_col` start at 0) -/
def encode (pl pc : Nat) : List Entry → List Tok
  | [] => []
  | e :: es =>
    let dl := e.line - pl
    let pc' := if dl ≠ 0 then 0 else pc
    ⟨dl, e.col - pc', e.len, e.typ, e.mods⟩ :: encode e.line e.col es

/-- the loop over the sorted entries in `build`: an entry with the same start as the previously kept one
is dropped (first pushed wins); the previously kept entry is clipped where the next one on its line starts -/
def clipFrom (prev : Entry) : List Entry → List Entry
  | [] => [prev]
  | b :: rest =>
    if prev.line = b.line then
      if prev.col = b.col then clipFrom prev rest
      else { prev with len := min prev.len (b.col - prev.col) } :: clipFrom b rest
    else prev :: clipFrom b rest

def clip : List Entry → List Entry
  | [] => []
  | a :: rest => clipFrom a rest

/-- what `build` encodes: empty entries dropped, stable sort by start, equal starts collapsed, overlaps clipped -/
def normalize (es : List Entry) : List Entry := clip (sortE (es.filter fun e => 0 < e.len))

/-- `SemanticBuilder::build` on the flattened entries -/
def build (es : List Entry) : List Tok := encode 0 0 (normalize es)

/-- what a client does with `data` (LSP 3.17, "semantic tokens") -/
def decode (line col : Nat) : List Tok → List Entry
  | [] => []
  | t :: ts =>
    let l := line + t.dl
    let c := if t.dl ≠ 0 then t.ds else col + t.ds
    ⟨l, c, t.len, t.typ, t.mods⟩ :: decode l c ts

/-- entries in key order starting from `(pl, pc)` -/
def SortedFrom (pl pc : Nat) : List Entry → Prop
  | [] => True
  | e :: es => (pl < e.line ∨ (pl = e.line ∧ pc ≤ e.col)) ∧ SortedFrom e.line e.col es

/-- `a` ends before `b` starts -/
def before (a b : Entry) : Prop := a.line < b.line ∨ (a.line = b.line ∧ a.col + a.len ≤ b.col)
instance (a b : Entry) : Decidable (before a b) := by unfold before; exact inferInstance

/-- the two tokens do not overlap -/
def disj (a b : Entry) : Prop := before a b ∨ before b a

/-- consecutive tokens are ordered and do not overlap -/
def Ordered : List Entry → Prop
  | [] => True
  | [_] => True
  | a :: b :: rest => before a b ∧ Ordered (b :: rest)

def decOrdered : (l : List Entry) → Decidable (Ordered l)
  | [] => isTrue trivial
  | [_] => isTrue trivial
  | a :: b :: rest =>
    match decOrdered (b :: rest) with
    | isTrue h => if hb : before a b then isTrue ⟨hb, h⟩ else isFalse fun h' => hb h'.1
    | isFalse h => isFalse fun h' => h h'.2
instance (l : List Entry) : Decidable (Ordered l) := decOrdered l

/-! ### positions and ranges -/

abbrev Position := Nat × Nat
structure Range where
  s : Position
  e : Position
  deriving DecidableEq, Repr

def posLe (a b : Position) : Bool := a.1 < b.1 || (a.1 == b.1 && a.2 ≤ b.2)
def Range.wf (r : Range) : Bool := posLe r.s r.e
def Range.contains (outer inner : Range) : Bool := posLe outer.s inner.s && posLe inner.e outer.e
def Range.overlaps (a b : Range) : Bool := !(posLe a.e b.s || posLe b.e a.s)

/-- selection-range chain, innermost first: each parent contains its child -/
def chainNested : List Range → Bool
  | [] => true
  | [_] => true
  | a :: b :: rest => b.contains a && chainNested (b :: rest)

/-- … and is strictly larger -/
def chainStrict : List Range → Bool
  | [] => true
  | [_] => true
  | a :: b :: rest => b.contains a && a != b && chainStrict (b :: rest)

/-- the loop in `on_document_selection_range_handle` (innermost first): a range is kept only if it strictly
contains the previously kept one -/
def growFrom (last : Range) : List Range → List Range
  | [] => []
  | r :: rest => if r.contains last && r != last then r :: growFrom r rest else growFrom last rest

def grow : List Range → List Range
  | [] => []
  | a :: rest => a :: growFrom a rest

/-- text edits of one document never overlap -/
def editsDisjoint : List Range → Bool
  | [] => true
  | a :: rest => rest.all (fun b => !(a.overlaps b)) && editsDisjoint rest

end LspShape
