/-!
# Fs family — file system with crash points, and the write protocols of `luafmt --write`
(crates/emmylua_formatter/src/bin/luafmt.rs, `write_file_atomically`)

A file is its byte content plus a flag "all of it is on stable storage". The state maps paths to
files (association list, first entry wins). Syscalls are the ones `strace` shows for the write
path of the formatter. `rename` is atomic (it moves the whole file object); a `write` that fails
or is interrupted leaves any prefix of its data behind; every other syscall that fails leaves the
state unchanged.

A *job* is the syscall list for one target file plus the clean-up executed when a syscall of the
list fails (the formatter then goes on with the next file). A *run* is the concatenation of one
behaviour per job; what can be observed after a kill is the state after any prefix of a run; what
can be observed after a power loss additionally degrades every unsynced file to a prefix of its data.

Import-free (core only).
-/
namespace Fs

abbrev Path := Nat
abbrev Content := List Nat

structure File where
  data : Content
  synced : Bool
  deriving DecidableEq, Repr

abbrev State := List (Path × File)

def get : State → Path → Option File
  | [], _ => none
  | (q, f) :: s, p => if q = p then some f else get s p

def erase : State → Path → State
  | [], _ => []
  | (q, f) :: s, p => if q = p then erase s p else (q, f) :: erase s p

def set (s : State) (p : Path) (f : File) : State := (p, f) :: erase s p

/-- content of a path, `none` when it does not exist -/
def content (s : State) (p : Path) : Option Content := (get s p).map (·.data)

inductive Sys where
  /-- `open(p, O_WRONLY|O_CREAT|O_TRUNC)` -/
  | creat (p : Path)
  /-- `write_all` on the file opened at `p` (one or more `write` calls appending at the offset) -/
  | write (p : Path) (d : Content)
  | fsync (p : Path)
  | close (p : Path)
  /-- `fchmod`/`chmod`: metadata only -/
  | chmod (p : Path)
  | rename (a b : Path)
  | unlink (p : Path)
  deriving DecidableEq, Repr

def step (s : State) : Sys → State
  | .creat p => set s p ⟨[], false⟩
  | .write p d =>
    match get s p with
    | some f => set s p ⟨f.data ++ d, false⟩
    | none => s
  | .fsync p =>
    match get s p with
    | some f => set s p ⟨f.data, true⟩
    | none => s
  | .close _ => s
  | .chmod _ => s
  | .rename a b =>
    match get s a with
    | some f => set (erase s a) b f
    | none => s
  | .unlink p => erase s p

def exec (s : State) (l : List Sys) : State := l.foldl step s

/-- what a syscall leaves behind when it fails (ENOSPC, EFBIG, EIO …) or the process dies inside
it: nothing, or — for a write — a write of some prefix of the data -/
inductive PartialOf : Sys → List Sys → Prop
  | nothing (c : Sys) : PartialOf c []
  | short (p : Path) (d : Content) (k : Nat) : PartialOf (.write p d) [.write p (d.take k)]

structure Job where
  steps : List Sys
  cleanup : List Sys

/-- one job run to its end: every syscall succeeds, or syscall `i` fails after its predecessors
succeeded and then the clean-up runs best-effort (each clean-up call happens or not) -/
inductive JobRun (j : Job) : List Sys → Prop
  | ok : JobRun j j.steps
  | fail (i : Nat) (c : Sys) (part cl : List Sys) : j.steps[i]? = some c → PartialOf c part →
      cl.Sublist j.cleanup → JobRun j (j.steps.take i ++ part ++ cl)

/-- a run of the formatter over a list of jobs (a failed job does not stop the following ones) -/
inductive Run : List Job → List Sys → Prop
  | nil : Run [] []
  | cons {j : Job} {js : List Job} {b bs : List Sys} : JobRun j b → Run js bs → Run (j :: js) (b ++ bs)

/-- `s` can be observed (by a reader, or after `kill -9`) at some point of a run over `js` from `s0` -/
def Observable (js : List Job) (s0 s : State) : Prop :=
  ∃ full pre, Run js full ∧ pre <+: full ∧ s = exec s0 pre

/-- a power loss: a synced file keeps its data, an unsynced one keeps some prefix of it -/
def Degrades (f f' : File) : Prop := if f.synced then f' = f else f'.data <+: f.data

def PowerLoss (s s' : State) : Prop :=
  ∀ p, match get s p with
    | none => get s' p = none
    | some f => ∃ f', get s' p = some f' ∧ Degrades f f'

/-! ## The protocols -/

structure Spec where
  tgt : Path
  tmp : Path
  new : Content
  deriving DecidableEq, Repr

/-- `write_file_atomically`: create the temporary file next to the target, copy the permissions,
write, `fsync`, close, `rename` over the target; on failure the file handle is dropped (close) and
the temporary file removed. -/
def atomicWrite (a : Spec) : Job where
  steps := [.creat a.tmp, .chmod a.tmp, .write a.tmp a.new, .fsync a.tmp, .close a.tmp, .rename a.tmp a.tgt]
  cleanup := [.close a.tmp, .unlink a.tmp]

/-- how one atomic job ended: all syscalls succeeded; syscall `i` failed without any effect; or the
`write` stopped after `k` bytes (short write followed by ENOSPC/EFBIG) -/
inductive Outcome where
  | ok
  | failAt (i : Nat)
  | shortWrite (k : Nat)
  deriving DecidableEq, Repr

def Outcome.valid : Outcome → Bool
  | .failAt i => i < 6
  | _ => true

/-- the syscalls that take effect in a job with the given outcome -/
def behaviour (a : Spec) : Outcome → List Sys
  | .ok => (atomicWrite a).steps
  | .failAt i => (atomicWrite a).steps.take i ++ (if i = 0 then [] else (atomicWrite a).cleanup)
  | .shortWrite k => (atomicWrite a).steps.take 2 ++ [.write a.tmp (a.new.take k)] ++ (atomicWrite a).cleanup

def behaviours : List Spec → List Outcome → List Sys
  | a :: as, o :: os => behaviour a o ++ behaviours as os
  | _, _ => []

/-- the protocol without the `fsync` (for the power-loss witness) -/
def renameNoSync (a : Spec) : Job where
  steps := [.creat a.tmp, .chmod a.tmp, .write a.tmp a.new, .close a.tmp, .rename a.tmp a.tgt]
  cleanup := [.unlink a.tmp]

/-- `fs::write(path, formatted)`: truncate in place, write, close (the protocol before the fix) -/
def inPlaceWrite (a : Spec) : Job where
  steps := [.creat a.tgt, .write a.tgt a.new, .close a.tgt]
  cleanup := []

end Fs
