import EmmyVerif.Model.Climb
/-!
# The operator table of the Lua reference manual (hand-written specification)

§3.4.8 of the Lua 5.4 manual (identical in 5.3 and 5.5; 5.1/5.2 lack the bitwise operators and `//`),
from lower to higher priority:

    or  <  and  <  < > <= >= ~= ==  <  |  <  ~  <  &  <  << >>  <  ..  <  + -  <  * / // %
        <  unary (not # - ~)  <  ^

"The concatenation (`..`) and exponentiation (`^`) operators are right associative. All other binary
operators are left associative."  `level`/`rightAssoc` transcribe this; `manualTable` holds the left/right
priorities with which the reference implementation (`lparser.c`, `priority[]`, `UNARY_PRIORITY`) realises
it. `C03.manual_table_realises_levels` proves the numbers mean exactly the levels.
The fork's extension operators are listed separately: `~>>` (arithmetic shift, with the shifts), `??`
(nil coalescing, with `or`), and the alternative spellings `&&`, `||`, `!`, `!=`.
-/
namespace Climb
open Gen.Climb (Tok UnOp BinOp)

/-- precedence level of the manual; 0 = not an operator; unary operators sit at level 11 -/
def level : BinOp → Nat
  | .OpOr => 1 | .OpNilCoalescing => 1
  | .OpAnd => 2
  | .OpLt | .OpGt | .OpLe | .OpGe | .OpNe | .OpEq => 3
  | .OpBOr => 4
  | .OpBXor => 5
  | .OpBAnd => 6
  | .OpShl | .OpShr | .OpShrAthrimetic => 7
  | .OpConcat => 8
  | .OpAdd | .OpSub => 9
  | .OpMul | .OpDiv | .OpIDiv | .OpMod => 10
  | .OpPow => 12
  | .OpNop => 0

def unaryLevel : Nat := 11

def rightAssoc : BinOp → Bool
  | .OpConcat | .OpPow => true
  | _ => false

def manualUnary : Tok → UnOp
  | .TkNot => .OpNot | .TkLen => .OpLen | .TkMinus => .OpUnm | .TkBitXor => .OpBNot
  | .TkToggle => .OpNot            -- extension: `!`
  | _ => .OpNop

def manualBinary : Tok → BinOp
  | .TkPlus => .OpAdd | .TkMinus => .OpSub | .TkMul => .OpMul | .TkDiv => .OpDiv | .TkIDiv => .OpIDiv
  | .TkMod => .OpMod | .TkPow => .OpPow | .TkConcat => .OpConcat
  | .TkBitAnd => .OpBAnd | .TkBitOr => .OpBOr | .TkBitXor => .OpBXor | .TkShl => .OpShl | .TkShr => .OpShr
  | .TkLt => .OpLt | .TkLe => .OpLe | .TkGt => .OpGt | .TkGe => .OpGe | .TkEq => .OpEq | .TkNe => .OpNe
  | .TkAnd => .OpAnd | .TkOr => .OpOr
  | .TkLogicalAnd => .OpAnd | .TkLogicalOr => .OpOr                 -- extensions: `&&`, `||`
  | .TkShrArithmetic => .OpShrAthrimetic | .TkNilCoalescing => .OpNilCoalescing   -- extensions: `~>>`, `??`
  | _ => .OpNop

/-- `priority[].left` of lparser.c -/
def manualLeft : BinOp → Int
  | .OpAdd | .OpSub => 10
  | .OpMul | .OpDiv | .OpIDiv | .OpMod => 11
  | .OpPow => 14
  | .OpBAnd => 6 | .OpBOr => 4 | .OpBXor => 5
  | .OpShl | .OpShr | .OpShrAthrimetic => 7
  | .OpConcat => 9
  | .OpLt | .OpLe | .OpGt | .OpGe | .OpEq | .OpNe => 3
  | .OpAnd => 2
  | .OpOr | .OpNilCoalescing => 1
  | .OpNop => 0

/-- `priority[].right` of lparser.c -/
def manualRight : BinOp → Int
  | .OpPow => 13
  | .OpConcat => 8
  | op => manualLeft op

def manualTable : Table :=
  { unaryOf := manualUnary, binaryOf := manualBinary, left := manualLeft, right := manualRight,
    unaryPrio := 12 }

end Climb
