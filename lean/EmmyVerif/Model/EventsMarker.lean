/-!
# Model of the marker discipline (crates/emmylua_parser/src/parser/marker.rs)

`mark`, `Marker::complete`, `Marker::undo`, `CompleteMarker::precede`, `push_node_end`, and `bump`
as far as the event list and `mark_level` are concerned. A `Marker` is consumed by value in Rust, so
each marked position is completed or undone at most once: the model tracks the positions of live
markers and an op on a position that is not live is rejected (`none`) — it cannot be written in
safe Rust. A marker that is simply dropped (an `Err` propagated by `?`) stays live for ever: that is
the situation `parse_stats`' recovery repairs by pushing `mark_level - level` `NodeEnd`s.
Import-free.
-/
namespace Marker

inductive Ev
  | start (isNone : Bool) (parent : Nat)
  | fin
  | tok
  | trivia
  deriving DecidableEq, Repr

structure S where
  events : List Ev
  markLevel : Nat
  live : List Nat        -- positions of markers that were neither completed nor undone
  deriving Repr

def S.init : S := ⟨[], 0, []⟩

inductive Op
  | mark                 -- `p.mark(kind)`, kind ≠ None
  | complete (pos : Nat)
  | undo (pos : Nat)
  | precede (child : Nat) -- `cm.precede(p, kind)`: a new mark that becomes the parent of `child`
  | nodeEnd              -- `push_node_end`
  | bump                 -- an `EatToken`
  deriving DecidableEq, Repr

def setNone (evs : List Ev) (pos : Nat) : List Ev :=
  match evs[pos]? with
  | some (.start _ p) => evs.set pos (.start true p)
  | _ => evs

def setParent (evs : List Ev) (pos parent : Nat) : List Ev :=
  match evs[pos]? with
  | some (.start n _) => evs.set pos (.start n parent)
  | _ => evs

/-- one operation of the *fixed* code (`undo` and the empty `complete` decrement `mark_level`) -/
def step (s : S) : Op → Option S
  | .mark => some { events := s.events ++ [.start false 0], markLevel := s.markLevel + 1,
                    live := s.events.length :: s.live }
  | .complete pos =>
    if s.live.contains pos then
      if s.events.length = pos + 1 then
        some { events := setNone s.events pos, markLevel := s.markLevel - 1, live := s.live.erase pos }
      else
        some { events := s.events ++ [.fin], markLevel := s.markLevel - 1, live := s.live.erase pos }
    else none
  | .undo pos =>
    if s.live.contains pos then
      some { events := setNone s.events pos, markLevel := s.markLevel - 1, live := s.live.erase pos }
    else none
  | .precede child =>
    some { events := setParent (s.events ++ [.start false 0]) child s.events.length ++ [.trivia],
           markLevel := s.markLevel + 1, live := s.events.length :: s.live }
  | .nodeEnd => some { s with events := s.events ++ [.fin], markLevel := s.markLevel - 1 }
  | .bump => some { s with events := s.events ++ [.tok] }

/-- the code before the `fix:` commit: no decrement in `undo` / empty `complete` -/
def stepOld (s : S) : Op → Option S
  | .complete pos =>
    if s.live.contains pos then
      if s.events.length = pos + 1 then
        some { events := setNone s.events pos, markLevel := s.markLevel, live := s.live.erase pos }
      else
        some { events := s.events ++ [.fin], markLevel := s.markLevel - 1, live := s.live.erase pos }
    else none
  | .undo pos =>
    if s.live.contains pos then
      some { events := setNone s.events pos, markLevel := s.markLevel, live := s.live.erase pos }
    else none
  | op => step s op

def run (f : S → Op → Option S) (s : S) : List Op → Option S
  | [] => some s
  | op :: ops => match f s op with
    | none => none
    | some s' => run f s' ops

/-- `NodeStart`s that the tree builder will open -/
def starts : List Ev → Nat
  | [] => 0
  | .start false _ :: es => starts es + 1
  | _ :: es => starts es

def ends : List Ev → Nat
  | [] => 0
  | .fin :: es => ends es + 1
  | _ :: es => ends es

/-- `n` × `push_node_end` (the recovery loop of `parse_stats` / `parse_tag`) -/
def closeN : Nat → S → S
  | 0, s => s
  | n+1, s => closeN n { s with events := s.events ++ [.fin], markLevel := s.markLevel - 1 }

/-- the error recovery of `parse_stats`: `level` was read before the failed statement -/
def recover (level : Nat) (s : S) : S := closeN (s.markLevel - level) s

end Marker
