/-!
# RangeText family — text helpers of range formatting
(crates/emmylua_formatter/src/formatter/range_format/mod.rs)

Texts are byte lists (`List Nat`, the Rust code indexes `str` by byte and only ever looks for the
ASCII bytes `\n`, `\r`, space and tab, so a byte model is exact). Offsets are byte offsets.

* `clampRange`      — `clamp_range`
* `lineStartOffset`, `lineEndOffset`, `expandToFullLines` — same names in Rust
* `lineIndentPrefix` — `line_indent_prefix`
* `splitInclusive`  — `str::split_inclusive('\n')`; `splitLineEnding` — `split_line_ending`
* `mapLines`, `stripBaseIndent`, `applyBaseIndent` — same names in Rust; the `keep` argument is the list of
  line-start offsets inside multi-line tokens (`multiline_token_line_starts`), whose lines are copied verbatim
* `splice`          — applying a `RangeFormatOutput { replace_range, text }` to the document

Import-free (core only).
-/
namespace RangeText

abbrev Txt := List Nat

def NL : Nat := 10
def CR : Nat := 13
def SP : Nat := 32
def TAB : Nat := 9

def isBlank (b : Nat) : Bool := b == SP || b == TAB

/-- `clamp_range(range, upper_bound)` -/
def clampRange (s e ub : Nat) : Nat × Nat :=
  let s' := min s ub
  (s', max (min e ub) s')

/-- length of the longest suffix of the reversed prefix that contains no `\n`:
`backToNl r` = number of bytes one walks back from the end of `r.reverse` until a `\n` -/
def backToNl : Txt → Nat
  | [] => 0
  | b :: r => if b = NL then 0 else backToNl r + 1

/-- `line_start_offset(text, offset)` -/
def lineStartOffset (t : Txt) (off : Nat) : Nat :=
  let i := min off t.length
  i - backToNl (t.take i).reverse

/-- number of bytes up to and including the first `\n` of `t`, or `|t|` if there is none -/
def fwdToNl : Txt → Nat
  | [] => 0
  | b :: r => if b = NL then 1 else fwdToNl r + 1

/-- `line_end_offset(text, offset)` -/
def lineEndOffset (t : Txt) (off : Nat) : Nat :=
  let i := min off t.length
  i + fwdToNl (t.drop i)

/-- `expand_to_full_lines(text, range)` -/
def expandToFullLines (t : Txt) (s e : Nat) : Nat × Nat :=
  (lineStartOffset t s, lineEndOffset t e)

/-- `line_indent_prefix(text, line_start)` (defined for `line_start ≤ |text|`; Rust panics beyond) -/
def lineIndentPrefix (t : Txt) (start : Nat) : Txt :=
  let e := lineEndOffset t start
  (((t.drop start).take (e - start)).takeWhile isBlank)

/-- `str::split_inclusive('\n')`: lines with their terminator, no empty trailing piece -/
def splitInclusive : Txt → List Txt
  | [] => []
  | b :: r =>
    if b = NL then [b] :: splitInclusive r
    else match splitInclusive r with
      | [] => [[b]]
      | l :: ls => (b :: l) :: ls

/-- `split_line_ending(line)` on the reversed line: (content, newline) -/
def splitEndingRev : Txt → Txt × Txt
  | [] => ([], [])
  | a :: r =>
    if a = NL then
      match r with
      | [] => ([], [NL])
      | b :: r' => if b = CR then (r'.reverse, [CR, NL]) else ((b :: r').reverse, [NL])
    else ((a :: r).reverse, [])

def splitLineEnding (l : Txt) : Txt × Txt := splitEndingRev l.reverse

/-- the loop of `map_lines`: `off` is the byte offset of the current line; a line whose start offset
is listed in `keep` (a line that begins inside a multi-line token) is copied unchanged -/
def mapLinesFrom (keep : List Nat) (f : Txt → Txt → Txt) : Nat → List Txt → Txt
  | _, [] => []
  | off, l :: ls =>
    (if keep.contains off then l else f (splitLineEnding l).1 (splitLineEnding l).2)
      ++ mapLinesFrom keep f (off + l.length) ls

/-- `map_lines(text, keep_line_starts, f)` -/
def mapLines (t : Txt) (keep : List Nat) (f : Txt → Txt → Txt) : Txt :=
  mapLinesFrom keep f 0 (splitInclusive t)

/-- `str::strip_prefix` -/
def stripPrefix : Txt → Txt → Option Txt
  | [], c => some c
  | _ :: _, [] => none
  | p :: ps, c :: cs => if p = c then stripPrefix ps cs else none

/-- `strip_base_indent(text, indent_prefix, token_line_starts)` -/
def stripBaseIndent (t p : Txt) (keep : List Nat) : Txt :=
  mapLines t keep fun c n => (stripPrefix p c).getD c ++ n

/-- `apply_base_indent(text, indent_prefix, token_line_starts)` -/
def applyBaseIndent (t p : Txt) (keep : List Nat) : Txt :=
  if p.isEmpty then t else
  mapLines t keep fun c n => if c.isEmpty then n else p ++ c ++ n

/-- the document after applying the edit `{replace_range = [s, e), text = r}` -/
def splice (t : Txt) (s e : Nat) (r : Txt) : Txt := t.take s ++ r ++ t.drop e

/-- bytes that are not space or tab (what "same tokens modulo whitespace" is measured on) -/
def nonBlank (t : Txt) : Txt := t.filter fun b => !isBlank b

end RangeText
