/-!
# Scope family — Lua name resolution: reference semantics and the decl analyzer's scope tree

Import-free executable model.

* `Expr` / `Stat`: a Lua fragment over natural-number names (locals, multi-assignment, local
  function, function statement, closures with parameters, numeric / generic `for`, `while`,
  `repeat … until`, `do`, `if`, call statements).
* Positions. Token number `i` of the rendered program (commas are not counted) has position
  `2 * i + 2`; a non-empty block starts at the odd position just before its first token (the
  parser's `Block` node includes its leading trivia, the chunk starts at 0). Only the order of
  positions is ever used, so any rendering with at least one blank between tokens and in front of
  the first token realises them.
* `refBlock` … : **reference semantics** `LuaScope`, an environment-passing resolver (Lua manual §3.5).
* `implBlock` … : model of `DeclAnalyzer` (`compilation/analyzer/decl/{mod,stats,exprs}.rs`) building the
  scope tree of `db_index/declaration/{scope,decl_tree}.rs` and resolving every name *during* the
  walk with `find_local_decl` = `visit_visible_decls` / `search_scope_children` / `visit_child_scope`.
  That during-walk result is what the reference index stores and what `SemanticModel` reads back.

Representation. The Rust keeps `Vec<LuaScope>` with parent ids; the model keeps the same tree as a
zipper: the stack of open scopes (`Frame`, innermost first) whose `children` hold declarations and
*closed* child scopes, most recent first. A scope is attached to its parent when it is closed; while
it is open the parent sees it as the extra most-recent child `open_` (the Rust attaches it on creation,
and nothing is added to a parent while a child is open, so the child lists are the same lists).
`find_scope(position)` is the innermost open scope for every position queried during the walk (scope
ranges are syntax-node ranges, queried positions lie in the node being entered); the model takes that
as given, the correspondence run checks it.
-/
namespace Scope

abbrev Name := Nat

mutual
inductive Expr where
  | name (n : Name)
  | lit
  | call (f : Name) (args : List Expr)
  | func (params : List Name) (body : List Stat)
inductive Stat where
  | locl (names : List Name) (vals : List Expr)
  | assign (vars : List Name) (vals : List Expr)
  | localFunc (n : Name) (params : List Name) (body : List Stat)
  | funcStat (n : Name) (params : List Name) (body : List Stat)
  | forNum (v : Name) (e1 e2 : Expr) (body : List Stat)
  | forIn (vs : List Name) (e : Expr) (body : List Stat)
  | while_ (c : Expr) (body : List Stat)
  | repeat_ (body : List Stat) (c : Expr)
  | do_ (body : List Stat)
  | if_ (c : Expr) (t : List Stat) (e : List Stat)
  | callS (f : Name) (args : List Expr)
  /-- `local n <const> = val` (a local with an attribute: three more tokens after the name) -/
  | loclAttr (n : Name) (val : Expr)
  /-- `function obj.f1…fk(ps) body end`, or with `colon` the last separator is `:` (a method with
  the implicit parameter `self`); the field names are not variables -/
  | method (obj : Name) (fields : Nat) (colon : Bool) (ps : List Name) (body : List Stat)
end

/-- the name `self` -/
def selfName : Name := 3

/-- one resolution record: position of a name use, position of the local declaration it denotes
(`none` = global) -/
abbrev Res := Nat × Option Nat

/-! ## Reference semantics: environment passing -/

/-- visible local declarations, innermost first -/
abbrev Env := List (Name × Nat)

def lookupEnv : Env → Name → Option Nat
  | [], _ => none
  | (m, p) :: rest, n => if m = n then some p else lookupEnv rest n

/-- declare names at consecutive token positions from `p`; a later name shadows an earlier one -/
def bindNames (env : Env) (p : Nat) : List Name → Env
  | [] => env
  | n :: ns => bindNames ((n, p) :: env) (p + 2) ns

/-- the implicit parameter `self` of a method, declared at the `:` -/
def selfEnv (colon : Bool) (p : Nat) (env : Env) : Env := if colon then (selfName, p) :: env else env

structure RefSt where
  pos : Nat
  out : List Res          -- most recent first
  deriving Repr, DecidableEq

def RefSt.skip (s : RefSt) (tokens : Nat) : RefSt := { s with pos := s.pos + 2 * tokens }
def RefSt.use (s : RefSt) (env : Env) (n : Name) : RefSt :=
  { pos := s.pos + 2, out := (s.pos, lookupEnv env n) :: s.out }

def RefSt.uses (s : RefSt) (env : Env) : List Name → RefSt
  | [] => s
  | n :: ns => RefSt.uses (s.use env n) env ns

/-- tokens of `= e1, …` after a `local` name list: nothing when there are no values -/
def eqTokens (vals : List Expr) : Nat := if vals.isEmpty then 0 else 1

mutual
def refExpr (env : Env) (s : RefSt) : Expr → RefSt
  | .name n => s.use env n
  | .lit => s.skip 1
  | .call f args => (refExprs env ((s.use env f).skip 1) args).skip 1        -- f ( args )
  | .func ps body =>                                                          -- function ( ps ) body end
    ((refBlock (bindNames env (s.pos + 4) ps) (s.skip (3 + ps.length)) body).1).skip 1
def refExprs (env : Env) (s : RefSt) : List Expr → RefSt
  | [] => s
  | e :: es => refExprs env (refExpr env s e) es
def refStat (env : Env) (s : RefSt) : Stat → RefSt × Env
  | .locl names vals =>                                                       -- local names [= vals]
    -- the values are evaluated before the names come into scope
    (refExprs env (s.skip (1 + names.length + eqTokens vals)) vals, bindNames env (s.pos + 2) names)
  | .assign vars vals =>                                                      -- vars = vals
    (refExprs env ((s.uses env vars).skip 1) vals, env)
  | .localFunc n ps body =>                                                   -- local function n ( ps ) body end
    -- the function's own name is in scope in its body
    let env1 := (n, s.pos + 4) :: env
    (((refBlock (bindNames env1 (s.pos + 8) ps) (s.skip (5 + ps.length)) body).1).skip 1, env1)
  | .funcStat n ps body =>                                                    -- function n ( ps ) body end
    let s1 := (s.skip 1).use env n
    (((refBlock (bindNames env (s.pos + 6) ps) (s1.skip (2 + ps.length)) body).1).skip 1, env)
  | .forNum v e1 e2 body =>                                                   -- for v = e1 , e2 do body end
    -- the loop variable is visible in the body only
    let s1 := refExpr env (refExpr env (s.skip 3) e1) e2
    (((refBlock ((v, s.pos + 2) :: env) (s1.skip 1) body).1).skip 1, env)
  | .forIn vs e body =>                                                       -- for vs in e do body end
    let s1 := refExpr env (s.skip (2 + vs.length)) e
    (((refBlock (bindNames env (s.pos + 2) vs) (s1.skip 1) body).1).skip 1, env)
  | .while_ c body =>                                                         -- while c do body end
    (((refBlock env ((refExpr env (s.skip 1) c).skip 1) body).1).skip 1, env)
  | .repeat_ body c =>                                                        -- repeat body until c
    -- the condition sees the locals of the body
    let r := refBlock env (s.skip 1) body
    (refExpr r.2 (r.1.skip 1) c, env)
  | .do_ body =>                                                              -- do body end
    (((refBlock env (s.skip 1) body).1).skip 1, env)
  | .if_ c t e =>                                                             -- if c then t else e end
    let s1 := (refBlock env ((refExpr env (s.skip 1) c).skip 1) t).1
    (((refBlock env (s1.skip 1) e).1).skip 1, env)
  | .callS f args => ((refExprs env ((s.use env f).skip 1) args).skip 1, env)
  | .loclAttr n val =>                                                        -- local n < const > = val
    (refExpr env (s.skip 6) val, (n, s.pos + 2) :: env)
  | .method obj k colon ps body =>                                            -- function obj [. f]* [: m] ( ps ) body end
    -- `self` is an implicit first parameter, declared at the `:`
    let s1 := (s.skip 1).use env obj
    (((refBlock (bindNames (selfEnv colon (s.pos + 4 * k) env) (s.pos + 6 + 4 * k) ps)
      (s1.skip (2 * k + 2 + ps.length)) body).1).skip 1, env)
def refBlock (env : Env) (s : RefSt) : List Stat → RefSt × Env
  | [] => (s, env)
  | st :: rest => refBlock (refStat env s st).2 (refStat env s st).1 rest
end

/-- first token position of a chunk -/
def startPos : Nat := 2

/-- **`LuaScope`**: the resolution of every name use of a chunk, in source order -/
def reference (p : List Stat) : List Res :=
  ((refBlock [] { pos := startPos, out := [] } p).1.out).reverse

/-! ## The decl analyzer's scope tree -/

/-- `LuaScopeKind` (`MethodStat` does not occur: no method definitions in the fragment) -/
inductive Kind | normal | closure | repeat_ | localOrAssign | forRange | funcStat
  deriving DecidableEq, Repr

structure Decl where
  name : Name
  pos : Nat
  isLocal : Bool
  deriving DecidableEq, Repr

/-- `ScopeOrDeclId` resolved: a declaration, or a closed child scope with its children (most recent first) -/
inductive Node where
  | decl (d : Decl)
  | scope (kind : Kind) (start : Nat) (children : List Node)

def Node.pos : Node → Nat
  | .decl d => d.pos
  | .scope _ st _ => st

/-- an open scope; `children` most recent first -/
structure Frame where
  kind : Kind
  start : Nat
  children : List Node

def declOf : Node → Option Decl
  | .decl d => some d
  | .scope _ _ _ => none

/-- `visit_child_scope`: the declarations a closed child scope shows to its parent's later
children, in visiting order. `FuncStat` walks its children forwards, `LocalOrAssignStat` backwards
(closest first); every other kind shows nothing. -/
def childScopeDecls (k : Kind) (children : List Node) : List Decl :=
  match k with
  | .funcStat => children.reverse.filterMap declOf
  | .localOrAssign => children.filterMap declOf
  | _ => []

/-- what one child contributes to a search -/
def contrib : Node → List Decl
  | .decl d => [d]
  | .scope k _ ch => childScopeDecls k ch

/-- `search_scope_children`: cut at the rightmost child whose position is before `pos`, then walk
from there to the first child (closest first) -/
def searchChildren (children : List Node) (pos : Nat) : List Decl :=
  (children.dropWhile fun c => !decide (c.pos < pos)).flatMap contrib

/-- the children a scope has while `open_` is its still open, most recent child scope -/
def kidsOf (f : Frame) (open_ : Option Node) : List Node :=
  match open_ with
  | some c => c :: f.children
  | none => f.children

/-- `get_repeat_body`: the first child of a `repeat` scope if it is a block -/
def repeatBody (kids : List Node) : Option (List Node) :=
  match kids.getLast? with
  | some (.scope .normal _ ch) => some ch
  | _ => none

/-- `is_in_body_block` for the positions queried during the walk: they lie in the open child -/
def inBodyBlock : Option Node → Bool
  | some (.scope .normal _ _) => true
  | _ => false

/-- the declarations one scope on the way up offers, in visiting order (`visit_visible_decls`
without the step to the parent) -/
def ownDecls (f : Frame) (open_ : Option Node) (pos : Nat) (isEntry : Bool) : List Decl :=
  let kids := kidsOf f open_
  match f.kind with
  | .localOrAssign => []
  | .repeat_ =>
    match repeatBody kids with
    | some body =>
      (if isEntry then searchChildren body pos else []) ++ searchChildren body pos ++ searchChildren kids pos
    | none => if isEntry then [] else searchChildren kids pos
  | .forRange => if !isEntry && inBodyBlock open_ then searchChildren kids pos else []
  | _ => searchChildren kids pos

/-- `visit_visible_decls`: all declarations offered to a lookup at `pos`, closest first. A
`LocalOrAssignStat` scope continues in its parent with its own start as the cut-off. -/
def visit : List Frame → Option Node → Nat → Bool → List Decl
  | [], _, _, _ => []
  | f :: rest, open_, pos, isEntry =>
    ownDecls f open_ pos isEntry ++
      visit rest (some (.scope f.kind f.start (kidsOf f open_)))
        (if f.kind = .localOrAssign then f.start else pos) false

/-- `find_local_decl` -/
def findDecl (frames : List Frame) (name : Name) (pos : Nat) : Option Decl :=
  (visit frames none pos true).find? fun d => d.name = name

/-- what the reference index records for a name use: the local declaration, else "global" -/
def localOf : Option Decl → Option Nat
  | some d => if d.isLocal then some d.pos else none
  | none => none

structure ISt where
  pos : Nat
  frames : List Frame
  out : List Res
  /-- instrumentation only: for every `find_local_decl` call its position and the open scopes
  (kind, start; innermost first) — compared with `find_scope` on the ranged scope tree, `Model/ScopeRange` -/
  trace : List (Nat × List (Kind × Nat)) := []
  deriving Inhabited

/-- record a `find_local_decl` call at position `p` -/
def ISt.logLookup (s : ISt) (p : Nat) : ISt :=
  { s with trace := (p, s.frames.map fun f => (f.kind, f.start)) :: s.trace }

def ISt.skip (s : ISt) (tokens : Nat) : ISt := { s with pos := s.pos + 2 * tokens }

/-- `DeclAnalyzer::create_scope` -/
def ISt.push (s : ISt) (k : Kind) (start : Nat) : ISt :=
  { s with frames := { kind := k, start := start, children := [] } :: s.frames }

/-- add a child to the innermost open scope -/
def addChild (frames : List Frame) (c : Node) : List Frame :=
  match frames with
  | [] => []
  | f :: rest => { f with children := c :: f.children } :: rest

/-- `pop_scope` -/
def ISt.pop (s : ISt) : ISt :=
  match s.frames with
  | [] => s
  | f :: rest => { s with frames := addChild rest (.scope f.kind f.start f.children) }

/-- `DeclAnalyzer::add_decl` -/
def ISt.addDecl (s : ISt) (d : Decl) : ISt := { s with frames := addChild s.frames (.decl d) }

/-- the implicit `self` declarations of a closure: one for a method, declared at the `:` -/
def selfDecls (colon : Bool) (p : Nat) : List Decl :=
  if colon then [{ name := selfName, pos := p, isLocal := true }] else []

/-- `try_add_self_param` -/
def ISt.addImplicitSelf (s : ISt) (colon : Bool) (p : Nat) : ISt :=
  if colon then s.addDecl { name := selfName, pos := p, isLocal := true } else s

/-- `analyze_name_expr` on a name that is not itself a fresh global declaration -/
def ISt.use (s : ISt) (n : Name) : ISt :=
  { s.logLookup s.pos with pos := s.pos + 2, out := (s.pos, localOf (findDecl s.frames n s.pos)) :: s.out }

/-- a name token whose global declaration was created by its own statement (`get_decl(position)` hits) -/
def ISt.useSelf (s : ISt) : ISt := { s with pos := s.pos + 2, out := (s.pos, none) :: s.out }

/-- declare local names at consecutive token positions (the name tokens are not consumed) -/
def ISt.addLocals (s : ISt) (p : Nat) : List Name → ISt
  | [] => s
  | n :: ns => ISt.addLocals (s.addDecl { name := n, pos := p, isLocal := true }) (p + 2) ns

/-- `analyze_assign_stat` / `analyze_func_stat` on entering the statement: every variable name that
resolves to no declaration becomes a global declaration in the statement's scope. Returns which
ones were created. -/
def ISt.declareGlobals (s : ISt) (p : Nat) : List Name → ISt × List Bool
  | [] => (s, [])
  | v :: vs =>
    match findDecl s.frames v p with
    | some _ => let r := ISt.declareGlobals (s.logLookup p) (p + 2) vs; (r.1, false :: r.2)
    | none =>
      let r := ISt.declareGlobals ((s.logLookup p).addDecl { name := v, pos := p, isLocal := false }) (p + 2) vs
      (r.1, true :: r.2)

/-- the `NameExpr` children of an assignment's left-hand side -/
def ISt.useVars (s : ISt) : List Name → List Bool → ISt
  | v :: vs, b :: bs => ISt.useVars (if b then s.useSelf else s.use v) vs bs
  | _, _ => s

mutual
def implExpr (s : ISt) : Expr → ISt
  | .name n => s.use n
  | .lit => s.skip 1
  | .call f args => (implExprs ((s.use f).skip 1) args).skip 1
  | .func ps body =>
    -- ClosureExpr from `function`; parameters are declared on entering it
    let s1 := (s.push .closure s.pos).addLocals (s.pos + 4) ps
    ((implBlock (s1.skip (3 + ps.length)) body).skip 1).pop
def implExprs (s : ISt) : List Expr → ISt
  | [] => s
  | e :: es => implExprs (implExpr s e) es
def implStat (s : ISt) : Stat → ISt
  | .locl names vals =>
    let s1 := (s.push .localOrAssign s.pos).addLocals (s.pos + 2) names
    (implExprs (s1.skip (1 + names.length + eqTokens vals)) vals).pop
  | .assign vars vals =>
    let r := (s.push .localOrAssign s.pos).declareGlobals s.pos vars
    (implExprs ((r.1.useVars vars r.2).skip 1) vals).pop
  | .localFunc n ps body =>
    let s1 := (s.push .funcStat s.pos).addDecl { name := n, pos := s.pos + 4, isLocal := true }
    -- in a function statement the ClosureExpr starts at the parameter list
    let s2 := ((s1.skip 3).push .closure (s.pos + 6)).addLocals (s.pos + 8) ps
    (((implBlock (s2.skip (2 + ps.length)) body).skip 1).pop).pop
  | .funcStat n ps body =>
    let r := (s.push .funcStat s.pos).declareGlobals (s.pos + 2) [n]
    let s1 := (r.1.skip 1).useVars [n] r.2
    let s2 := (s1.push .closure (s.pos + 4)).addLocals (s.pos + 6) ps
    (((implBlock (s2.skip (2 + ps.length)) body).skip 1).pop).pop
  | .forNum v e1 e2 body =>
    let s1 := (s.push .forRange s.pos).addDecl { name := v, pos := s.pos + 2, isLocal := true }
    let s2 := implExpr (implExpr (s1.skip 3) e1) e2
    ((implBlock (s2.skip 1) body).skip 1).pop
  | .forIn vs e body =>
    let s1 := (s.push .forRange s.pos).addLocals (s.pos + 2) vs
    let s2 := implExpr (s1.skip (2 + vs.length)) e
    ((implBlock (s2.skip 1) body).skip 1).pop
  | .while_ c body => (implBlock ((implExpr (s.skip 1) c).skip 1) body).skip 1
  | .repeat_ body c =>
    let s1 := implBlock ((s.push .repeat_ s.pos).skip 1) body
    (implExpr (s1.skip 1) c).pop
  | .do_ body => (implBlock (s.skip 1) body).skip 1
  | .if_ c t e =>
    let s1 := implBlock ((implExpr (s.skip 1) c).skip 1) t
    (implBlock (s1.skip 1) e).skip 1
  | .callS f args => (implExprs ((s.use f).skip 1) args).skip 1
  | .loclAttr n val =>
    let s1 := (s.push .localOrAssign s.pos).addDecl { name := n, pos := s.pos + 2, isLocal := true }
    (implExpr (s1.skip 6) val).pop
  | .method obj k colon ps body =>
    -- FuncStat / MethodStat scope (treated alike by the lookup); the prefix name is an ordinary use;
    -- `try_add_self_param` declares `self` at the `:` before the parameters (not a global: `isLocal`)
    let s1 := ((s.push .funcStat s.pos).skip 1).use obj
    let s2 := (s1.skip (2 * k)).push .closure (s.pos + 4 + 4 * k)
    let s4 := (s2.addImplicitSelf colon (s.pos + 4 * k)).addLocals (s.pos + 6 + 4 * k) ps
    (((implBlock (s4.skip (2 + ps.length)) body).skip 1).pop).pop
def implStats (s : ISt) : List Stat → ISt
  | [] => s
  | st :: rest => implStats (implStat s st) rest
/-- a `Block` node exists only for a non-empty statement list -/
def implBlock (s : ISt) : List Stat → ISt
  | [] => s
  | st :: rest => (implStats (implStat (s.push .normal (s.pos - 1)) st) rest).pop
end

/-- the resolution the analyzer records for every name use of a chunk, in source order -/
def implementation (p : List Stat) : List Res :=
  ((implBlock { pos := startPos, frames := [{ kind := .normal, start := 0, children := [] }], out := [] } p).out).reverse

end Scope
