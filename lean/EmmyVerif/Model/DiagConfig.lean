import EmmyVerif.Model.Diag
import EmmyVerif.Gen.DiagTable
/-!
# Diag family — readable decision functions for the configuration switches (C20)

* `defaultOn` — `is_code_default_enable` (lua_diagnostic_code.rs)
* `defaultSeverity` — `get_default_severity`
* `severity` — `DiagnosticContext::get_severity` (an entry of `diagnostics.severity` wins)
* `Diag.enabledByCode` (Model/Diag.lean) — `is_checker_enable_by_code`
* `fileReports` — the gates of `LuaDiagnostic::diagnose_file` (`diagnostics.enable`, workspace kind)
* `globalReported` — the name filter of the `undefined-global` checker (`globals`, `globalsRegex`)

Codes are the indices generated into `Gen.Diag` (`c_<name>`), so the hand-written lists below break
the build when a code they mention disappears; their agreement with the real functions over the
whole domain is the kernel-checked bridge in `Props/C20.lean`.
-/
namespace Diag
open Gen.Diag

/-- codes that are off unless enabled -/
def defaultOffCodes : List Code :=
  [c_code_style_check, c_incomplete_signature_doc, c_missing_global_doc, c_unknown_doc_tag,
   c_non_literal_expressions_in_assert]

/-- `is_code_default_enable` -/
def defaultOn (level : Nat) (c : Code) : Bool :=
  if c = c_iter_variable_reassign then decide (lv_Lua55 ≤ level)
  else !defaultOffCodes.contains c

def errorCodes : List Code :=
  [c_syntax_error, c_doc_syntax_error, c_undefined_global, c_local_const_reassign,
   c_annotation_usage_error, c_iter_variable_reassign]

def hintCodes : List Code :=
  [c_unreachable_code, c_unused, c_deprecated, c_redefined_local, c_duplicate_require,
   c_preferred_local_alias]

/-- `get_default_severity`: 1 error, 2 warning, 3 information, 4 hint -/
def defaultSeverity (c : Code) : Nat :=
  if errorCodes.contains c then 1 else if hintCodes.contains c then 4 else 2

/-- `get_severity`: an entry of `diagnostics.severity` overrides the default -/
def severity (overrides : List (Code × Nat)) (c : Code) : Nat :=
  match overrides.lookup c with
  | some s => s
  | none => defaultSeverity c

inductive WorkspaceKind where
  | main | library | std | outside
  deriving Repr, DecidableEq

/-- `LuaDiagnostic::diagnose_file`: nothing at all when diagnostics are switched off or the file
belongs to a non-main workspace; otherwise the diagnostics that pass `add_diagnostic`. -/
def fileReports (enable : Bool) (kind : WorkspaceKind) (diags : List α) : Option (List α) :=
  if !enable then none
  else match kind with
    | .library | .std => none
    | .main | .outside => some diags

/-- `LuaModuleIndex::is_meta_file`: the `---@meta` flag lives on the file's module info, which exists
only for files under some workspace root — a `---@meta` file outside every workspace is not meta
(known finding `meta-outside-workspace`). -/
def effectiveMeta (hasMetaTag : Bool) (kind : WorkspaceKind) : Bool :=
  hasMetaTag && kind != .outside

/-- the name filter of `UndefinedGlobalChecker::check_name_expr` as far as configuration goes:
`declared` = resolves to a local/global declaration, `inGlobals` = listed in `diagnostics.globals`,
`matchesRegex` = matched by one of `diagnostics.globalsRegex` -/
def globalReported (declared inGlobals matchesRegex : Bool) : Bool :=
  !declared && !inGlobals && !matchesRegex

end Diag
