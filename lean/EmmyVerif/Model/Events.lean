import EmmyVerif.Model.Green
/-!
# Model of `LuaTreeBuilder::build` / `finish` (crates/emmylua_parser/src/syntax/tree/lua_tree_builder.rs)

`MarkEvent` lists are consumed left to right; every visited event is replaced by
`MarkEvent::none()` (`NodeStart { kind: None, parent: 0 }`); a `NodeStart` with a forward `parent`
link first opens the whole chain of parents (outermost first), each link being replaced by
`none()` when taken. Indexing a position outside the list or a link to something that is not a
`NodeStart` panics in the Rust (`unreachable!()` / index out of bounds): the model returns `none`.
-/
namespace Green

/-- `MarkEvent` (token ranges are resolved to their text) -/
inductive MEv
  | start (k : NKind) (parent : Nat)
  | tok (k : TKind) (t : List Char)
  | fin
  | trivia
  deriving Repr

/-- `MarkEvent::none()` -/
def noneEv : MEv := .start .none 0

/-- the `while parent_position > 0` loop. `acc` are the kinds pushed so far (own kind first).
Fuel: every iteration either stops at the next one (the link taken has parent 0) or replaces an
event with a non-zero parent link by `none()`; `length + 2` iterations always suffice
(`chain_fuel` in Lemmas/Events). Running out of fuel is reported as `none`. -/
def chain : Nat → List MEv → Nat → List NKind → Option (List NKind × List MEv)
  | 0, _, _, _ => none
  | fuel+1, evs, pp, acc =>
    if pp = 0 then some (acc, evs) else
    match evs[pp]? with
    | some (.start k p) => chain fuel (evs.set pp noneEv) p (acc ++ [k])
    | _ => none

/-- the `for i in 0..events.len()` loop from index `i` on, `n` = number of remaining iterations -/
def run : Nat → Nat → List MEv → St → Option St
  | 0, _, _, s => some s
  | n+1, i, evs, s =>
    match evs[i]? with
    | none => some s
    | some e =>
      let evs := evs.set i noneEv
      match e with
      | .trivia => run n (i+1) evs s
      | .start .none _ => run n (i+1) evs s
      | .start k p =>
        match chain (evs.length + 2) evs p [k] with
        | none => none
        | some (ks, evs') => run n (i+1) evs' (ks.reverse.foldl startNode s)
      | .fin => run n (i+1) evs (finishNode s)
      | .tok k t => run n (i+1) evs (token s k t)

/-- tokens of the `EatToken` events, in order -/
def evLeaves : List MEv → List (TKind × List Char)
  | [] => []
  | .tok k t :: es => (k, t) :: evLeaves es
  | _ :: es => evLeaves es

/-- `build()` then `finish()`; `none` = the Rust panics -/
def build (evs : List MEv) : Option Elem :=
  match run evs.length 0 evs (startNode St.empty .chunk) with
  | none => none
  | some s => some (finish (finishNode s))

/-- every `parent` link is 0 or points inside the list at a `NodeStart` — what `precede` produces -/
def linksOk (evs : List MEv) : Bool :=
  evs.all fun e => match e with
    | .start _ p => p == 0 || (match evs[p]? with | some (.start _ _) => true | _ => false)
    | _ => true

end Green
