import EmmyVerif.Model.ScopeRename
/-!
# Scope family — scope ranges and `find_scope`

The complete scope tree of a chunk with the ranges `DeclAnalyzer::create_scope` gives the scopes (the
ranges of the syntax nodes), and `LuaDeclarationTree::find_scope`: starting at the root, repeatedly
enter the first child scope whose range contains the position.

Ranges in token positions (`Model/Scope`): a statement / closure scope spans its tokens, `[start, next token - 1)`;
a block spans from just before its first token to the next token after it, `[first - 1, next)`; the
chunk spans everything.
-/
namespace Scope

/-- a scope with its range and its child scopes in source order -/
inductive RTree where
  | node (kind : Kind) (start stop : Nat) (children : List RTree)

def RTree.kind : RTree → Kind | .node k _ _ _ => k
def RTree.start : RTree → Nat | .node _ s _ _ => s
def RTree.stop : RTree → Nat | .node _ _ e _ => e
def RTree.children : RTree → List RTree | .node _ _ _ cs => cs
/-- `TextRange::contains` -/
def RTree.has (t : RTree) (p : Nat) : Bool := decide (t.start ≤ p) && decide (p < t.stop)

mutual
/-- the scopes an expression at `pos` creates inside the enclosing scope -/
def scopesExpr (pos : Nat) : Expr → List RTree
  | .name _ => []
  | .lit => []
  | .call _ args => scopesExprs (pos + 4) args
  | .func ps body =>
    [.node .closure pos (pos + 2 * (4 + ps.length + sizeBlock body) - 1) (scopesBlock (pos + 2 * (3 + ps.length)) body)]
def scopesExprs (pos : Nat) : List Expr → List RTree
  | [] => []
  | e :: es => scopesExpr pos e ++ scopesExprs (pos + 2 * sizeExpr e) es
def scopesStat (pos : Nat) : Stat → List RTree
  | .locl names vals =>
    [.node .localOrAssign pos (pos + 2 * sizeStat (.locl names vals) - 1)
      (scopesExprs (pos + 2 * (1 + names.length + eqTokens vals)) vals)]
  | .assign vars vals =>
    [.node .localOrAssign pos (pos + 2 * sizeStat (.assign vars vals) - 1) (scopesExprs (pos + 2 * (vars.length + 1)) vals)]
  | .localFunc n ps body =>
    [.node .funcStat pos (pos + 2 * sizeStat (.localFunc n ps body) - 1)
      [.node .closure (pos + 6) (pos + 2 * sizeStat (.localFunc n ps body) - 1) (scopesBlock (pos + 2 * (5 + ps.length)) body)]]
  | .funcStat n ps body =>
    [.node .funcStat pos (pos + 2 * sizeStat (.funcStat n ps body) - 1)
      [.node .closure (pos + 4) (pos + 2 * sizeStat (.funcStat n ps body) - 1) (scopesBlock (pos + 2 * (4 + ps.length)) body)]]
  | .forNum v e1 e2 body =>
    [.node .forRange pos (pos + 2 * sizeStat (.forNum v e1 e2 body) - 1)
      (scopesExpr (pos + 6) e1 ++ scopesExpr (pos + 6 + 2 * sizeExpr e1) e2 ++
        scopesBlock (pos + 8 + 2 * sizeExpr e1 + 2 * sizeExpr e2) body)]
  | .forIn vs e body =>
    [.node .forRange pos (pos + 2 * sizeStat (.forIn vs e body) - 1)
      (scopesExpr (pos + 2 * (2 + vs.length)) e ++ scopesBlock (pos + 2 * (3 + vs.length) + 2 * sizeExpr e) body)]
  | .while_ c body => scopesExpr (pos + 2) c ++ scopesBlock (pos + 4 + 2 * sizeExpr c) body
  | .repeat_ body c =>
    [.node .repeat_ pos (pos + 2 * sizeStat (.repeat_ body c) - 1)
      (scopesBlock (pos + 2) body ++ scopesExpr (pos + 4 + 2 * sizeBlock body) c)]
  | .do_ body => scopesBlock (pos + 2) body
  | .if_ c t e =>
    scopesExpr (pos + 2) c ++ scopesBlock (pos + 4 + 2 * sizeExpr c) t ++
      scopesBlock (pos + 6 + 2 * sizeExpr c + 2 * sizeBlock t) e
  | .callS _ args => scopesExprs (pos + 4) args
  | .loclAttr n val =>
    [.node .localOrAssign pos (pos + 2 * sizeStat (.loclAttr n val) - 1) (scopesExpr (pos + 12) val)]
  | .method obj k colon ps body =>
    [.node .funcStat pos (pos + 2 * sizeStat (.method obj k colon ps body) - 1)
      [.node .closure (pos + 4 + 4 * k) (pos + 2 * sizeStat (.method obj k colon ps body) - 1)
        (scopesBlock (pos + 2 * (4 + 2 * k + ps.length)) body)]]
def scopesStats (pos : Nat) : List Stat → List RTree
  | [] => []
  | st :: rest => scopesStat pos st ++ scopesStats (pos + 2 * sizeStat st) rest
/-- a non-empty block is one scope; an empty block has no `Block` node -/
def scopesBlock (pos : Nat) : List Stat → List RTree
  | [] => []
  | st :: rest =>
    [.node .normal (pos - 1) (pos + 2 * sizeBlock (st :: rest))
      (scopesStat pos st ++ scopesStats (pos + 2 * sizeStat st) rest)]
end

/-- the scope tree of a chunk: the chunk scope around the scope of its block -/
def chunkTree (p : List Stat) : RTree :=
  .node .normal 0 (startPos + 2 * sizeBlock p + 1) (scopesBlock startPos p)

mutual
/-- `find_scope`: kinds and starts of the scopes entered, outermost first -/
def pathTree : RTree → Nat → List (Kind × Nat)
  | .node k s _ cs, p => (k, s) :: pathForest cs p
def pathForest : List RTree → Nat → List (Kind × Nat)
  | [], _ => []
  | t :: ts, p => if t.has p then pathTree t p else pathForest ts p
end

mutual
/-- all scopes whose range contains the position, in pre-order -/
def containingTree : RTree → Nat → List (Kind × Nat)
  | .node k s e cs, p => (if decide (s ≤ p) && decide (p < e) then [(k, s)] else []) ++ containingForest cs p
def containingForest : List RTree → Nat → List (Kind × Nat)
  | [], _ => []
  | t :: ts, p => containingTree t p ++ containingForest ts p
end

mutual
/-- child scopes lie inside their parent, one after the other -/
def wellNested : RTree → Bool
  | .node _ s e cs => decide (s ≤ e) && chain s e cs
/-- the trees lie in `[lo, hi]` in this order without overlap, each well nested -/
def chain (lo hi : Nat) : List RTree → Bool
  | [] => decide (lo ≤ hi)
  | t :: ts => decide (lo ≤ t.start) && wellNested t && chain t.stop hi ts
end

/-- `is_in_body_block` as written: some child scope of kind `Normal` contains the position -/
def inBodyFaithful (t : RTree) (p : Nat) : Bool :=
  t.children.any fun c => decide (c.kind = .normal) && c.has p

end Scope
