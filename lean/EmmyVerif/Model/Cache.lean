import EmmyVerif.Model.Events
/-!
# Model of rowan's `NodeCache` as used by `LuaGreenNodeBuilder::with_cache`
(rowan-0.16.1 `src/green/node_cache.rs`, `src/green/builder.rs`; shared by every parse of a `Vfs`,
crates/emmylua_code_analysis/src/vfs/mod.rs).

Green elements are heap allocations compared by *address*. The model keeps an append-only `heap`
of cells; an id is an index into it. A token cell holds `(kind, text)`, a node cell holds
`(kind, ids of the children)`. The cache is two sets of ids: interned tokens and interned nodes.

* `token`: look up an interned token with the same kind and text, else allocate and intern.
* `node`: a node with more than 3 children, or with a child that is not interned (rowan: child
  hash `0`), is allocated and **not** interned; otherwise look up an interned node with the same
  kind and the same child *identities*, else allocate and intern.

The second component of a heap entry is ghost state: the tree the cell denotes. No lookup reads it
(`lookupTok`, `lookupNode` only compare kinds, texts and ids), it only serves to state the
theorems. Hashes are not modelled: a rowan lookup goes to the bucket of the hash and then compares
exactly what `lookupNode`/`lookupTok` compare, and equal (kind, text) resp. (kind, child ids) have
equal hashes; the accidental hash value `0` merely skips interning, which `C04` covers as well
(the statement holds for interned and non-interned results alike).
-/
namespace Green

inductive Cell
  | tok (k : TKind) (t : List Char)
  | node (k : NKind) (kids : List Nat)
  deriving Repr, DecidableEq

structure Cache where
  heap : List (Cell × Elem)
  toks : List Nat
  nodes : List Nat
  deriving Repr

def Cache.empty : Cache := ⟨[], [], []⟩

def isTokCell (h : List (Cell × Elem)) (k : TKind) (t : List Char) (id : Nat) : Bool :=
  match h[id]? with
  | some (.tok k' t', _) => k' == k && t' == t
  | _ => false

def isNodeCell (h : List (Cell × Elem)) (k : NKind) (ids : List Nat) (id : Nat) : Bool :=
  match h[id]? with
  | some (.node k' ids', _) => k' == k && ids' == ids
  | _ => false

def lookupTok (c : Cache) (k : TKind) (t : List Char) : Option Nat :=
  c.toks.find? (isTokCell c.heap k t)

def lookupNode (c : Cache) (k : NKind) (ids : List Nat) : Option Nat :=
  c.nodes.find? (isNodeCell c.heap k ids)

/-- result of interning: cache after, id of the element, `true` iff the element is interned
(rowan: hash ≠ 0) -/
abbrev Res := Cache × Nat × Bool

mutual
/-- replaying a tree into `rowan::GreenNodeBuilder` with this cache (`build_rowan_green`):
children first, left to right, then the node itself -/
def intern (c : Cache) : Elem → Res
  | .tok k t =>
    match lookupTok c k t with
    | some id => (c, id, true)
    | none =>
      let id := c.heap.length
      ({ c with heap := c.heap ++ [(.tok k t, .tok k t)], toks := id :: c.toks }, id, true)
  | .node k cs =>
    let r := internL c cs
    let c1 := r.1
    let ids := r.2.map (·.1)
    let id := c1.heap.length
    if r.2.length > 3 || r.2.any (fun x => !x.2) then
      ({ c1 with heap := c1.heap ++ [(.node k ids, .node k cs)] }, id, false)
    else
      match lookupNode c1 k ids with
      | some hit => (c1, hit, true)
      | none => ({ c1 with heap := c1.heap ++ [(.node k ids, .node k cs)], nodes := id :: c1.nodes }, id, true)
def internL (c : Cache) : List Elem → Cache × List (Nat × Bool)
  | [] => (c, [])
  | e :: es =>
    let r := intern c e
    let r2 := internL r.1 es
    (r2.1, (r.2.1, r.2.2) :: r2.2)
end

/-- what the element with this id denotes -/
def den (c : Cache) (id : Nat) : Option Elem := (c.heap[id]?).map (·.2)

/-- a history of trees built through one cache: ids of the roots -/
def internAll (c : Cache) : List Elem → Cache × List Nat
  | [] => (c, [])
  | e :: es =>
    let r := intern c e
    let r2 := internAll r.1 es
    (r2.1, r.2.1 :: r2.2)

/-- parsing a history of event streams through one cache: the tree each parse returns
(`none` = the builder panicked, the cache is untouched then: `finish` is never reached) -/
def parseAll (c : Cache) : List (List MEv) → List (Option Elem)
  | [] => []
  | evs :: rest =>
    match build evs with
    | none => none :: parseAll c rest
    | some e =>
      let r := intern c e
      den r.1 r.2.1 :: parseAll r.1 rest

/-! Identity structure, for the correspondence run: the ids of a tree in pre-order. -/
def preorderFuel : Nat → List (Cell × Elem) → Nat → List Nat
  | 0, _, _ => []
  | f+1, h, id =>
    match h[id]? with
    | some (.node _ kids, _) => id :: kids.flatMap (preorderFuel f h)
    | _ => [id]

end Green
