/-!
# Model of the JSON-schema → EmmyLua annotation emitter (C40)

After the `fix:` commit of `schema_to_emmylua`:
* `typeName` — `lua_emitter::type_name` (class / alias / `$ref` names),
* `stringLiteral`, `stringLiteralType` — `string_literal`, `string_literal_type`,
* `commentLines`, `oneLine` — description splitting,
* `convert` — `SchemaConverter::convert` on the modelled schema fragment: a root object with
  optional title / description, properties that are a primitive `type`, a `const`, or an `enum`,
  with optional descriptions, and a `required` list; no `$defs`.
* the doc lexer's two token rules the emitted names and strings must survive:
  `readNameRest` (`read_doc_name`) and `lexString`.

`alnum` / `alpha` stand for `char::is_alphanumeric` / `char::is_alphabetic` (Unicode tables are not
modelled; theorems hold for every pair of predicates satisfying the stated hypotheses, the driver
instantiates them with ASCII plus the non-ASCII characters the generator uses).
-/
namespace Emit

/-! ## names -/

def sanitizeGo (alnum : Char → Bool) : Option Char → List Char → List Char
  | _, [] => []
  | prev, c :: rest =>
    let keep := alnum c || c == '_' || (c == '.' && prev.isSome && prev != some '.')
    let o := if keep then c else '_'
    o :: sanitizeGo alnum (some o) rest

/-- words that are not a type name on their own (`TYPE_KEYWORDS`) -/
def typeKeywords : List (List Char) :=
  ["fun".toList, "async".toList, "true".toList, "false".toList, "keyof".toList, "extends".toList,
   "as".toList, "in".toList, "and".toList, "or".toList, "else".toList]

def sanitized (alnum alpha : Char → Bool) (pre name : List Char) : List Char :=
  match sanitizeGo alnum none (pre ++ name) with
  | [] => ['_']
  | c :: r => if alpha c || c == '_' then c :: r else '_' :: c :: r

/-- `type_name(prefix, name)` -/
def typeName (alnum alpha : Char → Bool) (pre name : List Char) : List Char :=
  let r := sanitized alnum alpha pre name
  if typeKeywords.contains r then r ++ ['_'] else r

/-- the loop of `read_doc_name` after the first character: (consumed, rest) -/
def readNameRest (alnum : Char → Bool) : List Char → List Char × List Char
  | [] => ([], [])
  | c :: rest =>
    if alnum c || c == '_' || c == '`' then
      ((c :: (readNameRest alnum rest).1), (readNameRest alnum rest).2)
    else if c == '.' || c == '-' || c == '*' then
      match rest with
      | [] => ([c], [])
      | n :: _ =>
        if n == '.' || n == '-' || n == '*' then ([], c :: rest)
        else ((c :: (readNameRest alnum rest).1), (readNameRest alnum rest).2)
    else ([], c :: rest)

/-! ## strings -/

def isBreak (c : Char) : Bool := c == '\n' || c == '\r' || c == '\x00'

/-- `string_literal` -/
def stringLiteral (s : List Char) : Option (List Char) :=
  if s.any isBreak then none
  else if !s.contains '"' then some ('"' :: s ++ ['"'])
  else if !s.contains '\'' then some ('\'' :: s ++ ['\''])
  else none

def stringLiteralType (s : List Char) : List Char := (stringLiteral s).getD "string".toList

/-- the doc lexer's string rule: after the opening quote `q`, everything up to the next `q`
(inclusive when present): (token without the opening quote, rest) -/
def lexStringBody (q : Char) : List Char → List Char × List Char
  | [] => ([], [])
  | c :: rest => if c == q then ([c], rest) else ((c :: (lexStringBody q rest).1), (lexStringBody q rest).2)

/-! ## descriptions -/

/-- `str::split_inclusive('\n')` with the `\n` (and a `\r` before it) removed: `str::lines` -/
def linesGo : List Char → List Char → List (List Char)
  | acc, [] => if acc.isEmpty then [] else [acc.reverse]
  | acc, c :: rest =>
    if c == '\n' then
      (match acc with
       | '\r' :: acc' => acc'.reverse
       | _ => acc.reverse) :: linesGo [] rest
    else linesGo (c :: acc) rest

def lines (t : List Char) : List (List Char) := linesGo [] t

/-- `str::split(['\r', '\0'])` -/
def splitCr : List Char → List (List Char)
  | [] => [[]]
  | c :: rest =>
    if c == '\r' || c == '\x00' then [] :: splitCr rest
    else match splitCr rest with
      | [] => [[c]]
      | s :: ss => (c :: s) :: ss

/-- `comment_lines` -/
def commentLines (t : List Char) : List (List Char) := (lines t).flatMap splitCr

def joinSp : List (List Char) → List Char
  | [] => []
  | [s] => s
  | s :: rest => s ++ ' ' :: joinSp rest

/-- `one_line` -/
def oneLine (t : List Char) : List Char := joinSp (commentLines t)

def isWs (c : Char) : Bool := c == ' ' || c == '\t' || c == '\n' || c == '\r' || c == '\x0b' || c == '\x0c'

/-- `str::trim` (ASCII white space; the generator uses no other) -/
def trim (t : List Char) : List Char := ((t.dropWhile isWs).reverse.dropWhile isWs).reverse

/-! ## the converter on the modelled fragment -/

inductive Kind where
  | prim (t : List Char)
  | const (s : List Char)
  | enum (vs : List (List Char))

structure Prop' where
  name : List Char
  desc : Option (List Char)
  required : Bool
  kind : Kind

structure Schema where
  title : Option (List Char)
  desc : Option (List Char)
  props : List Prop'

/-- `json_type_to_lua`, with the `array` / `object` branches of `resolve_type` (no `items`, no
`additionalProperties` in the fragment) -/
def primType (t : List Char) : List Char :=
  if t == "string".toList then "string".toList
  else if t == "integer".toList then "integer".toList
  else if t == "number".toList then "number".toList
  else if t == "boolean".toList then "boolean".toList
  else if t == "null".toList then "nil".toList
  else if t == "object".toList then "table".toList
  else if t == "array".toList then "any[]".toList
  else "any".toList

def endsWithQ (t : List Char) : Bool := t.getLast? == some '?'

def containsBar : List Char → Bool
  | ' ' :: '|' :: ' ' :: _ => true
  | _ :: rest => containsBar rest
  | [] => false

/-- `parenthesized` -/
def parenthesized (t : List Char) : List Char :=
  if containsBar t || endsWithQ t then '(' :: t ++ [')'] else t

def joinBar : List (List Char) → List Char
  | [] => []
  | [s] => s
  | s :: rest => s ++ " | ".toList ++ joinBar rest

/-- members of `union_type`: a trailing `?` is stripped (and remembered), empties and repeats dropped -/
def unionMembers : List (List Char) → List (List Char) → Bool → List (List Char) × Bool
  | [], acc, n => (acc, n)
  | t :: rest, acc, n =>
    let (t', n') := if endsWithQ t then (t.dropLast, true) else (t, n)
    if t'.isEmpty || acc.contains t' then unionMembers rest acc n' else unionMembers rest (acc ++ [t']) n'

/-- `union_type` -/
def unionType (ts : List (List Char)) (nullable : Bool) : List Char :=
  let (ms, n) := unionMembers ts [] nullable
  let u := if ms.isEmpty then "any".toList else joinBar ms
  if n then parenthesized u ++ ['?'] else u

/-- `resolve_type` on the fragment -/
def resolveType : Kind → List Char
  | .prim t => primType t
  | .enum vs => unionType (vs.map stringLiteralType) false
  | .const s => stringLiteralType s

/-- `resolve_field_type` -/
def fieldType (k : Kind) (optional : Bool) : List Char :=
  let t := resolveType k
  if optional && !endsWithQ t then parenthesized t ++ ['?'] else t

/-- words `---@field` reads as a modifier instead of a name (`FIELD_MODIFIERS`) -/
def fieldModifiers : List (List Char) :=
  ["private".toList, "protected".toList, "public".toList, "package".toList, "readonly".toList]

def plainIdent (n : List Char) : Bool :=
  match n with
  | [] => false
  | c :: _ => (c.isAlpha || c == '_') && (n.all fun c => c.isAlphanum || c == '_')

/-- `needs_bracket_notation` (ASCII predicates in the real code too) -/
def needsBracket (n : List Char) : Bool := fieldModifiers.contains n || !plainIdent n

/-- white space of the doc lexer -/
def isDocWs (c : Char) : Bool := c == ' ' || c == '\t' || c == '\r' || c == '\n'

/-- The doc lexer in the description of a normal comment line, after the comment start: white space
is skipped; `---` followed (after white space) by `@` starts a tag, otherwise `---`, `--`, `///`, `//`
are further comment starts and lexing goes on behind them (every token starts "at the start of a
line" for `Reader::is_start_of_line`); anything else ends the line as description text. The `Nat`
is fuel (the remaining length suffices). -/
def tagAfter : Nat → List Char → Bool
  | 0, _ => false
  | f + 1, l =>
    match l.dropWhile isDocWs with
    | '-' :: '-' :: '-' :: rest =>
      (match rest.dropWhile isDocWs with
       | '@' :: _ => true
       | r => tagAfter f r)
    | '-' :: '-' :: rest => tagAfter f rest
    | '/' :: '/' :: '/' :: rest => tagAfter f rest
    | '/' :: '/' :: rest => tagAfter f rest
    | _ => false

/-- is (part of) this comment line lexed as an annotation tag? At the start of the line: three
dashes, white space, `@`; else the rule of `tagAfter` for what follows. -/
def tagStart : List Char → Bool
  | '-' :: '-' :: '-' :: rest =>
    (match rest.dropWhile isDocWs with
     | '@' :: _ => true
     | r => tagAfter (r.length + 1) r)
  | _ => false

/-- characters that may precede a tag-starting `@` -/
def isTagLead (c : Char) : Bool := isDocWs c || c == '-' || c == '/'

/-- a description line whose first character other than white space, `-`, `/` is `@` gets a
backslash in front -/
def escapeTag (l : List Char) : List Char :=
  if (l.dropWhile isTagLead).head? == some '@' then '\\' :: l else l

def docLines (t : List Char) : List (List Char) :=
  (commentLines t).map fun l => "--- ".toList ++ escapeTag l

def skippedLine : List Char := "--- (a field whose name cannot be written in an annotation was skipped)".toList

/-- the key of a `---@field` line: the plain name, a bracketed string literal, or nothing when the
name cannot be written -/
def fieldKey (name : List Char) : Option (List Char) :=
  if needsBracket name then (stringLiteral name).map fun lit => '[' :: lit ++ [']']
  else some name

/-- `write_field` -/
def fieldLines (p : Prop') : List (List Char) :=
  let d := match p.desc with
    | some d => docLines d
    | none => []
  let ty := fieldType p.kind (!p.required)
  match fieldKey p.name with
  | some k => d ++ ["---@field ".toList ++ k ++ ' ' :: ty]
  | none => d ++ [skippedLine]

def classLine (priv : Bool) (name : List Char) : List Char :=
  "---@class".toList ++ (if priv then "(file)".toList else []) ++ ' ' :: name

def rootName (alnum alpha : Char → Bool) (s : Schema) : List Char :=
  typeName alnum alpha "schema.".toList (s.title.getD "root".toList)

/-- lines of `convert(schema).annotation_text` (each followed by `\n` in the text) -/
def convertLines (alnum alpha : Char → Bool) (priv : Bool) (s : Schema) : List (List Char) :=
  ["--- This file was auto-generated from JSON Schema.".toList, "--- Do not edit manually.".toList, []] ++
  (match s.desc with
   | some d => docLines (trim d)
   | none => []) ++
  [classLine priv (rootName alnum alpha s)] ++
  s.props.flatMap fieldLines ++
  [[]]

def render (ls : List (List Char)) : List Char := ls.flatMap (· ++ ['\n'])

end Emit
