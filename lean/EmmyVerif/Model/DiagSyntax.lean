import EmmyVerif.Model.Text
import EmmyVerif.Model.Diag
/-!
# Diag family — well-formed diagnostics and the syntax-error mapping (C21)

* `translateRange` — `DiagnosticContext::translate_range` followed by the `unwrap_or(0:0-0:0)` of
  `add_diagnostic` (checker/mod.rs), over `Text.getLineCol` (the C22/C23 model of `LineIndex`)
* `syntaxDiags` — the parse-error loop of `SyntaxErrorChecker::check` (syntax_error.rs): every parse
  error, de-duplicated (the parser can push the identical error twice), mapped to a diagnostic with
  code `syntax-error` / `doc-syntax-error`, gated by `add_diagnostic` (`Diag.reported`)
-/
namespace Diag

abbrev LspPos := Nat × Nat
abbrev LspRange := LspPos × LspPos

def translateRange (t : List Char) (r : Range) : LspRange :=
  match Text.getLineCol t r.1, Text.getLineCol t r.2 with
  | some a, some b => (a, b)
  | _, _ => ((0, 0), (0, 0))

/-- `LuaParseErrorKind`: 0 = SyntaxError, otherwise DocError; messages are interned -/
structure ParseErr where
  kind : Nat
  range : Range
  msg : Nat
  deriving Repr, DecidableEq

structure SynDiag where
  code : Code
  range : LspRange
  msg : Nat
  deriving Repr, DecidableEq

/-- keep the first occurrence of every element -/
def dedup [DecidableEq α] : List α → List α
  | [] => []
  | x :: xs => x :: (dedup xs).filter (fun y => decide (y ≠ x))

def codeOfKind (syntaxCode docCode : Code) (kind : Nat) : Code := if kind = 0 then syntaxCode else docCode

/-- the diagnostics `SyntaxErrorChecker` emits for the parse errors of a file -/
def syntaxDiags (t : List Char) (syntaxCode docCode : Code) (gate : Code → Range → Bool)
    (errs : List ParseErr) : List SynDiag :=
  (dedup errs).filterMap fun e =>
    let c := codeOfKind syntaxCode docCode e.kind
    if gate c e.range then some ⟨c, translateRange t e.range, e.msg⟩ else none

end Diag
