import EmmyVerif.Gen.IndexFields
/-!
# Index family — association-list maps (core Lean + the regenerated source lists only)

`hashbrown::HashMap<K, V>` is modelled as an association list `List (κ × α)` with at most one entry
per key (`AMap.NoDup`, a separate well-formedness predicate). Only the operations the `db_index`
code uses: `get`, `insert` (overwrite), `remove`, `retain`-style filtering, `len`.
-/
namespace Index

/-- `HashMap::get` -/
def aget [DecidableEq κ] : List (κ × α) → κ → Option α
  | [], _ => none
  | (k', v) :: r, k => if k' = k then some v else aget r k

/-- `HashMap::insert` (overwrites in place, else appends) -/
def aset [DecidableEq κ] : List (κ × α) → κ → α → List (κ × α)
  | [], k, v => [(k, v)]
  | (k', v') :: r, k, v => if k' = k then (k, v) :: r else (k', v') :: aset r k v

/-- `HashMap::remove` -/
def adel [DecidableEq κ] (m : List (κ × α)) (k : κ) : List (κ × α) :=
  m.filter fun e => !decide (e.1 = k)

/-- `map.get(k).cloned().unwrap_or_default()` for vector-valued maps -/
def agetL [DecidableEq κ] (m : List (κ × List α)) (k : κ) : List α :=
  (aget m k).getD []

/-- `map.entry(k).or_default().push(x)` -/
def apush [DecidableEq κ] (m : List (κ × List α)) (k : κ) (x : α) : List (κ × List α) :=
  aset m k (agetL m k ++ [x])

/-- `if let Some(v) = map.get_mut(k) { *v = g(v) }` -/
def aupdate [DecidableEq κ] (m : List (κ × α)) (k : κ) (g : α → α) : List (κ × α) :=
  match aget m k with
  | none => m
  | some v => aset m k (g v)

/-- keys of the map -/
def akeys (m : List (κ × α)) : List κ := m.map (·.1)

/-- `retain` on a vector-valued entry, dropping the entry when it becomes empty -/
def aretainDrop [DecidableEq κ] (m : List (κ × List α)) (k : κ) (p : α → Bool) : List (κ × List α) :=
  match aget m k with
  | none => m
  | some xs => if (xs.filter p).isEmpty then adel m k else aset m k (xs.filter p)

/-! ## bridge to the source (T-src): which fields the Rust `clear` methods reset

`Gen.IndexFields` is regenerated from `db_index/**/mod.rs` on every run. The models' `clear` operations reset
a modelled map only if the source resets the corresponding field, so a `clear` that forgets a field (or
`DbIndex::clear` that forgets an index) makes `clear_is_new` fail to check. -/

/-- is field `f` of the index stored in `DbIndex.<idx>` reset by `DbIndex::clear`? -/
def srcCleared (idx f : String) : Bool :=
  Gen.IndexFields.dbCleared.contains idx &&
  (Gen.IndexFields.indexes.any fun e => e.1 == idx && e.2.2.2.contains f)

/-- a model map standing for the Rust field `fld` survives `clear` iff the source does not reset that field;
model maps that stand for no Rust field do not survive -/
def survivesClear (fld : Option (String × String)) : Bool :=
  match fld with
  | some (i, f) => !srcCleared i f
  | none => false

/-- fields that are deliberately not index state (configuration, counters, caches keyed by URL):
`clear` does not have to reset them -/
def configFields : List (String × String) :=
  [("LuaModuleIndex", "module_patterns"), ("LuaModuleIndex", "module_root_id"), ("LuaModuleIndex", "workspaces"),
   ("LuaModuleIndex", "id_counter"), ("LuaModuleIndex", "fuzzy_search"), ("LuaModuleIndex", "module_replace_vec"),
   -- `JsonSchemaIndex::clear` / `remove` are `TODO`s in the source: resolved JSON schemas are kept per URL
   ("JsonSchemaIndex", "schema_files")]

/-- `DbIndex` fields that are not indexes -/
def nonIndexDbFields : List String := ["vfs", "emmyrc"]

end Index
