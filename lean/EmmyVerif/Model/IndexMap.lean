/-!
# Index family — association-list maps (import-free)

`hashbrown::HashMap<K, V>` is modelled as an association list `List (κ × α)` with at most one entry
per key (`AMap.NoDup`, a separate well-formedness predicate). Only the operations the `db_index`
code uses: `get`, `insert` (overwrite), `remove`, `retain`-style filtering, `len`.
-/
namespace Index

/-- `HashMap::get` -/
def aget [DecidableEq κ] : List (κ × α) → κ → Option α
  | [], _ => none
  | (k', v) :: r, k => if k' = k then some v else aget r k

/-- `HashMap::insert` (overwrites in place, else appends) -/
def aset [DecidableEq κ] : List (κ × α) → κ → α → List (κ × α)
  | [], k, v => [(k, v)]
  | (k', v') :: r, k, v => if k' = k then (k, v) :: r else (k', v') :: aset r k v

/-- `HashMap::remove` -/
def adel [DecidableEq κ] (m : List (κ × α)) (k : κ) : List (κ × α) :=
  m.filter fun e => !decide (e.1 = k)

/-- `map.get(k).cloned().unwrap_or_default()` for vector-valued maps -/
def agetL [DecidableEq κ] (m : List (κ × List α)) (k : κ) : List α :=
  (aget m k).getD []

/-- `map.entry(k).or_default().push(x)` -/
def apush [DecidableEq κ] (m : List (κ × List α)) (k : κ) (x : α) : List (κ × List α) :=
  aset m k (agetL m k ++ [x])

/-- `if let Some(v) = map.get_mut(k) { *v = g(v) }` -/
def aupdate [DecidableEq κ] (m : List (κ × α)) (k : κ) (g : α → α) : List (κ × α) :=
  match aget m k with
  | none => m
  | some v => aset m k (g v)

/-- keys of the map -/
def akeys (m : List (κ × α)) : List κ := m.map (·.1)

/-- `retain` on a vector-valued entry, dropping the entry when it becomes empty -/
def aretainDrop [DecidableEq κ] (m : List (κ × List α)) (k : κ) (p : α → Bool) : List (κ × List α) :=
  match aget m k with
  | none => m
  | some xs => if (xs.filter p).isEmpty then adel m k else aset m k (xs.filter p)

end Index
