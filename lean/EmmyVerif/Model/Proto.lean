/-!
# Proto family — the language server as a function on an abstract message stream (C24)

Mirrors, in `/repo/crates/emmylua_ls/src`:

* `server/mod.rs::run_ls` — the handshake: `lsp_server::Connection::initialize_start` (requests before
  `initialize` are answered `ServerNotInitialized`, notifications are skipped, `exit`/a response ends the
  process), an `initialize` whose params do not deserialize is answered `InvalidParams` and the server
  keeps waiting; `initialize_finish` (the next message must be the `initialized` notification);
* `server/lsp_server.rs::{run, wait_for_initialization}` + `server/message_processor.rs` — while the
  initialization task runs, responses, `$/cancelRequest` and `initialized` are handled at once and every
  other message is queued; when initialization completes the queue is handled in order;
* `server/connection.rs::handle_shutdown` — `shutdown` is answered, then the server waits for `exit`;
  requests that still arrive (or were queued behind the `shutdown`) are answered `InvalidRequest`;
* `handlers/request_handler.rs::dispatch_request!` — method match → `extract` params → on failure
  `InvalidParams`, on success `ServerContext::task`; unknown method → `MethodNotFound`;
* `context/mod.rs::ServerContext::{task, cancel}` — the task wrapper answers `RequestCanceled` when the
  token was cancelled while the handler ran, `InternalError` when the handler panicked, the result
  otherwise;
* `handlers/notification_handler.rs::dispatch_notification!` — notifications never produce a response;
* `lsp_server` stdio transport — its reader thread stops after an `exit` notification, so in every phase
  `exit` is the last message the server receives.

What the environment chooses (adversarially) is part of the input: the messages, whether each request's
params deserialize (`PState`), each handler's `Outcome` (finishes at once or is still running when later
messages arrive; panics or not) and the point at which the initialization task completes (`Event.initDone`).

Import-free (core only) so that the driver links natively.
-/
namespace Proto

/-- do the params of a message deserialize into the method's parameter type?
`bad` covers wrong JSON type, missing `params`, `null`, missing fields -/
inductive PState | ok | bad
  deriving DecidableEq, Repr

inductive Phase
  | preInit            -- `initialize_start`: waiting for `initialize`
  | awaitInitialized   -- `initialize_finish`: response sent, waiting for `initialized`
  | initializing       -- main loop, initialization task still running: messages are queued
  | running
  | shuttingDown       -- `shutdown` answered, waiting for `exit`
  | dead               -- the process has left its message loop
  deriving DecidableEq, Repr

/-- response kinds: a result or one of the error codes the server can produce -/
inductive RKind
  | result | methodNotFound | invalidParams | internalError | requestCanceled
  | serverNotInitialized | invalidRequest
  deriving DecidableEq, Repr

/-- what the handler task of a dispatched request does -/
structure Outcome where
  slow : Bool      -- still running when later messages are processed (so a cancel can hit it)
  panics : Bool
  deriving DecidableEq, Repr

inductive Msg
  | request (id : Nat) (method : String) (params : PState) (out : Outcome)
  | notification (method : String) (params : PState) (target : Nat)  -- `target`: the id in `CancelParams`
  | response
  deriving DecidableEq, Repr

inductive Event
  | msg (m : Msg)
  | initDone         -- the initialization task spawned by `main_loop` completes
  deriving DecidableEq, Repr

/-- a running handler task: `ServerContext::task` -/
structure Task where
  id : Nat
  panics : Bool
  cancelled : Bool
  deriving DecidableEq, Repr

structure St where
  phase : Phase
  pending : List Msg              -- `ServerMessageProcessor::pending_messages`
  inflight : List Task
  out : List (Nat × RKind)        -- responses sent so far (newest first)
  deriving DecidableEq, Repr

def init : St := ⟨.preInit, [], [], []⟩

/-- the methods registered in `dispatch_request!` (tied to the source by `Gen.ProtoMethods`) -/
def requestTable : List String := [
  "textDocument/hover", "textDocument/documentSymbol", "textDocument/foldingRange",
  "textDocument/documentColor", "textDocument/colorPresentation", "textDocument/documentLink",
  "documentLink/resolve", "emmy/annotator", "emmy/gutter", "emmy/gutter/detail", "emmy/syntaxTree",
  "textDocument/selectionRange", "textDocument/completion", "completionItem/resolve",
  "textDocument/inlayHint", "inlayHint/resolve", "textDocument/definition",
  "textDocument/implementation", "textDocument/references", "textDocument/rename",
  "textDocument/prepareRename", "textDocument/codeLens", "codeLens/resolve",
  "textDocument/signatureHelp", "textDocument/documentHighlight", "textDocument/semanticTokens/full",
  "workspace/executeCommand", "textDocument/codeAction", "textDocument/inlineValue",
  "workspace/symbol", "textDocument/formatting", "textDocument/rangeFormatting",
  "textDocument/onTypeFormatting", "textDocument/prepareCallHierarchy",
  "callHierarchy/incomingCalls", "callHierarchy/outgoingCalls", "textDocument/diagnostic",
  "workspace/diagnostic"]

/-- notifications `can_process_during_init` handles while the initialization task runs -/
def initAllowed : List String := ["$/cancelRequest", "initialized"]

def respond (st : St) (id : Nat) (k : RKind) : St := { st with out := (id, k) :: st.out }

/-- the response the task wrapper sends when the handler task ends -/
def taskResult (t : Task) : RKind :=
  if t.cancelled then .requestCanceled else if t.panics then .internalError else .result

/-- `ServerContext::task` -/
def spawn (st : St) (id : Nat) (o : Outcome) : St :=
  if o.slow then { st with inflight := ⟨id, o.panics, false⟩ :: st.inflight }
  else respond st id (if o.panics then .internalError else .result)

/-- `ServerContext::cancel` -/
def cancel (st : St) (target : Nat) : St :=
  { st with inflight := st.inflight.map fun t => if t.id = target then { t with cancelled := true } else t }

/-- `ServerMessageProcessor::handle_message` -/
def handle (st : St) : Msg → St
  | .request id m p o =>
    if m = "shutdown" then { respond st id .result with phase := .shuttingDown }
    else if m ∈ requestTable then
      match p with
      | .ok => spawn st id o
      | .bad => respond st id .invalidParams
    else respond st id .methodNotFound
  | .notification m p target =>
    if m = "$/cancelRequest" ∧ p = .ok then cancel st target else st
  | .response => st

/-- the loop inside `AsyncConnection::handle_shutdown` -/
def handleShuttingDown (st : St) : Msg → St
  | .request id _ _ _ => respond st id .invalidRequest
  | .notification m _ _ => if m = "exit" then { st with phase := .dead } else st
  | .response => st

/-- `process_pending_messages`: the queue is handled in order; what is queued behind a `shutdown`
is only answered (`InvalidRequest`), a queued `exit` does not end the wait for the live `exit` -/
def flush (st : St) : List Msg → St
  | [] => st
  | m :: rest =>
    if st.phase = .shuttingDown then
      match m with
      | .request id _ _ _ => flush (respond st id .invalidRequest) rest
      | _ => flush st rest
    else flush (handle st m) rest

def step (st : St) : Event → St
  | .initDone =>
    if st.phase = .initializing then flush { st with phase := .running, pending := [] } st.pending else st
  | .msg m =>
    match st.phase with
    | .dead => st
    | .preInit =>
      match m with
      | .request id meth p _ =>
        if meth = "initialize" then
          match p with
          | .ok => { respond st id .result with phase := .awaitInitialized }
          | .bad => respond st id .invalidParams
        else respond st id .serverNotInitialized
      | .notification meth _ _ => if meth = "exit" then { st with phase := .dead } else st
      | .response => { st with phase := .dead }
    | .awaitInitialized =>
      match m with
      | .notification meth _ _ =>
        if meth = "initialized" then { st with phase := .initializing } else { st with phase := .dead }
      | _ => { st with phase := .dead }
    | .initializing =>
      match m with
      | .response => st
      | .notification meth _ _ =>
        if meth = "exit" then
          -- the transport stops reading after `exit`: the closed channel ends the wait for the
          -- initialization task, the queue is handled, the loop ends
          { flush { st with phase := .running, pending := [] } st.pending with phase := .dead }
        else if meth ∈ initAllowed then handle st m
        else { st with pending := st.pending ++ [m] }
      | .request _ _ _ _ => { st with pending := st.pending ++ [m] }
    | .running =>
      match m with
      | .notification meth _ _ =>
        -- the transport stops reading after `exit`; the main loop ends on the closed channel
        if meth = "exit" then { st with phase := .dead } else handle st m
      | _ => handle st m
    | .shuttingDown => handleShuttingDown st m

def steps (st : St) : List Event → St
  | [] => st
  | e :: es => steps (step st e) es

/-- quiescence: the initialization task ends, every running handler task ends -/
def finish (st : St) : List (Nat × RKind) :=
  let st := step st .initDone
  st.inflight.map (fun t => (t.id, taskResult t)) ++ st.out

/-- all responses the server sends for an event list, after quiescence -/
def run (evs : List Event) : List (Nat × RKind) := finish (steps init evs)

/-- a request received in phase `p` is owed a response; not owed: the process is gone (`dead`) or the
client broke the handshake (`awaitInitialized`: `lsp_server::initialize_finish` ends the process) -/
def answers (p : Phase) : Bool :=
  match p with
  | .dead | .awaitInitialized => false
  | _ => true

def requestId? : Event → Option Nat
  | .msg (.request id _ _ _) => some id
  | .msg (.notification _ _ _) => none
  | .msg .response => none
  | .initDone => none

/-- what one event adds to the answerable ids -/
def owes (st : St) (e : Event) : List Nat :=
  match requestId? e with
  | some id => if answers st.phase then [id] else []
  | none => []

/-- ids of the requests received while the server answers, in order (with repetitions) -/
def answerable (st : St) : List Event → List Nat
  | [] => []
  | e :: es => owes st e ++ answerable (step st e) es

def ids (rs : List (Nat × RKind)) : List Nat := rs.map Prod.fst

end Proto
