import EmmyVerif.Model.LspShape
/-!
# LspShape family, part 2 — producers that take their ranges from syntax nodes (C26)

`RangeTree`: a syntax tree abstracted to nested byte ranges, as a preorder list of nodes with parent
indices (rowan: a child's `text_range` lies inside its parent's).

* document symbols (`document_symbol/{mod,builder,stats,expr,comment}.rs`): a symbol's `range` is the range of
  a node, or the cover of several node ranges (`decl.get_range().cover(value.get_range())`); its
  `selection_range` is the range of a node below one of them; the symbols of its children come from nodes
  below a *host* node (the statement / the value expression) whose range the symbol's range covers.
* folding ranges (`fold_range/builder.rs`): two offsets `a ≤ b` taken from nodes/tokens (a node's start and end;
  the end of the token before a block and the start of the token after it; region start/end), converted to
  lines and adjusted by `get_folding_lsp_range`.

Import-free apart from the LspShape model.
-/
namespace LspShape

structure Node where
  s : Nat
  e : Nat
  parent : Option Nat     -- preorder index of the parent node
  deriving DecidableEq, Repr

abbrev RangeTree := List Node

def nodeOK (t : RangeTree) (i : Nat) (n : Node) : Bool :=
  decide (n.s ≤ n.e) &&
  match n.parent with
  | none => true
  | some j =>
    decide (j < i) &&
    match t[j]? with
    | some p => decide (p.s ≤ n.s) && decide (n.e ≤ p.e)
    | none => false

def wellNestedFrom (t : RangeTree) : Nat → List Node → Bool
  | _, [] => true
  | i, n :: rest => nodeOK t i n && wellNestedFrom t (i + 1) rest

/-- every node has `s ≤ e`, its parent comes earlier and contains it -/
def wellNested (t : RangeTree) : Bool := wellNestedFrom t 0 t

/-- `Anc t k i`: node `k` is `i` or an ancestor of `i` -/
inductive Anc (t : RangeTree) : Nat → Nat → Prop
  | refl (i : Nat) : Anc t i i
  | step {k j i : Nat} {n : Node} : t[i]? = some n → n.parent = some j → Anc t k j → Anc t k i

/-- byte range `a` lies within `b` -/
def within (a b : Nat × Nat) : Prop := b.1 ≤ a.1 ∧ a.2 ≤ b.2

/-- `TextRange::cover` folded over several ranges -/
def hull (r : Nat × Nat) : List (Nat × Nat) → Nat × Nat
  | [] => r
  | x :: xs => hull (min r.1 x.1, max r.2 x.2) xs

def Node.range (n : Node) : Nat × Nat := (n.s, n.e)

/-- `LineIndex::get_line`: index of the last line start `≤ o` -/
def lineOf (starts : List Nat) (o : Nat) : Nat := (starts.filter (· ≤ o)).length - 1

/-- `FoldingRangeBuilder::get_folding_lsp_range` on the lines of two offsets: `(startLine, endLine)` of the fold -/
def foldLines (intellij : Bool) (sl el : Nat) : Option (Nat × Nat) :=
  if sl = el then none
  else if intellij then some (sl, el)
  else if el = 0 then none
  else if sl = el - 1 then none
  else some (sl, el - 1)

/-- region folds and import folds: the lines of the two offsets as they are -/
def foldPlain (sl el : Nat) : Nat × Nat := (sl, el)

/-! ### validators for the serialized results (used by the tie) -/

/-- flattened document symbols in preorder: (range, selectionRange, index of the parent symbol) -/
def symbolsOKFrom (all : List (Range × Range × Option Nat)) : Nat → List (Range × Range × Option Nat) → Bool
  | _, [] => true
  | i, (r, sel, p) :: rest =>
    r.wf && r.contains sel &&
    (match p with
      | none => true
      | some j => decide (j < i) && match all[j]? with
        | some (pr, _, _) => pr.contains r
        | none => false) &&
    symbolsOKFrom all (i + 1) rest

def symbolsOK (syms : List (Range × Range × Option Nat)) : Bool := symbolsOKFrom syms 0 syms

/-- folding ranges as (startLine, endLine) -/
def foldsOK (lineCount : Nat) (fs : List (Nat × Nat)) : Bool :=
  fs.all fun f => decide (f.1 ≤ f.2) && decide (f.2 < lineCount)

end LspShape
