/-!
# Flow family, part 1: the type algebra used by flow narrowing

Model of the fragment of `LuaType` that programs of the fragment language `F` can produce, and of the
operations the backward flow walk applies to it:

* `LuaType::from_vec`, `LuaUnionType::{from_vec,into_vec}` (`db_index/type/types/{predicates,complex}.rs`,
  `db_index/type/basic_union.rs`)                                   → `fromVec`, `mkUnion`
* `TypeOps::Union` (`type_ops/union_type.rs`)                        → `unionTy`
* `TypeOps::Remove` (`type_ops/remove_type.rs`, `type_ops/mod.rs`)   → `removeApply`
* `TypeOps::Intersect` with a `nil`/literal target (`type_ops/intersect_type.rs`) → `intersectTy`
* `narrow_down_type` (`narrow/narrow_type/mod.rs`)                   → `narrowDown`
* `remove_false_or_nil`, `narrow_false_or_nil` (`narrow_type/false_or_nil_type.rs`)
* `narrow_type_guard` / `remove_type_guard`, `narrow_eq_condition` (`condition_flow/{mod,binary_flow}.rs`)

A type is the list of its members in `into_vec` order; a one-element list is a non-union type, a list
of two or more members is a `LuaType::Union`. Import-free.
-/
namespace Flow

/-- non-union `LuaType`s reachable in `F` -/
inductive Atom where
  | unknown | nil | table | boolean | string | integer | number | never
  | boolC (b : Bool) | intC (n : Nat) | fltC (k : Nat) | strC (s : Nat) | tblC (id : Nat)
  deriving DecidableEq, Repr, Inhabited

abbrev Ty := List Atom

namespace Atom

/-- `BasicTypeKind::from_type(..).is_some()` -/
def isBasic : Atom → Bool
  | unknown | nil | table | boolean | string | integer | number | never => true
  | _ => false

def isNumber : Atom → Bool
  | number | integer | intC _ | fltC _ => true
  | _ => false

def isString : Atom → Bool
  | string | strC _ => true
  | _ => false

def isBoolean : Atom → Bool
  | boolean | boolC _ => true
  | _ => false

end Atom

/-- members of a `BasicTypeUnion` come out in `BasicTypeKind` order -/
def basicOrder : List Atom :=
  [.unknown, .nil, .table, .boolean, .string, .integer, .number, .never]

/-- `LuaUnionType::from_vec(as).into_vec()` -/
def mkUnion (as : List Atom) : Ty :=
  if as.all Atom.isBasic then basicOrder.filter (fun b => as.contains b)
  else if as.length == 2 && as.contains .nil then
    match as.find? (fun a => a != .nil) with
    | some t => [t, .nil]
    | none => as
  else as

/-- first occurrences, in order (the `HashSet` filter of `LuaType::from_vec`) -/
def dedup : List Atom → List Atom
  | [] => []
  | a :: r => a :: (dedup r).filter (fun b => b != a)

/-- `LuaType::from_vec` -/
def fromVec (ts : List Ty) : Ty :=
  match ts with
  | [] => [.nil]
  | [t] => t
  | _ =>
    match dedup ts.flatten with
    | [] => [.nil]
    | [a] => [a]
    | as => mkUnion as

/-- `LuaType::from_vec` on a vector of non-union types -/
def fromAtoms (as : List Atom) : Ty := fromVec (as.map fun a => [a])

def isNever (t : Ty) : Bool := t == [.never]
def isUnknown (t : Ty) : Bool := t == [.unknown]

/-- `LuaType == LuaType`: members are distinct and the `LuaUnionType` variant is a function of the member
set, so equality is mutual inclusion (`Multi` compares as sets) -/
def tyEq (a b : Ty) : Bool := a.all (fun x => b.contains x) && b.all (fun x => a.contains x)

/-- `union_type_impl` on two non-union types -/
def unionAtom (l r : Atom) : Ty :=
  match l, r with
  | .never, _ => [r]
  | _, .never => [l]
  | .integer, .intC _ => [.integer]
  | .intC _, .integer => [.integer]
  | _, _ =>
    if l == .number && r.isNumber then [.number]
    else if r == .number && l.isNumber then [.number]
    else match l, r with
    | .string, .strC _ => [.string]
    | .strC _, .string => [.string]
    | _, _ =>
      if l == .boolean && r.isBoolean then [.boolean]
      else if r == .boolean && l.isBoolean then [.boolean]
      else match l, r with
      | .boolC a, .boolC b => if a == b then [l] else [.boolean]
      | .table, .tblC _ => [.table]
      | .tblC _, .table => [.table]
      | _, _ => if l == r then [l] else fromAtoms [l, r]

/-- `TypeOps::Union.apply` -/
def unionTy (s t : Ty) : Ty :=
  match s, t with
  | [l], [r] => unionAtom l r
  | _, [r] =>
    if r == .never then s
    else if s.contains r then s else mkUnion (s ++ [r])
  | [l], _ =>
    if l == .never then t
    else if t.contains l then t else mkUnion (t ++ [l])
  | _, _ => if tyEq s t then s else fromVec [s, t]

/-- `remove_false_or_nil` on a non-union member: `none` = dropped -/
def truthyAtom : Atom → Option Atom
  | .nil => none
  | .boolC false => none
  | .boolean => some (.boolC true)
  | a => some a

/-- `remove_false_or_nil` -/
def removeFalseOrNil (t : Ty) : Ty :=
  match t with
  | [.nil] => [.unknown]
  | [.boolC false] => [.unknown]
  | [.boolean] => [.boolC true]
  | [a] => [a]
  | _ => fromAtoms (t.filterMap truthyAtom)

/-- `narrow_down_type(source, target, None)` for non-union source and target -/
def ndAtom (s t : Atom) : Option Atom :=
  if s == t then some s else
  match t with
  | .number => if s.isNumber then some s else none
  | .integer => (match s with | .integer | .intC _ => some s | _ => none)
  | .string => if s.isString then some s else none
  | .boolean => if s.isBoolean then some s else none
  | .table =>
    (match s with
     | .tblC _ => some s
     | .table | .unknown => some .table
     | _ => none)
  | .nil => none
  | .unknown => some s
  | .fltC f => if s.isNumber then some .number else if s == .unknown then some (.fltC f) else none
  | .intC _ =>
    (match s with
     | .number | .integer | .unknown | .intC _ => some .integer
     | _ => none)
  | .strC _ =>
    (match s with
     | .string | .unknown | .strC _ => some .string
     | _ => none)
  | .tblC id =>
    (match s with
     | .tblC sid => some (.tblC sid)
     | .table | .unknown => some (.tblC id)
     | _ => none)
  | .boolC b => if s.isBoolean then some .boolean else if s == .unknown then some (.boolC b) else none
  | .never => none

/-- `narrow_down_type(source, target, None)` with a non-union target -/
def narrowDown (s : Ty) (t : Atom) : Option Ty :=
  match s with
  | [a] => (ndAtom a t).map fun r => [r]
  | _ =>
    match s.filterMap (fun a => ndAtom a t) with
    | [] => none
    | rs => some (fromAtoms rs)

/-- `narrow_false_or_nil` on a non-union member -/
def falsyAtom : Atom → Atom
  | .boolean => .boolC false
  | .nil => .nil
  | .boolC false => .boolC false
  | a => (ndAtom a .nil).getD .never

/-- `narrow_false_or_nil` -/
def narrowFalseOrNil (t : Ty) : Ty :=
  match t with
  | [a] => [falsyAtom a]
  | _ => fromAtoms ((t.map falsyAtom).filter fun a => a != .never)

/-- `remove_type(source, removed)` for a non-union source and a basic `removed`; `none` = removed entirely -/
def removeAtom (s r : Atom) : Option Atom :=
  if s == r then (match s with | .intC _ => some .integer | .fltC _ => some .number | _ => none) else
  match r with
  | .nil => some s
  | .boolean => if s.isBoolean then none else some s
  | .integer => (match s with | .integer | .intC _ => none | _ => some s)
  | .number => if s.isNumber then none else some s
  | .string => if s.isString then none else some s
  | .table => (match s with | .tblC _ | .table => none | _ => some s)
  | _ => some s

/-- `TypeOps::Remove.apply(source, removed)` with a non-union `removed` -/
def removeApply (s : Ty) (r : Atom) : Ty :=
  match s with
  | [a] =>
    (match removeAtom a r with
     | some x => [x]
     | none => if a == .nil then [.never] else [a])
  | _ => fromAtoms (s.filterMap fun a => removeAtom a r)

/-- `narrow_type_guard(t, guard).unwrap_or(guard)` (true edge of `type(x) == "guard"`) -/
def guardTrue (t : Ty) (g : Atom) : Ty := (narrowDown t g).getD [g]

/-- `remove_type_guard` on a non-union member -/
def guardFalseAtom (a g : Atom) : Ty :=
  if ndAtom a g == some a then [.never] else removeApply [a] g

/-- `remove_type_guard` (false edge of `type(x) == "guard"`) -/
def guardFalse (t : Ty) (g : Atom) : Ty :=
  match t with
  | [a] => guardFalseAtom a g
  | _ => fromVec ((t.map fun a => guardFalseAtom a g).filter fun m => !isNever m)

/-- `intersect_type(source, target)` for a non-union source and a target that is `nil` or a literal type -/
def intersectAtom (s e : Atom) : Atom :=
  match s, e with
  | .never, _ => .never
  | .unknown, _ => e
  | .integer, .intC i => .intC i
  | _, _ =>
    if s == .number && e.isNumber then .number
    else match s, e with
    | .string, .strC k => .strC k
    | .boolean, .boolC b => .boolC b
    | _, _ => if s == e then s else .never

/-- `TypeOps::Intersect.apply(source, target)` with such a target -/
def intersectTy (t : Ty) (e : Atom) : Ty :=
  match t with
  | [a] => [intersectAtom a e]
  | _ =>
    match (t.map fun a => intersectAtom a e).filter (fun a => a != .never) with
    | [] => [.never]
    | rs => fromAtoms rs

/-- `narrow_eq_condition(antecedent, right, flow, false)` where `right` is `nil` or a literal type -/
def eqLit (t : Ty) (e : Atom) (flow : Bool) : Ty :=
  if flow then
    let i := intersectTy t e
    if isNever i then t else i
  else removeApply t e

/-! ### assignment from a variable: right-hand sides that are arbitrary types -/

/-- `is_exact_assignment_expr_type` on a member -/
def Atom.isExact : Atom → Bool
  | .nil | .boolC _ | .intC _ | .fltC _ | .strC _ => true
  | _ => false

/-- `preserves_assignment_expr_type`: a table constant, or `nil`/literal types and unions of them -/
def preserves (t : Ty) : Bool :=
  (match t with | [.tblC _] => true | _ => false) || t.all Atom.isExact

/-- `can_use_structural_union` (`type_ops/union_type.rs`): no pairwise union rule can apply to the batch -/
def canUseStructural (ts : List Ty) : Bool :=
  ts.all (fun t => t.length == 1) &&
  (let as := ts.flatten
   let hasNumber := as.contains .number
   let variant := as.any fun a => match a with | .integer | .intC _ | .fltC _ => true | _ => false
   let hasInteger := as.contains .integer
   let hasIntC := as.any fun a => match a with | .intC _ => true | _ => false
   let hasString := as.contains .string
   let hasStrC := as.any fun a => match a with | .strC _ => true | _ => false
   let hasBoolean := as.contains .boolean
   let boolCs := (as.filter fun a => match a with | .boolC _ => true | _ => false).length
   let hasTable := as.contains .table
   let hasTblC := as.any fun a => match a with | .tblC _ => true | _ => false
   !(hasNumber && variant || hasInteger && hasIntC || hasString && hasStrC || hasBoolean && boolCs > 0 ||
     boolCs > 1 || hasTable && hasTblC))

/-- `TypeOps::union_all` -/
def unionAll (ts : List Ty) : Ty :=
  let ts' := ts.filter fun t => !isNever t
  if ts'.isEmpty then [.never]
  else if canUseStructural ts' then fromVec ts'
  else ts'.foldl unionTy [.never]

/-- `narrow_down_type(source, target, None)` for an arbitrary target (a union target keeps the members that narrow) -/
def narrowDownTy (s : Ty) (t : Ty) : Option Ty :=
  match t with
  | [e] => narrowDown s e
  | _ =>
    if tyEq s t then some s
    else match t.filterMap (fun e => narrowDown s e) with
      | [] => none
      | parts => some (unionAll parts)

end Flow
