import EmmyVerif.Gen.ClimbTable
/-!
# `Climb` — model of the Lua expression parser (`grammar/lua/expr.rs`)

`parse_sub_expr` (precedence climbing over `PRIORITY` / `UNARY_PRIORITY`), `parse_simple_expr`,
`parse_suffixed_expr` (suffix loop) and `parse_args` as total functions on lists of token kinds
(`Gen.Climb.Tok` = every `LuaTokenKind`, regenerated from /repo). Trivia tokens are assumed removed
(the real parser skips them in `bump`). The functions take fuel; `climb` supplies `4·|tokens| + 8`.

Modelled exactly: literals, names, parentheses, unary and binary operators, `.name`, `[e]`, `f(args)`,
`o:m(args)`, string and table call arguments (`f "s"`, `f{…}`), table constructors (positional, `name = e`,
`[k] = e` fields, `,`/`;` separators, trailing separator) and closures with an empty body
(`function(a, b, ...) end`). Reported as `unsupported` (not compared by the tie): closures with a body (the
statement grammar is not modelled), named varargs, and the LuaJIT-fork extensions (ternary, `?.`, short
functions).
The model answers `ok tree` exactly when the real parser produces that tree with no error;
error *recovery* of the real parser is not modelled (any failure is `syntax`).
-/
namespace Climb
open Gen.Climb (Tok UnOp BinOp)

/-- operator tables the parser consults (`LuaOpKind::to_unary_operator`, `to_binary_operator`,
`PRIORITY`, `UNARY_PRIORITY`) -/
structure Table where
  unaryOf : Tok → UnOp
  binaryOf : Tok → BinOp
  left : BinOp → Int
  right : BinOp → Int
  unaryPrio : Int

/-- the table regenerated from the source on every run. The `OpNop` slot of `PRIORITY` is never read by
`parse_sub_expr` (the guard `bop == OpNop ||` comes first) and is normalised to 0 here, so the comparison
with the hand-written table does not depend on what that unused slot holds. -/
def genTable : Table :=
  { unaryOf := Gen.Climb.unaryOf, binaryOf := Gen.Climb.binaryOf,
    left := fun op => if op = .OpNop then 0 else Gen.Climb.prioLeft op,
    right := fun op => if op = .OpNop then 0 else Gen.Climb.prioRight op,
    unaryPrio := Gen.Climb.unaryPriority }

mutual
/-- abstract syntax of the modelled expressions; identifiers and literal texts are abstracted to their
token kind -/
inductive Expr
  | lit (t : Tok)                    -- LiteralExpr
  | name                             -- NameExpr
  | paren (e : Expr)                 -- ParenExpr
  | un (op : UnOp) (e : Expr)        -- UnaryExpr
  | bin (op : BinOp) (l r : Expr)    -- BinaryExpr
  | dot (e : Expr)                   -- IndexExpr  e.Name
  | idx (e k : Expr)                 -- IndexExpr  e[k]
  | call (f : Expr) (as : Args)      -- CallExpr   f(args)
  | mcall (o : Expr) (as : Args)     -- CallExpr(IndexExpr o:Name, args)
  | table (fs : Fields)              -- TableEmptyExpr / TableArrayExpr / TableObjectExpr
  | closure (n : Nat) (va : Bool)    -- ClosureExpr: n named parameters, optional `...`, empty body
inductive Args
  | nil
  | cons (e : Expr) (rest : Args)
inductive Fields
  | nil
  | cons (f : Field) (rest : Fields)
inductive Field
  | pos (e : Expr)                   -- TableFieldValue   e
  | named (e : Expr)                 -- TableFieldAssign  Name = e
  | keyed (k e : Expr)               -- TableFieldAssign  [k] = e
end

inductive Err | syntax | unsupported | fuel
  deriving DecidableEq, Repr

abbrev Res := Except Err (Expr × List Tok)

/-- tokens of `parse_simple_expr`'s literal arm -/
def isLiteral : Tok → Bool
  | .TkInt | .TkFloat | .TkComplex | .TkNil | .TkTrue | .TkFalse | .TkDots | .TkString | .TkLongString => true
  | _ => false

/-- primary-position tokens whose parse is not modelled (short functions of the LuaJIT fork) -/
def unsupportedPrimary : Tok → Bool
  | .TkLogicalOr | .TkBitOr => true
  | _ => false

/-- `parse_param_list` after `(`, at a parameter position with `n` names read: number of names, vararg, rest
after `)` -/
def paramList : List Tok → Nat → Except Err (Nat × Bool × List Tok)
  | [], _ => .error .syntax
  | t :: r, n =>
    if t = .TkName then
      match r with
      | [] => .error .syntax
      | t2 :: r2 =>
        if t2 = .TkComma then
          (if r2.head? = some .TkRightParen then .error .syntax else paramList r2 (n + 1))
        else if t2 = .TkRightParen then .ok (n + 1, false, r2)
        else .error .syntax
    else if t = .TkDots then
      match r with
      | [] => .error .syntax
      | t2 :: r2 =>
        if t2 = .TkRightParen then .ok (n, true, r2)
        else if t2 = .TkName then .error .unsupported      -- named vararg (feature dependent)
        else .error .syntax
    else .error .syntax

/-- tokens that continue a prefix expression in `parse_suffixed_expr` -/
def isSuffixStart : Tok → Bool
  | .TkDot | .TkLeftBracket | .TkColon | .TkLeftParen | .TkLeftBrace | .TkString | .TkLongString
  | .TkSafeNavigation => true
  | _ => false

/-- call-argument starts that are not modelled (string / table arguments, `?.`) -/
def unsupportedArgStart : Tok → Bool
  | .TkSafeNavigation => true
  | _ => false

def isStringTok : Tok → Bool
  | .TkString | .TkLongString => true
  | _ => false

variable (T : Table)

mutual
/-- `parse_sub_expr(p, limit)` -/
def sub : Nat → Int → List Tok → Res
  | 0, _, _ => .error .fuel
  | _ + 1, _, [] => .error .syntax
  | f + 1, limit, t :: ts =>
    if T.unaryOf t ≠ .OpNop then
      match sub f T.unaryPrio ts with
      | .ok (x, r) => loop f limit (.un (T.unaryOf t) x) r
      | .error e => .error e
    else if isLiteral t then loop f limit (.lit t) ts
    else if t = .TkName then
      if ts.head? = some .TkArrow then .error .unsupported   -- short function (LuaJIT fork)
      else suffix f limit .name ts
    else if t = .TkLeftParen then
      match sub f 0 ts with
      | .ok (x, r) =>
        if r.head? = some .TkRightParen then suffix f limit (.paren x) r.tail else .error .syntax
      | .error e => .error e
    else if t = .TkLeftBrace then
      match tableP f ts with
      | .ok (fs, r) => loop f limit (.table fs) r
      | .error e => .error e
    else if t = .TkFunction then
      -- `parse_closure_expr`: parameter list, then `end` (a body needs the statement grammar)
      (if ts.head? = some .TkLeftParen then
        (if ts.tail.head? = some .TkRightParen then
          (if ts.tail.tail.head? = some .TkEnd then loop f limit (.closure 0 false) ts.tail.tail.tail
           else .error .unsupported)
         else
          match paramList ts.tail 0 with
          | .ok (n, va, r) => if r.head? = some .TkEnd then loop f limit (.closure n va) r.tail else .error .unsupported
          | .error e => .error e)
       else .error .syntax)
    else if unsupportedPrimary t then .error .unsupported
    else .error .syntax
/-- the binary-operator loop of `parse_sub_expr` with the completed left operand `cm` -/
def loop : Nat → Int → Expr → List Tok → Res
  | 0, _, _, _ => .error .fuel
  | _ + 1, _, cm, [] => .ok (cm, [])
  | f + 1, limit, cm, t :: ts =>
    if t = .TkTernary then .error .unsupported
    else if T.binaryOf t = .OpNop ∨ T.left (T.binaryOf t) ≤ limit then .ok (cm, t :: ts)
    else
      match sub f (T.right (T.binaryOf t)) ts with
      | .ok (r, rest) => loop f limit (.bin (T.binaryOf t) cm r) rest
      | .error e => .error e
/-- the suffix loop of `parse_suffixed_expr` with the completed prefix `cm`; when no suffix follows,
control returns (through `parse_simple_expr`) to the operator loop of the calling `parse_sub_expr` -/
def suffix : Nat → Int → Expr → List Tok → Res
  | 0, _, _, _ => .error .fuel
  | f + 1, limit, cm, [] => loop f limit cm []
  | f + 1, limit, cm, t :: r =>
    if t = .TkDot then
      if r.head? = some .TkName then suffix f limit (.dot cm) r.tail else .error .syntax
    else if t = .TkLeftBracket then
      match sub f 0 r with
      | .ok (k, r') =>
        if r'.head? = some .TkRightBracket then suffix f limit (.idx cm k) r'.tail else .error .syntax
      | .error e => .error e
    else if t = .TkColon then
      if r.head? = some .TkName then
        match r.tail with
        | [] => .error .syntax
        | t2 :: r2 =>
          if t2 = .TkLeftParen then
            if r2.head? = some .TkRightParen then suffix f limit (.mcall cm .nil) r2.tail
            else
              match args f r2 with
              | .ok (as, r') => suffix f limit (.mcall cm as) r'
              | .error e => .error e
          else if isStringTok t2 then suffix f limit (.mcall cm (.cons (.lit t2) .nil)) r2
          else if t2 = .TkLeftBrace then
            match tableP f r2 with
            | .ok (fs, r') => suffix f limit (.mcall cm (.cons (.table fs) .nil)) r'
            | .error e => .error e
          else if unsupportedArgStart t2 then .error .unsupported
          else .error .syntax
      else .error .syntax
    else if t = .TkLeftParen then
      if r.head? = some .TkRightParen then suffix f limit (.call cm .nil) r.tail
      else
        match args f r with
        | .ok (as, r') => suffix f limit (.call cm as) r'
        | .error e => .error e
    else if isStringTok t then suffix f limit (.call cm (.cons (.lit t) .nil)) r
    else if t = .TkLeftBrace then
      match tableP f r with
      | .ok (fs, r') => suffix f limit (.call cm (.cons (.table fs) .nil)) r'
      | .error e => .error e
    else if unsupportedArgStart t then .error .unsupported
    else loop f limit cm (t :: r)
/-- the argument loop of `parse_args` after `(`, when the next token is not `)`; consumes the `)` -/
def args : Nat → List Tok → Except Err (Args × List Tok)
  | 0, _ => .error .fuel
  | f + 1, ts =>
    match sub f 0 ts with
    | .ok (e, r) =>
      if r.head? = some .TkComma then
        if r.tail.head? = some .TkRightParen then .error .syntax   -- "expected expression after ','"
        else
          match args f r.tail with
          | .ok (as, r') => .ok (.cons e as, r')
          | .error e => .error e
      else if r.head? = some .TkRightParen then .ok (.cons e .nil, r.tail)
      else .error .syntax
    | .error e => .error e
/-- `parse_table_expr` after `{`; consumes the `}` -/
def tableP : Nat → List Tok → Except Err (Fields × List Tok)
  | 0, _ => .error .fuel
  | f + 1, ts => if ts.head? = some .TkRightBrace then .ok (.nil, ts.tail) else fieldsP f ts
/-- the field loop at a field position; consumes the `}` -/
def fieldsP : Nat → List Tok → Except Err (Fields × List Tok)
  | 0, _ => .error .fuel
  | f + 1, ts =>
    match fieldP f ts with
    | .ok (fd, r) =>
      if r.head? = some .TkComma ∨ r.head? = some .TkSemicolon then
        if r.tail.head? = some .TkRightBrace then .ok (.cons fd .nil, r.tail.tail)   -- trailing separator
        else
          match fieldsP f r.tail with
          | .ok (fs, r') => .ok (.cons fd fs, r')
          | .error e => .error e
      else if r.head? = some .TkRightBrace then .ok (.cons fd .nil, r.tail)
      else .error .syntax
    | .error e => .error e
/-- `parse_field_with_recovery` (any pushed error = `syntax`) -/
def fieldP : Nat → List Tok → Except Err (Field × List Tok)
  | 0, _ => .error .fuel
  | f + 1, ts =>
    if ts.head? = some .TkLeftBracket then
      match sub f 0 ts.tail with
      | .ok (k, r) =>
        if r.head? = some .TkRightBracket ∧ r.tail.head? = some .TkAssign then
          match sub f 0 r.tail.tail with
          | .ok (e, r') => .ok (.keyed k e, r')
          | .error e => .error e
        else .error .syntax
      | .error e => .error e
    else if ts.head? = some .TkName ∧ ts.tail.head? = some .TkAssign then
      match sub f 0 ts.tail.tail with
      | .ok (e, r) => .ok (.named e, r)
      | .error e => .error e
    else if ts.head? = some .TkLocal ∨ ts.head? = none then .error .syntax
    else
      match sub f 0 ts with
      | .ok (e, r) => .ok (.pos e, r)
      | .error e => .error e
end

/-- `parse_expr` on a complete token list: the whole list must be one expression -/
def climb (ts : List Tok) : Except Err Expr :=
  match sub T (4 * ts.length + 8) 0 ts with
  | .ok (e, []) => .ok e
  | .ok _ => .error .syntax
  | .error e => .error e

/-! ## Reference unparser -/

/-- the token written for a unary operator -/
def unTok : UnOp → Tok
  | .OpNot => .TkNot | .OpLen => .TkLen | .OpUnm => .TkMinus | .OpBNot => .TkBitXor | .OpNop => .None

/-- the token written for a binary operator -/
def binTok : BinOp → Tok
  | .OpAdd => .TkPlus | .OpSub => .TkMinus | .OpMul => .TkMul | .OpDiv => .TkDiv | .OpIDiv => .TkIDiv
  | .OpMod => .TkMod | .OpPow => .TkPow | .OpBAnd => .TkBitAnd | .OpBOr => .TkBitOr | .OpBXor => .TkBitXor
  | .OpShl => .TkShl | .OpShr => .TkShr | .OpShrAthrimetic => .TkShrArithmetic | .OpConcat => .TkConcat
  | .OpLt => .TkLt | .OpLe => .TkLe | .OpGt => .TkGt | .OpGe => .TkGe | .OpEq => .TkEq | .OpNe => .TkNe
  | .OpAnd => .TkAnd | .OpOr => .TkOr | .OpNilCoalescing => .TkNilCoalescing | .OpNop => .None

/-- the tokens of a parameter list: `n` names separated by commas, then `...` if `va` -/
def paramToks : Nat → Bool → List Tok
  | 0, false => []
  | 0, true => [.TkDots]
  | n + 1, va => .TkName :: (if n = 0 ∧ va = false then [] else .TkComma :: paramToks n va)

mutual
/-- reference unparser: writes exactly the parentheses that are `paren` nodes -/
def flat : Expr → List Tok
  | .lit t => [t]
  | .name => [.TkName]
  | .paren e => .TkLeftParen :: (flat e ++ [.TkRightParen])
  | .un op e => unTok op :: flat e
  | .bin op l r => flat l ++ binTok op :: flat r
  | .dot e => flat e ++ [.TkDot, .TkName]
  | .idx e k => flat e ++ .TkLeftBracket :: (flat k ++ [.TkRightBracket])
  | .call f as => flat f ++ .TkLeftParen :: (flatArgs as ++ [.TkRightParen])
  | .mcall o as => flat o ++ .TkColon :: .TkName :: .TkLeftParen :: (flatArgs as ++ [.TkRightParen])
  | .table fs => .TkLeftBrace :: (flatFields fs ++ [.TkRightBrace])
  | .closure n va => .TkFunction :: .TkLeftParen :: (paramToks n va ++ [.TkRightParen, .TkEnd])
def flatArgs : Args → List Tok
  | .nil => []
  | .cons e .nil => flat e
  | .cons e (.cons e' r) => flat e ++ .TkComma :: flatArgs (.cons e' r)
def flatFields : Fields → List Tok
  | .nil => []
  | .cons f .nil => flatField f
  | .cons f (.cons f' r) => flatField f ++ .TkComma :: flatFields (.cons f' r)
def flatField : Field → List Tok
  | .pos e => flat e
  | .named e => .TkName :: .TkAssign :: flat e
  | .keyed k e => .TkLeftBracket :: (flat k ++ .TkRightBracket :: .TkAssign :: flat e)
end

/-! ## Canonical S-expression (the tie compares it with the real tree) -/

/-- constructor name without its namespace (`Gen.Climb.Tok.TkInt` ↦ `TkInt`) -/
def short {α} [Repr α] (a : α) : String := ((reprStr a).splitOn ".").getLastD ""

mutual
def sexpr : Expr → String
  | .lit t => s!"(lit {short t})"
  | .name => "name"
  | .paren e => s!"(paren {sexpr e})"
  | .un op e => s!"(un {short op} {sexpr e})"
  | .bin op l r => s!"(bin {short op} {sexpr l} {sexpr r})"
  | .dot e => s!"(dot {sexpr e})"
  | .idx e k => s!"(idx {sexpr e} {sexpr k})"
  | .call f as => s!"(call {sexpr f}{sexprArgs as})"
  | .mcall o as => s!"(call (colon {sexpr o}){sexprArgs as})"
  | .table fs => s!"(table{sexprFields fs})"
  | .closure n va => s!"(closure {n} {if va then 1 else 0})"
def sexprArgs : Args → String
  | .nil => ""
  | .cons e r => " " ++ sexpr e ++ sexprArgs r
def sexprFields : Fields → String
  | .nil => ""
  | .cons f r => " " ++ sexprField f ++ sexprFields r
def sexprField : Field → String
  | .pos e => s!"(pos {sexpr e})"
  | .named e => s!"(named {sexpr e})"
  | .keyed k e => s!"(keyed {sexpr k} {sexpr e})"
end

end Climb
