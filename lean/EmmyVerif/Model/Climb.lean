import EmmyVerif.Gen.ClimbTable
/-!
# `Climb` — model of the Lua expression parser (`grammar/lua/expr.rs`)

`parse_sub_expr` (precedence climbing over `PRIORITY` / `UNARY_PRIORITY`), `parse_simple_expr`,
`parse_suffixed_expr` (suffix loop) and `parse_args` as total functions on lists of token kinds
(`Gen.Climb.Tok` = every `LuaTokenKind`, regenerated from /repo). Trivia tokens are assumed removed
(the real parser skips them in `bump`). The functions take fuel; `climb` supplies `2·|tokens| + 2`.

Modelled exactly: literals, names, parentheses, unary and binary operators, `.name`, `[e]`, `f(args)`,
`o:m(args)`. Reported as `unsupported` (not compared by the tie): table constructors, closures,
string/table call arguments, and the LuaJIT-fork extensions (ternary, `?.`, short functions).
The model answers `ok tree` exactly when the real parser produces that tree with no error;
error *recovery* of the real parser is not modelled (any failure is `syntax`).
-/
namespace Climb
open Gen.Climb (Tok UnOp BinOp)

/-- operator tables the parser consults (`LuaOpKind::to_unary_operator`, `to_binary_operator`,
`PRIORITY`, `UNARY_PRIORITY`) -/
structure Table where
  unaryOf : Tok → UnOp
  binaryOf : Tok → BinOp
  left : BinOp → Int
  right : BinOp → Int
  unaryPrio : Int

/-- the table regenerated from the source on every run. The `OpNop` slot of `PRIORITY` is never read by
`parse_sub_expr` (the guard `bop == OpNop ||` comes first) and is normalised to 0 here, so the comparison
with the hand-written table does not depend on what that unused slot holds. -/
def genTable : Table :=
  { unaryOf := Gen.Climb.unaryOf, binaryOf := Gen.Climb.binaryOf,
    left := fun op => if op = .OpNop then 0 else Gen.Climb.prioLeft op,
    right := fun op => if op = .OpNop then 0 else Gen.Climb.prioRight op,
    unaryPrio := Gen.Climb.unaryPriority }

mutual
/-- abstract syntax of the modelled expressions; identifiers and literal texts are abstracted to their
token kind -/
inductive Expr
  | lit (t : Tok)                    -- LiteralExpr
  | name                             -- NameExpr
  | paren (e : Expr)                 -- ParenExpr
  | un (op : UnOp) (e : Expr)        -- UnaryExpr
  | bin (op : BinOp) (l r : Expr)    -- BinaryExpr
  | dot (e : Expr)                   -- IndexExpr  e.Name
  | idx (e k : Expr)                 -- IndexExpr  e[k]
  | call (f : Expr) (as : Args)      -- CallExpr   f(args)
  | mcall (o : Expr) (as : Args)     -- CallExpr(IndexExpr o:Name, args)
inductive Args
  | nil
  | cons (e : Expr) (rest : Args)
end

inductive Err | syntax | unsupported | fuel
  deriving DecidableEq, Repr

abbrev Res := Except Err (Expr × List Tok)

/-- tokens of `parse_simple_expr`'s literal arm -/
def isLiteral : Tok → Bool
  | .TkInt | .TkFloat | .TkComplex | .TkNil | .TkTrue | .TkFalse | .TkDots | .TkString | .TkLongString => true
  | _ => false

/-- primary-position tokens whose parse is not modelled -/
def unsupportedPrimary : Tok → Bool
  | .TkLeftBrace | .TkFunction | .TkLogicalOr | .TkBitOr => true
  | _ => false

/-- tokens that continue a prefix expression in `parse_suffixed_expr` -/
def isSuffixStart : Tok → Bool
  | .TkDot | .TkLeftBracket | .TkColon | .TkLeftParen | .TkLeftBrace | .TkString | .TkLongString
  | .TkSafeNavigation => true
  | _ => false

/-- call-argument starts that are not modelled (string / table arguments, `?.`) -/
def unsupportedArgStart : Tok → Bool
  | .TkLeftBrace | .TkString | .TkLongString | .TkSafeNavigation => true
  | _ => false

variable (T : Table)

mutual
/-- `parse_sub_expr(p, limit)` -/
def sub : Nat → Int → List Tok → Res
  | 0, _, _ => .error .fuel
  | _ + 1, _, [] => .error .syntax
  | f + 1, limit, t :: ts =>
    if T.unaryOf t ≠ .OpNop then
      match sub f T.unaryPrio ts with
      | .ok (x, r) => loop f limit (.un (T.unaryOf t) x) r
      | .error e => .error e
    else if isLiteral t then loop f limit (.lit t) ts
    else if t = .TkName then
      if ts.head? = some .TkArrow then .error .unsupported   -- short function (LuaJIT fork)
      else suffix f limit .name ts
    else if t = .TkLeftParen then
      match sub f 0 ts with
      | .ok (x, r) =>
        if r.head? = some .TkRightParen then suffix f limit (.paren x) r.tail else .error .syntax
      | .error e => .error e
    else if unsupportedPrimary t then .error .unsupported
    else .error .syntax
/-- the binary-operator loop of `parse_sub_expr` with the completed left operand `cm` -/
def loop : Nat → Int → Expr → List Tok → Res
  | 0, _, _, _ => .error .fuel
  | _ + 1, _, cm, [] => .ok (cm, [])
  | f + 1, limit, cm, t :: ts =>
    if t = .TkTernary then .error .unsupported
    else if T.binaryOf t = .OpNop ∨ T.left (T.binaryOf t) ≤ limit then .ok (cm, t :: ts)
    else
      match sub f (T.right (T.binaryOf t)) ts with
      | .ok (r, rest) => loop f limit (.bin (T.binaryOf t) cm r) rest
      | .error e => .error e
/-- the suffix loop of `parse_suffixed_expr` with the completed prefix `cm`; when no suffix follows,
control returns (through `parse_simple_expr`) to the operator loop of the calling `parse_sub_expr` -/
def suffix : Nat → Int → Expr → List Tok → Res
  | 0, _, _, _ => .error .fuel
  | f + 1, limit, cm, [] => loop f limit cm []
  | f + 1, limit, cm, t :: r =>
    if t = .TkDot then
      if r.head? = some .TkName then suffix f limit (.dot cm) r.tail else .error .syntax
    else if t = .TkLeftBracket then
      match sub f 0 r with
      | .ok (k, r') =>
        if r'.head? = some .TkRightBracket then suffix f limit (.idx cm k) r'.tail else .error .syntax
      | .error e => .error e
    else if t = .TkColon then
      if r.head? = some .TkName then
        match r.tail with
        | [] => .error .syntax
        | t2 :: r2 =>
          if t2 = .TkLeftParen then
            if r2.head? = some .TkRightParen then suffix f limit (.mcall cm .nil) r2.tail
            else
              match args f r2 with
              | .ok (as, r') => suffix f limit (.mcall cm as) r'
              | .error e => .error e
          else if unsupportedArgStart t2 then .error .unsupported
          else .error .syntax
      else .error .syntax
    else if t = .TkLeftParen then
      if r.head? = some .TkRightParen then suffix f limit (.call cm .nil) r.tail
      else
        match args f r with
        | .ok (as, r') => suffix f limit (.call cm as) r'
        | .error e => .error e
    else if unsupportedArgStart t then .error .unsupported
    else loop f limit cm (t :: r)
/-- the argument loop of `parse_args` after `(`, when the next token is not `)`; consumes the `)` -/
def args : Nat → List Tok → Except Err (Args × List Tok)
  | 0, _ => .error .fuel
  | f + 1, ts =>
    match sub f 0 ts with
    | .ok (e, r) =>
      if r.head? = some .TkComma then
        if r.tail.head? = some .TkRightParen then .error .syntax   -- "expected expression after ','"
        else
          match args f r.tail with
          | .ok (as, r') => .ok (.cons e as, r')
          | .error e => .error e
      else if r.head? = some .TkRightParen then .ok (.cons e .nil, r.tail)
      else .error .syntax
    | .error e => .error e
end

/-- `parse_expr` on a complete token list: the whole list must be one expression -/
def climb (ts : List Tok) : Except Err Expr :=
  match sub T (2 * ts.length + 2) 0 ts with
  | .ok (e, []) => .ok e
  | .ok _ => .error .syntax
  | .error e => .error e

/-! ## Reference unparser -/

/-- the token written for a unary operator -/
def unTok : UnOp → Tok
  | .OpNot => .TkNot | .OpLen => .TkLen | .OpUnm => .TkMinus | .OpBNot => .TkBitXor | .OpNop => .None

/-- the token written for a binary operator -/
def binTok : BinOp → Tok
  | .OpAdd => .TkPlus | .OpSub => .TkMinus | .OpMul => .TkMul | .OpDiv => .TkDiv | .OpIDiv => .TkIDiv
  | .OpMod => .TkMod | .OpPow => .TkPow | .OpBAnd => .TkBitAnd | .OpBOr => .TkBitOr | .OpBXor => .TkBitXor
  | .OpShl => .TkShl | .OpShr => .TkShr | .OpShrAthrimetic => .TkShrArithmetic | .OpConcat => .TkConcat
  | .OpLt => .TkLt | .OpLe => .TkLe | .OpGt => .TkGt | .OpGe => .TkGe | .OpEq => .TkEq | .OpNe => .TkNe
  | .OpAnd => .TkAnd | .OpOr => .TkOr | .OpNilCoalescing => .TkNilCoalescing | .OpNop => .None

mutual
/-- reference unparser: writes exactly the parentheses that are `paren` nodes -/
def flat : Expr → List Tok
  | .lit t => [t]
  | .name => [.TkName]
  | .paren e => .TkLeftParen :: (flat e ++ [.TkRightParen])
  | .un op e => unTok op :: flat e
  | .bin op l r => flat l ++ binTok op :: flat r
  | .dot e => flat e ++ [.TkDot, .TkName]
  | .idx e k => flat e ++ .TkLeftBracket :: (flat k ++ [.TkRightBracket])
  | .call f as => flat f ++ .TkLeftParen :: (flatArgs as ++ [.TkRightParen])
  | .mcall o as => flat o ++ .TkColon :: .TkName :: .TkLeftParen :: (flatArgs as ++ [.TkRightParen])
def flatArgs : Args → List Tok
  | .nil => []
  | .cons e .nil => flat e
  | .cons e (.cons e' r) => flat e ++ .TkComma :: flatArgs (.cons e' r)
end

/-! ## Canonical S-expression (the tie compares it with the real tree) -/

/-- constructor name without its namespace (`Gen.Climb.Tok.TkInt` ↦ `TkInt`) -/
def short {α} [Repr α] (a : α) : String := ((reprStr a).splitOn ".").getLastD ""

mutual
def sexpr : Expr → String
  | .lit t => s!"(lit {short t})"
  | .name => "name"
  | .paren e => s!"(paren {sexpr e})"
  | .un op e => s!"(un {short op} {sexpr e})"
  | .bin op l r => s!"(bin {short op} {sexpr l} {sexpr r})"
  | .dot e => s!"(dot {sexpr e})"
  | .idx e k => s!"(idx {sexpr e} {sexpr k})"
  | .call f as => s!"(call {sexpr f}{sexprArgs as})"
  | .mcall o as => s!"(call (colon {sexpr o}){sexprArgs as})"
def sexprArgs : Args → String
  | .nil => ""
  | .cons e r => " " ++ sexpr e ++ sexprArgs r
end

end Climb
