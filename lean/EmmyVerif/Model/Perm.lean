/-! `Perm` family, executable part: a structurally recursive stable sort (insertion sort), so that models
using it evaluate under `decide` and in the compiled driver. Rust's `sort` / `sort_by` / `sort_by_key` are
stable sorts; a stable sort's result is unique, and on pairwise distinct keys *every* sort agrees. -/
namespace PermModel

/-- insert `a` before the first element `b` with `le a b` -/
def insertBy {α : Type} (le : α → α → Bool) (a : α) : List α → List α
  | [] => [a]
  | b :: l => if le a b then a :: b :: l else b :: insertBy le a l

/-- stable insertion sort -/
def isort {α : Type} (le : α → α → Bool) : List α → List α
  | [] => []
  | a :: l => insertBy le a (isort le l)

end PermModel
