import EmmyVerif.Model.Ty
/-!
# `Ty` family — generic instantiation for the template family of C18

`tplMatch`: `tpl_pattern_match` (`semantic/generic/tpl_pattern/mod.rs`) for patterns built from template
references, arrays, `table<K,V>`, optionals (`Union[T, nil]`) and parameterless function types: a
template reference takes the (whole) target type as its candidate unless it already has one
(`TypeSubstitutor::infer_value`); arrays / tables / functions descend into the matching component;
a union pattern with a `nil` member (`T?`) matches its other member against the target without `nil`.
`instantiate`: `instantiate_type_generic` — template references are replaced by their candidate,
resolved with `LiteralPolicy::FreshWidening` (`widen_literal_type` on the candidate itself).
-/
namespace TyM

inductive GTy
  /-- a type without template references and without structure relevant to matching -/
  | base (t : Ty)
  /-- `TplRef` with index `i` -/
  | v (i : Nat)
  | array (t : GTy)
  | tgen (k v : GTy)
  /-- `Union[t, nil]` -/
  | opt (t : GTy)
  /-- `fun(): ret` -/
  | fn (ret : GTy)
  /-- `[a, b]` -/
  | tup (a b : GTy)
  /-- `[a, b, c]` -/
  | tup3 (a b c : GTy)
  /-- `{k1: a, k2: b}` (keys in sorted order, as `object_tpl_pattern_match` visits them) -/
  | obj2 (k1 : Name) (a : GTy) (k2 : Name) (b : GTy)
  /-- `fun(x: p): r` -/
  | fn1 (p r : GTy)
deriving DecidableEq, Repr

abbrev Subst := List (Nat × GTy)

def Subst.get (s : Subst) (i : Nat) : Option GTy := (s.find? (fun p => p.1 = i)).map (·.2)

/-- `infer_value`: only an absent candidate is set -/
def Subst.infer (s : Subst) (i : Nat) (a : GTy) : Subst :=
  match s.get i with
  | some _ => s
  | none => s ++ [(i, a)]

/-- the target an optional pattern (`T?`) is matched against: the argument without its `nil`
(`union_tpl_pattern_match`; an argument that is only `nil`, or has no `nil`, is kept) -/
def stripNil : GTy → GTy
  | .opt x => x
  | .base (.union ms) =>
    let rest := ms.toList.filter (fun t => t ≠ Ty.tNil)
    if rest.isEmpty ∨ rest.length = ms.toList.length then .base (.union ms) else .base (fromVec rest)
  | g => g

/-- `tpl_pattern_match(pattern, target)` -/
def tplMatch : GTy → GTy → Subst → Subst
  | .v i, a, s => s.infer i a
  | .array p, .array a, s => tplMatch p a s
  | .tgen pk pv, .tgen ak av, s => tplMatch pv av (tplMatch pk ak s)
  | .opt p, a, s => tplMatch p (stripNil a) s
  | .fn pr, .fn ar, s => tplMatch pr ar s
  | .tup p1 p2, .tup a1 a2, s => tplMatch p2 a2 (tplMatch p1 a1 s)
  | .tup3 p1 p2 p3, .tup3 a1 a2 a3, s => tplMatch p3 a3 (tplMatch p2 a2 (tplMatch p1 a1 s))
  | .obj2 k1 p1 k2 p2, .obj2 j1 a1 j2 a2, s =>
    if k1 = j1 ∧ k2 = j2 then tplMatch p2 a2 (tplMatch p1 a1 s) else s
  | .fn1 pp pr, .fn1 ap ar, s => tplMatch pr ar (tplMatch pp ap s)
  | _, _, s => s

/-- `tpl_pattern_match_args` -/
def tplMatchArgs : List GTy → List GTy → Subst → Subst
  | p :: ps, a :: as, s => tplMatchArgs ps as (tplMatch p a s)
  | _, _, s => s

/-- `widen_literal_type` -/
def widenLit : Ty → Ty
  | .lit (.floatC _) => .prim .number
  | .lit (.docInt _) | .lit (.intC _) => .prim .integer
  | .lit (.docStr _) | .lit (.strC _) => .prim .string
  | .lit (.docBool _) | .lit (.boolC _) => .prim .boolean
  | t => t

def widen : GTy → GTy
  | .base t => .base (widenLit t)
  | g => g

/-- `instantiate_type_generic` -/
def instantiate : GTy → Subst → GTy
  | .base t, _ => .base t
  | .v i, s => match s.get i with
    | some a => widen a
    | none => .base (.prim .unknown)
  | .array t, s => .array (instantiate t s)
  | .tgen k v, s => .tgen (instantiate k s) (instantiate v s)
  | .opt t, s => .opt (instantiate t s)
  | .fn r, s => .fn (instantiate r s)
  | .tup a b, s => .tup (instantiate a s) (instantiate b s)
  | .tup3 a b c, s => .tup3 (instantiate a s) (instantiate b s) (instantiate c s)
  | .obj2 k1 a k2 b, s => .obj2 k1 (instantiate a s) k2 (instantiate b s)
  | .fn1 p r, s => .fn1 (instantiate p s) (instantiate r s)

/-- the substitution `p[σ]` on patterns -/
def gsubst (σ : Nat → GTy) : GTy → GTy
  | .base t => .base t
  | .v i => σ i
  | .array t => .array (gsubst σ t)
  | .tgen k v => .tgen (gsubst σ k) (gsubst σ v)
  | .opt t => .opt (gsubst σ t)
  | .fn r => .fn (gsubst σ r)
  | .tup a b => .tup (gsubst σ a) (gsubst σ b)
  | .tup3 a b c => .tup3 (gsubst σ a) (gsubst σ b) (gsubst σ c)
  | .obj2 k1 a k2 b => .obj2 k1 (gsubst σ a) k2 (gsubst σ b)
  | .fn1 p r => .fn1 (gsubst σ p) (gsubst σ r)

def vars : GTy → List Nat
  | .base _ => []
  | .v i => [i]
  | .array t => vars t
  | .tgen k v => vars k ++ vars v
  | .opt t => vars t
  | .fn r => vars r
  | .tup a b => vars a ++ vars b
  | .tup3 a b c => vars a ++ vars b ++ vars c
  | .obj2 _ a _ b => vars a ++ vars b
  | .fn1 p r => vars p ++ vars r

def noOpt : GTy → Bool
  | .base _ | .v _ => true
  | .array t => noOpt t
  | .tgen k v => noOpt k && noOpt v
  | .opt _ => false
  | .fn r => noOpt r
  | .tup a b => noOpt a && noOpt b
  | .tup3 a b c => noOpt a && noOpt b && noOpt c
  | .obj2 _ a _ b => noOpt a && noOpt b
  | .fn1 p r => noOpt p && noOpt r

/-- inferred type of `f(args…)` for `f : fun(params…): ret` -/
def inferCall (params args : List GTy) (ret : GTy) : GTy :=
  instantiate ret (tplMatchArgs params args [])

/-! ## call arguments: only the last argument expands to several values -/

/-- an argument expression: a plain value, a call returning the listed values, or `...` of a type -/
inductive Arg
  | one (g : GTy)
  | multi (gs : List GTy)
  | vararg (g : GTy)
deriving DecidableEq, Repr

/-- the argument types lined up with the parameters `ps` still unmatched:
a call that is not the last argument contributes its first value, the last one all of them
(`infer_generic_types_from_call` matches `func_params[i..]` against the multi-return). -/
def expandArgs : List GTy → List Arg → List GTy
  | _, [] => []
  | _, [.multi gs] => gs
  | ps, [.vararg g] => List.replicate ps.length g
  | ps, .one g :: rest => g :: expandArgs ps.tail rest
  | ps, .multi gs :: rest => gs.headD (.base (.prim .nil)) :: expandArgs ps.tail rest
  | ps, .vararg g :: rest => g :: expandArgs ps.tail rest

/-- inferred type of `f(args…)` with argument expressions -/
def inferCallA (params : List GTy) (args : List Arg) (ret : GTy) : GTy :=
  inferCall params (expandArgs params args) ret

end TyM
