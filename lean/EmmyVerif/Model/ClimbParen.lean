import EmmyVerif.Model.Climb
/-!
# Canonical (minimally parenthesised) form of an expression tree

`minParen T limit e` inserts `paren` nodes exactly where reading `e` back at `limit` would otherwise
regroup it (operator does not bind tighter than the limit, left operand would swallow the operator, base of a
suffix is not a prefix expression). `erase` removes every `paren` node.
-/
namespace Climb
open Gen.Climb (Tok UnOp BinOp)

/-- decidable form of `RStops`: an operator of left priority `L` after `e` is left to the caller -/
def rstopsB (T : Table) : Expr → Int → Bool
  | .un _ x, L => decide (L ≤ T.unaryPrio) && rstopsB T x L
  | .bin op _ r, L => decide (L ≤ T.right op) && rstopsB T r L
  | _, _ => true

def isPrefixB : Expr → Bool
  | .name | .paren _ | .dot _ | .idx _ _ | .call _ _ | .mcall _ _ => true
  | _ => false

def wrapPrefix (e : Expr) : Expr := if isPrefixB e then e else .paren e

def guardLeft (T : Table) (op : BinOp) (l : Expr) : Expr := if rstopsB T l (T.left op) then l else .paren l

mutual
def minParen (T : Table) : Int → Expr → Expr
  | _, .lit t => .lit t
  | _, .name => .name
  | _, .paren e => .paren (minParen T 0 e)
  | _, .un op x => .un op (minParen T T.unaryPrio x)
  | limit, .bin op l r =>
    if limit < T.left op then .bin op (guardLeft T op (minParen T limit l)) (minParen T (T.right op) r)
    else .paren (.bin op (guardLeft T op (minParen T 0 l)) (minParen T (T.right op) r))
  | _, .dot p => .dot (wrapPrefix (minParen T 0 p))
  | _, .idx p k => .idx (wrapPrefix (minParen T 0 p)) (minParen T 0 k)
  | _, .call p as => .call (wrapPrefix (minParen T 0 p)) (minParenArgs T as)
  | _, .mcall p as => .mcall (wrapPrefix (minParen T 0 p)) (minParenArgs T as)
  | _, .table fs => .table (minParenFields T fs)
  | _, .closure n va => .closure n va
def minParenArgs (T : Table) : Args → Args
  | .nil => .nil
  | .cons e r => .cons (minParen T 0 e) (minParenArgs T r)
def minParenFields (T : Table) : Fields → Fields
  | .nil => .nil
  | .cons f r => .cons (minParenField T f) (minParenFields T r)
def minParenField (T : Table) : Field → Field
  | .pos e => .pos (minParen T 0 e)
  | .named e => .named (minParen T 0 e)
  | .keyed k e => .keyed (minParen T 0 k) (minParen T 0 e)
end

mutual
/-- remove every parenthesis node -/
def erase : Expr → Expr
  | .lit t => .lit t
  | .name => .name
  | .paren e => erase e
  | .un op x => .un op (erase x)
  | .bin op l r => .bin op (erase l) (erase r)
  | .dot p => .dot (erase p)
  | .idx p k => .idx (erase p) (erase k)
  | .call p as => .call (erase p) (eraseArgs as)
  | .mcall p as => .mcall (erase p) (eraseArgs as)
  | .table fs => .table (eraseFields fs)
  | .closure n va => .closure n va
def eraseArgs : Args → Args
  | .nil => .nil
  | .cons e r => .cons (erase e) (eraseArgs r)
def eraseFields : Fields → Fields
  | .nil => .nil
  | .cons f r => .cons (eraseField f) (eraseFields r)
def eraseField : Field → Field
  | .pos e => .pos (erase e)
  | .named e => .named (erase e)
  | .keyed k e => .keyed (erase k) (erase e)
end

mutual
/-- a tree built from real operators and literal tokens -/
def Valid : Expr → Prop
  | .lit t => isLiteral t = true
  | .name => True
  | .paren e => Valid e
  | .un op x => op ≠ .OpNop ∧ Valid x
  | .bin op l r => op ≠ .OpNop ∧ Valid l ∧ Valid r
  | .dot p => Valid p
  | .idx p k => Valid p ∧ Valid k
  | .call p as => Valid p ∧ ValidArgs as
  | .mcall p as => Valid p ∧ ValidArgs as
  | .table fs => ValidFields fs
  | .closure _ _ => True
def ValidArgs : Args → Prop
  | .nil => True
  | .cons e r => Valid e ∧ ValidArgs r
def ValidFields : Fields → Prop
  | .nil => True
  | .cons f r => ValidField f ∧ ValidFields r
def ValidField : Field → Prop
  | .pos e => Valid e
  | .named e => Valid e
  | .keyed k e => Valid k ∧ Valid e
end

end Climb
