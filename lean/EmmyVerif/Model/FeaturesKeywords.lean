import EmmyVerif.Gen.FeaturesKeywords
import EmmyVerif.Model.Features
import EmmyVerif.Model.NumLexString
/-!
# Reserved words per language level (hand-written specification)

§3.1 "Lexical Conventions" of the reference manuals: the reserved words of Lua 5.1 are
`and break do else elseif end false for function if in local nil not or repeat return then true until while`;
Lua 5.2 added `goto`; 5.3 and 5.4 added none. In Lua 5.1 `goto` is an ordinary identifier.
`global` (5.5 declarations), the attribute names `const` / `close`, and the dialect words `continue` /
`const` are recognised *contextually by the parser*, never by the lexer: as words they are names at every
level. For the LuaJIT levels the lexer's treatment of `goto` is specified through the `Goto` feature
(LuaJIT 2 has `goto`), which `C03.features_match_manual` ties to the manuals.
-/
namespace Features
open Gen.Keywords (Word)
open Gen.Climb (Tok)
open Gen.Features (Level)

/-- the words reserved in every Lua version, with their token -/
def alwaysReserved : Word → Option Tok
  | .w_and => some .TkAnd | .w_break => some .TkBreak | .w_do => some .TkDo | .w_else => some .TkElse
  | .w_elseif => some .TkElseIf | .w_end => some .TkEnd | .w_false => some .TkFalse | .w_for => some .TkFor
  | .w_function => some .TkFunction | .w_if => some .TkIf | .w_in => some .TkIn | .w_local => some .TkLocal
  | .w_nil => some .TkNil | .w_not => some .TkNot | .w_or => some .TkOr | .w_repeat => some .TkRepeat
  | .w_return => some .TkReturn | .w_then => some .TkThen | .w_true => some .TkTrue | .w_until => some .TkUntil
  | .w_while => some .TkWhile
  | _ => none

/-- is `goto` a reserved word at this level -/
def gotoReserved : Level → Bool
  | .Lua51 => false
  | .Lua52 | .Lua53 | .Lua54 | .Lua55 => true
  | l => Gen.Features.support l .Goto      -- LuaJIT dialects: exactly when they have the goto statement

/-- the token kind the manuals give to a word at a level -/
def manualKind (l : Level) (w : Word) : Tok :=
  match alwaysReserved w with
  | some t => t
  | none => if w = .w_goto ∧ gotoReserved l = true then .TkGoto else .TkName

/-! ## String escapes per level (hand-written from the manuals' "Lexical Conventions")

* every level: `\a \b \f \n \r \t \v \\ \" \'`, backslash + line break, `\ddd` (at most 255);
* Lua 5.1: a backslash before any other character just yields that character;
* Lua 5.2 added `\z` and `\xXX` (and made every other escape an error); LuaJIT 2 has both;
* Lua 5.3 added `\u{XXX}` (at most 10FFFF in 5.3 and in LuaJIT 2.1, below 2^31 from Lua 5.4 on). -/

def escCfg : Level → StrLex.EscCfg
  | .Lua51 => ⟨true, false, 0x10FFFF⟩
  | .Lua52 => ⟨false, false, 0x10FFFF⟩
  | .Lua53 => ⟨false, true, 0x10FFFF⟩
  | .Lua54 | .Lua55 => ⟨false, true, 0x7FFFFFFF⟩
  | .LuaJIT2 | .LuaJIT | .LuaJIT3 => ⟨false, true, 0x10FFFF⟩

/-- does the lexer treat `\z` as the skip-white-space escape -/
def zskip : Level → Bool
  | .Lua51 => false
  | _ => true

end Features
