"""Pre-step for C27–C30: build the real `emmylua_ls` binary from /repo's working tree WITH the `verif`
feature (hook H4: traced locks + seeded scheduling points, inert unless VERIF_LOCK_TRACE / VERIF_SCHED_SEED
are set) into the shared /verif/harness/target-bins and keep a private copy `emmylua_ls-verif`."""
import os, subprocess, fcntl, time, shutil


def run(root, repo, tier, seed, log):
    tdir = os.path.join(root, "harness", "target-bins")
    env = dict(os.environ, CARGO_TARGET_DIR=tdir, CARGO_NET_OFFLINE="true")
    os.makedirs(os.path.join(root, ".locks"), exist_ok=True)
    t0 = time.time()
    out = os.path.join(tdir, "emmylua_ls-verif")
    with open(os.path.join(root, ".locks", "cargo-bins"), "w") as lk:
        fcntl.flock(lk, fcntl.LOCK_EX)
        p = subprocess.run(["cargo", "build", "-q", "-p", "emmylua_ls", "--features", "verif", "--offline"],
                           cwd=repo, env=env, stdout=subprocess.PIPE, stderr=subprocess.STDOUT, text=True, timeout=3000)
        binp = os.path.join(tdir, "debug", "emmylua_ls")
        if p.returncode != 0 or not os.path.exists(binp):
            raise RuntimeError("emmylua_ls --features verif does not build: " + p.stdout[-1200:])
        tmp = out + ".tmp%d" % os.getpid()
        shutil.copy2(binp, tmp)
        os.replace(tmp, out)
    log.append(p.stdout[-3000:])
    return {"binary": out, "build_s": round(time.time() - t0, 1)}


if __name__ == "__main__":
    print(run("/verif", "/repo", "quick", 1, []))
