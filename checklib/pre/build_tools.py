"""Pre-step: build the real `emmylua_check` and `emmylua_doc_cli` binaries from /repo's working tree into
/verif/harness/target-bins (fresh processes of these binaries are what C36/C11/C35 observe)."""
import os, subprocess, sys, time
sys.path.insert(0, os.path.join(os.path.dirname(os.path.dirname(os.path.abspath(__file__))), "gen"))
from tools_common import locked

def run(root, repo, tier, seed, log):
    target = os.path.join(root, "harness", "target-bins")
    env = dict(os.environ); env["CARGO_TARGET_DIR"] = target; env["CARGO_NET_OFFLINE"] = "true"
    t0 = time.time()
    with locked(root, "cargo"):
        p = subprocess.run(["cargo", "build", "-q", "-p", "emmylua_check", "-p", "emmylua_doc_cli", "--offline"],
                           cwd=repo, stdout=subprocess.PIPE, stderr=subprocess.STDOUT, text=True, env=env, timeout=3000)
    log.append(p.stdout[-3000:])
    if p.returncode != 0:
        errs = [l for l in p.stdout.splitlines() if "error" in l][:6]
        raise RuntimeError("emmylua_check / emmylua_doc_cli do not build: " + " | ".join(errs))
    bins = {b: os.path.join(target, "debug", b) for b in ("emmylua_check", "emmylua_doc_cli")}
    for b, p_ in bins.items():
        if not os.path.exists(p_):
            raise RuntimeError(f"binary {b} missing after build")
    return {"binaries": bins, "build_s": round(time.time() - t0, 1)}
