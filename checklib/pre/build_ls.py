"""Pre-step for C24: build the real `emmylua_ls` binary from /repo's working tree into
/verif/harness/target-bins (cargo caches; a no-op when nothing changed)."""
import os, subprocess, fcntl, time


def run(root, repo, tier, seed, log):
    tdir = os.path.join(root, "harness", "target-bins")
    env = dict(os.environ, CARGO_TARGET_DIR=tdir, CARGO_NET_OFFLINE="true")
    os.makedirs(os.path.join(root, ".locks"), exist_ok=True)
    t0 = time.time()
    with open(os.path.join(root, ".locks", "cargo-bins"), "w") as lk:
        fcntl.flock(lk, fcntl.LOCK_EX)
        p = subprocess.run(["cargo", "build", "-q", "-p", "emmylua_ls", "--offline"], cwd=repo, env=env,
                           stdout=subprocess.PIPE, stderr=subprocess.STDOUT, text=True, timeout=3000)
        binp = os.path.join(tdir, "debug", "emmylua_ls")
        if p.returncode == 0 and os.path.exists(binp):
            # private copy: debug/emmylua_ls alternates with the `--features verif` build of another check
            import shutil
            dst = os.path.join(tdir, "emmylua_ls-plain")
            if not os.path.exists(dst) or os.path.getmtime(dst) != os.path.getmtime(binp) \
                    or os.path.getsize(dst) != os.path.getsize(binp):
                shutil.copy2(binp, dst + ".tmp")
                os.replace(dst + ".tmp", dst)
            binp = dst
    log.append(p.stdout[-3000:])
    if p.returncode != 0 or not os.path.exists(binp):
        raise RuntimeError("emmylua_ls does not build: " + p.stdout[-800:])
    return {"binary": binp, "build_s": round(time.time() - t0, 1)}
