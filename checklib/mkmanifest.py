#!/usr/bin/env python3
"""Regenerate MANIFEST.json from checklib/registry.py (keeps it valid at all times)."""
import json, os, sys
ROOT = os.path.dirname(os.path.dirname(os.path.abspath(__file__)))
sys.path.insert(0, os.path.join(ROOT, "checklib"))
from registry import PROPS, HOOK_COMMITS, NOT_CLAIMED_REASON

all_ids = [json.loads(l)["id"] for l in open(os.path.join(ROOT, "properties.jsonl"))]
# only properties the coordinator has seen green (./check Cxx on the unchanged tree) are claimed
claimed = set(open(os.path.join(ROOT, "checklib", "claimed.txt")).read().split())
checks = []
for pid in all_ids:
    if pid not in PROPS or pid not in claimed:
        continue
    c = PROPS[pid]
    checks.append({
        "property_id": pid,
        "quick_cmd": f"./check {pid} --tier quick",
        "thorough_cmd": f"./check {pid} --tier thorough",
        "evidence_file": f"/verif/evidence/{pid}.json",
        "replay_cmd_template": f"./check {pid} --replay {{path}}",
        "engine": "lean4-model+correspondence",
        "level_claimed": {"category": c.get("level", "proof"), "text": c["level_text"], "design_ref": c.get("design_ref", "DESIGN.md §6 " + pid)},
        "level_note": c["level_note"],
        "technique": c.get("technique", "Lean 4 theorems about an executable model; model tied to /repo by a differential correspondence run"),
    })
m = {
    "version": 1,
    "setup_cmd": "./setup.sh",
    "hooks": {
        "guard": "cargo feature `verif` (off by default) in the /repo crates",
        "enable": "the harness crates under /verif/harness depend on /repo/crates/* by path with features = [\"verif\"] where a hook is needed",
        "baseline_off_cmd": "cd /repo && cargo test --workspace --no-fail-fast --offline",
        "source_commits": HOOK_COMMITS,
        "add_only": True,
    },
    "engines": [
        {"name": "lean4-model+correspondence", "path": "/verif/lean + /verif/harness + /verif/check",
         "serves_properties": [c["property_id"] for c in checks],
         "kind_free_text": "Lean 4 (core only) executable models + kernel-checked theorems; Rust harness runs model driver and implementation on the same inputs and an implementation-side oracle for the search"},
    ],
    "checks": checks,
    "notes": "See DESIGN.md. known_findings.jsonl lists genuine defects recorded rather than repaired; fixed entries document fix: commits in /repo.",
    "not_applicable": [{"property_id": p, "reason": NOT_CLAIMED_REASON.get(p, "check not built yet (work in progress); no claim made")} for p in all_ids if p not in PROPS or p not in claimed],
}
json.dump(m, open(os.path.join(ROOT, "MANIFEST.json"), "w"), indent=1)
print("MANIFEST.json:", len(checks), "checks,", len(m["not_applicable"]), "not claimed")
