"""Registry fragment of the determinism/tools cluster: C36 (checker exit status / reports), C11 (hash seeds),
C35 (doc export), C38 (concurrent read-only queries). Python runners drive the real binaries in fresh
processes; `vh-tools` (harness) is their in-process helper and is built by `check` via "harness"."""

TOOLS_TB = [
    "python runners checklib/run/tools_*.py (workspace generators, report parsers, canonical forms)",
    "vh-tools (in-process helper calling the real crates) and the real emmylua_check / emmylua_doc_cli binaries built from /repo's working tree into harness/target-bins by the pre-step",
]

PROPS = {
    "C36": {
        "harness": "vh-tools",
        "runner": "checklib/run/tools_c36.py",
        "gen": ["tools_exit"],
        "pre": ["build_tools"],
        "timeout": 1500,
        "level_text": "Kernel-checked theorems about an executable Lean model of emmylua_check's output_result (receive loop with manual completion count, severity filter, counting, exit status, json/text/sarif membership): for all message lists, arrival orders, filters and flags, exit != 0 iff some filtered diagnostic is an error or a warning under --warnings-as-errors; every report = exactly the filtered diagnostics, each once under its own file; arrival order irrelevant; summary counts exact. The model is tied to the code on every run by tables produced by executing the real DiagnosticSeverityFilter::allows and the real output_result on every single-diagnostic input (decide +kernel bridges; a theorem reduces the general exit status to that table), by a correspondence run of the real output_result (hook) on synthetic message lists in 3 formats x 2 destinations, and by running the real binary in fresh processes on generated workspaces x filters x flag x formats; the property's oracle is evaluated independently against reference diagnostics obtained through the library API.",
        "level_note": "Trusted: Lean kernel, the python runner/parsers, vh-tools, the correspondence runs as the tie (differential, not a proof about the Rust). Modelled: output_result, allows, the writers' membership logic (which write calls happen, which entries appear). Not modelled: the rendering of a diagnostic inside each format (checked only by parsing the real reports back), the text writer's source excerpt, tokio's channel (assumed to deliver each sent message once).",
        "trusted_base": TOOLS_TB,
        "assumptions": [
            "the channel delivers every message sent exactly once (tokio mpsc)",
            "run_check passes total_count = number of spawned diagnose tasks (read from source; checked end-to-end by the binary runs)",
            "diagnostic positions lie inside the document (text writer drops a diagnostic whose start line does not exist; never observed on generated workspaces)",
        ],
        "technique": "Lean 4 theorems over an executable model + T-exec tables (decide +kernel) + correspondence with the real function and the real binary",
    },
    "C11": {
        "harness": "vh-tools",
        "runner": "checklib/run/tools_c11.py",
        "pre": ["build_tools"],
        "timeout": 1500,
        "level": "proof",
        "level_text": "PARTIAL. Kernel-checked theorems, with hash iteration order modelled as an arbitrary permutation (List.Perm): the vector update_files_by_uri hands to the pipelines (after the sort fix) is the same for every iteration order of the id HashSet; the context list of module_analyze is the same for every iteration order of the per-workspace HashMap (STD first, libraries/remote by id, main last; keys proved distinct); hence the whole analysis schedule (contexts, tree_list order, get_best_analysis_order per context) is invariant (order_perm_invariant); the ready-queue comparator (meta first, then FileId) is a total order so tie-breaks are unique; get_best_analysis_order (Kahn with in-degree counters) is proved, through the loop invariant 'counter = number of in-list dependencies not yet emitted', to return a permutation of its input for every graph (cycles included) with every queue-phase file after all its in-list dependencies and the tail = exactly the blocked files; the pre-fix behaviour has a witness. The models are tied to the code on every run by correspondence: real get_best_analysis_order on generated dependency graphs (cycles, metas, foreign dependencies) and real update_files_by_uri on fresh analyses vs the model. Independently the real emmylua_check binary is run in fresh processes (fresh hash seeds) on generated cross-file workspaces and the sorted diagnostics are compared across runs.",
        "level_note": "Partial: iteration of hash maps inside the analyzers (member maps, type maps, reference maps) is not modelled; it is covered only by the fresh-process search (diagnostics; semantic-token dumps are not compared). Trusted: Lean kernel, python runner, vh-tools, correspondence runs as the tie. Modelled: update_files_by_uri's id vector, module_analyze grouping/context order, get_best_analysis_order (Kahn + tie-break + cycle tail).",
        "trusted_base": TOOLS_TB,
        "assumptions": [
            "std HashSet / hashbrown HashMap iteration is some permutation of the stored elements (no loss, no duplication)",
            "the per-file analyzers are deterministic functions of the index state and the file order (not proved; searched by fresh-process runs)",
            "file ids are assigned in registration order (Vfs), so sorting ids = registration order",
        ],
        "technique": "Lean 4 theorems (List.Perm invariance, sorting uniqueness) over executable models + correspondence with the real functions + fresh-process differential runs of the real binary",
    },
    "C35": {
        "harness": "vh-tools",
        "runner": "checklib/run/tools_c35.py",
        "pre": ["build_tools"],
        "timeout": 1500,
        "level_text": "Kernel-checked theorems about an executable Lean model of the JSON export's list construction (export_types / export_modules / export_globals after the ordering fix: sort, main-workspace filter, one entry per global name), with the hash-map listings modelled as arbitrary permutations: the output is the same for every iteration order (perm-invariance, given that the sort key is injective on the listed entries: for types the key (full name, first declaration) is proved injective whenever first declaration sites are distinct — also for same-named file-private types — and the harness checks that hypothesis on every generated workspace; for modules (name, file), for globals the declaration id); a type is exported iff it is a class/enum/alias with a main-workspace declaration, each once; each global name with a typed main-workspace declaration exactly once (de-duplication of the name-sorted list proved strictly increasing and lossless); modules iff main-workspace file with an export; nothing without a main-workspace declaration; witnesses for the unsorted and the name-only orderings. Tie: the real emmylua_doc_cli on generated workspaces vs the model's name sequences on every run. Oracle: fresh-process exports byte-identical; declared classes/enums/aliases/globals/modules each once; nothing from library roots or std.",
        "level_note": "Trusted: Lean kernel, python runner (workspace generator, expected-declaration bookkeeping), the correspondence run as the tie. Modelled: order, filtering and de-duplication of the three top-level lists. Not modelled: rendering of each entry (members, types, locations, config block) — covered only by the byte-identity oracle over fresh processes; a module is taken to be 'declared' when its file returns a value (export_type present).",
        "trusted_base": TOOLS_TB,
        "assumptions": [
            "hash-map iteration is some permutation of the stored entries",
            "a declaration site (file, position) belongs to one type, every listed type has a declaration (checked per workspace by the runner); a global declaration id (file, position) is unique; one module info per file",
            "names compare as Rust str (byte-wise); generated names are ASCII",
        ],
        "technique": "Lean 4 theorems (List.Perm invariance of sort/filter/dedup) over an executable model + correspondence with the real binary + fresh-process byte-identity oracle",
    },
    "C38": {
        "harness": "vh-tools",
        "runner": "checklib/run/tools_c38.py",
        "gen": ["tools_autotrait"],
        "timeout": 1500,
        "level_text": "PARTIAL. Static part, kernel-checked: an executable Lean model of Rust's auto-trait derivation (struct/enum: all fields; rules for Arc, Mutex, RwLock, Cell/RefCell, references, owning containers; leaf table for std/third-party types; generic definitions monomorphised; recursion handled coinductively as the greatest consistent assignment, with a general monotonicity/greatest-fixpoint lemma) is evaluated by decide +kernel on the field graph of EmmyLuaAnalysis extracted from the source text on every run (217 instantiated types): every component type is Send and Sync by derivation from its fields, EmmyLuaAnalysis included, and no type the analysis holds carries a manual unsafe impl; the list of shared mutable state reachable from &EmmyLuaAnalysis (every Mutex/RwLock/Atomic/Cell/RefCell/OnceLock field of a reachable type, every mutable static / thread_local of the two crates), extracted on every run, must be contained in a justified allow-list (empty on this tree) — so a new shared cache breaks the bridge even when rustc is satisfied. The derivation is cross-checked with rustc through hook H6 in both directions (positive assertions for all component types, negative ones for the rowan cursor types); a disagreement breaks the harness build or the Lean theorems. Dynamic part (search): 10-16 threads query one shared Arc<EmmyLuaAnalysis> in lock-step (a barrier before every call, so calls really overlap): diagnose_file alone, then diagnostics + semantic info of every name token, then free-running; half of the workspaces consist of 8-14 byte-identical copies of a template (typed table literals with wrong fields at the same offsets, unused locals, undefined globals, parameter mismatches, ...) plus near-identical variants, the others are cross-file workspaces; every answer and the total diagnostic count must equal the sequential ones.",
        "level_note": "Partial: data races inside unsafe code of dependencies (rowan green tree, smol_str, internment, hashbrown, regex) are not modelled — these types are leaves with the verdict their crates declare; thread interleavings of the real runtime are searched, not proved. SemanticModel (per query, not held by the analysis) is not Send/Sync by derivation and keeps its unsafe impl: outside the claim, recorded in notes. Trusted: Lean kernel, the python extractor (struct/enum parser, leaf table), rustc for the H6 assertions.",
        "trusted_base": TOOLS_TB + ["checklib/gen/tools_autotrait.py: Rust struct/enum/alias field extractor and the leaf/container table (std, rowan, smol_str, internment, regex, lsp types)"],
        "assumptions": [
            "leaf table verdicts match the crates' own Send/Sync impls (GreenNode, NodeCache, SmolStr, ArcIntern, Regex: Send + Sync; rowan SyntaxNode: neither)",
            "every type definition reachable from EmmyLuaAnalysis lives in emmylua_code_analysis or emmylua_parser or the leaf table (the extractor fails on an unknown name)",
            "cfg-conditional fields are all included (union over cfgs)",
        ],
        "technique": "Lean 4 model of auto-trait derivation + decide +kernel over the extracted graph + general greatest-fixpoint lemma; rustc cross-check via compile-time assertions; multi-threaded differential search",
    },
}

HOOK_COMMITS = [
    "a22ac47 verif hook: emmylua_check feature verif re-exports output_result (report/exit-code routine)",
    "3305d23 verif hook: H6 compile-time Send+Sync assertions for every component type of EmmyLuaAnalysis (feature verif)",
]
