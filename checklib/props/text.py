TEXT_TB = ["correspondence run (LineIndex vs Text model) for the tie; rowan TextSize = u32 byte offsets"]

PROPS = {
    "C22": {
        "harness": "vh-parser",
        "level_text": "Kernel-checked theorems (roundtrip at every char boundary, missing line -> none, clamp into the line's reachable part, result <= |text|) for all texts and positions about the Text model; the model is compared with LineIndex on exhaustive small texts + seeded random texts every run, and the property's oracle is evaluated on the implementation independently.",
        "level_note": "Trusted: Lean kernel (axioms propext, Quot.sound), the harness/serialiser, the correspondence run as the tie (differential, not a proof about the Rust). Modelled: LineIndex::{parse,get_line_col,get_offset,get_line_offset}.",
        "trusted_base": TEXT_TB,
        "assumptions": ["texts shorter than 2^32 bytes (TextSize is u32)"],
    },
    "C23": {
        "harness": "vh-parser",
        "level_text": "Kernel-checked theorems: lines are split exactly at \\n, \\r\\n and lone \\r (join/well-formedness/line shape), and the column of every boundary is the UTF-16 length of its line prefix; same model and tie as C22, with an independent UTF-16/line-split oracle on the implementation.",
        "level_note": "Trusted: Lean kernel, harness, correspondence run. Not modelled: capability negotiation (the server advertises no positionEncoding).",
        "trusted_base": TEXT_TB,
        "assumptions": ["texts shorter than 2^32 bytes (TextSize is u32)"],
    },
}
