TREE_TB = [
    "correspondence run as the tie (differential, not a proof about the Rust): LuaTreeBuilder/LuaGreenNodeBuilder vs Green.build on random event lists and on the event streams of real parses",
    "rowan 0.16 (external crate): green-node construction and SyntaxNode::text are taken as specified",
]

PROPS = {
    "C01": {
        "harness": "vh-tree",
        "level_text": "Kernel-checked theorems for ALL MarkEvent lists (balanced or not, any forward-parent structure): the tree built by the modelled LuaTreeBuilder/LuaGreenNodeBuilder has exactly the EatToken tokens as leaves, once each, in order, so its text is their concatenation, and the root is a Chunk; the model is compared with the real builder on random event lists and on the event stream of real parses every run, and the property's oracle (tree text == input, tree tokens and lexer tokens tile the input) is evaluated on the implementation over token soup / doc soup / NUL, BOM, CR / random bytes x 8 language levels x doc on/off.",
        "level_note": "Trusted: Lean kernel, harness/serialiser, the correspondence run as the tie. The grammar functions are not modelled: they are covered by the universal quantifier over event lists. Not yet proved (deepening): that the parser core emits every lexer token as an EatToken (bump_emits_all) and that the lexer tokens tile the text; both are checked by the implementation-side oracle only.",
        "trusted_base": TREE_TB,
        "assumptions": ["texts shorter than 2^32 bytes (rowan TextSize is u32)"],
        "technique": "Lean 4 theorems about an executable model of the tree builder; model tied to /repo by a differential correspondence run",
        "design_ref": "DESIGN.md §6 C01",
    },
    "C04": {
        "harness": "vh-tree",
        "level_text": "Kernel-checked theorems about a model of rowan's NodeCache as used by LuaGreenNodeBuilder::with_cache (tokens interned by (kind,text); nodes with <= 3 children, all interned, interned by (kind, child identities)): an invariant holds for the empty cache and is preserved by every build; building any tree through ANY cache state satisfying it (i.e. after any history) denotes exactly that tree (= a fresh build); for every history of event streams through one cache each returned tree equals its standalone tree. The cache model is compared each run with the real shared NodeCache of a Vfs on the identity structure (which green elements are the same allocation, within and across the trees of a history), and the property's oracle (tree and error list through one Vfs == fresh parse, earlier trees unchanged) runs on histories with near-duplicates, level switches and replaced files.",
        "level_note": "Trusted: Lean kernel, harness/serialiser, correspondence run as the tie; rowan is an external crate, its interner is modelled (hashes abstracted: lookups compare exactly what the model compares) and validated by the identity-structure comparison. Errors never pass through the cache (LuaParser::parse keeps them in a local vector) - data-flow argument, checked by the oracle only.",
        "trusted_base": TREE_TB + ["rowan NodeCache modelled, not verified; pointer identity of live green elements observed through SyntaxNode::green()"],
        "assumptions": ["no hash collision handling is modelled beyond equality of (kind, text) / (kind, child identities): a colliding or zero hash only changes sharing, never the denoted tree"],
        "technique": "Lean 4 theorems (invariant + refinement) about an executable model of the hash-consing cache; model tied to /repo by a differential correspondence run on identity structures",
        "design_ref": "DESIGN.md §6 C04",
    },
}

HOOK_COMMITS = [
    "4dc74ec verif hook: emmylua_parser feature verif exports MarkEvent and LuaParser::verif_parse_events",
]
