TREE_TB = [
    "correspondence run as the tie (differential, not a proof about the Rust): LuaTreeBuilder/LuaGreenNodeBuilder vs Green.build on random event lists and on the event streams of real parses",
    "rowan 0.16 (external crate): green-node construction and SyntaxNode::text are taken as specified",
]

PROPS = {
    "C01": {
        "harness": "vh-tree",
        "level_text": "Kernel-checked theorems, law-level over all inputs of each modelled layer: (Green/Events) for ALL MarkEvent lists - balanced or not, any forward-parent structure - the tree built by the modelled LuaTreeBuilder/LuaGreenNodeBuilder has exactly the EatToken tokens as leaves, once each, in order (text = their concatenation), root is a Chunk; (Core) for all token lists, doc on/off and ALL grammars (any number of bumps per parse_stats call) the parser core covers every lexer token exactly once, in order, when parse_chunk returns; (Reader) for all texts incl. NUL/BOM/CR and ALL lexer arms (any number of bumps per token) the token ranges tile [0,|text|); (Marker) mark_level = open NodeStarts - NodeEnds for all marker op sequences and the parse_stats recovery closes exactly the nodes the failed statement left open. Every layer is compared with the real code on every run (random event lists and the event streams of real parses vs LuaTreeBuilder; token-class lists vs the real EatToken events and Comment nodes; random op sequences vs the real public Reader; real token lists replayed as bump schedules; mark_level of real parses), and the property's oracle (tree text == input, tree tokens and lexer tokens tile the input) runs on the implementation over token soup / doc soup / NUL, BOM, CR / random bytes x 8 language levels x doc on/off.",
        "level_note": "Trusted: Lean kernel, harness/serialiser, the correspondence run as the tie (differential, not a proof about the Rust). The grammar functions (grammar/**) are not modelled: they are covered by the universal quantifiers (all event lists / all grammars g / all lexer arms). Not modelled: the internals of the doc parser and doc lexer - the assumption DocSpec (the doc tokens of a comment group tile the group's byte range) is checked on the implementation by the tree.core tie on every run; so the end-to-end composition 'tree text = input' is proved per layer and composed through that checked assumption, not as one Lean theorem.",
        "trusted_base": TREE_TB,
        "assumptions": ["texts shorter than 2^32 bytes (rowan TextSize is u32)", "DocSpec: the EatTokens LuaDocParser emits for a comment group tile the group's byte range (checked every run on the generated inputs)", "set_current_token_kind never changes the trivia class of a token: its call-site arguments are re-extracted from the source every run and checked by C01_set_kind_keeps_class"],
        "technique": "Lean 4 theorems about executable models of reader loop, parser core, marker discipline and tree builder; models tied to /repo by differential correspondence runs",
        "design_ref": "DESIGN.md §6 C01",
        "gen": ["tree_callgraph"],
    },
    "C04": {
        "harness": "vh-tree",
        "level_text": "Kernel-checked theorems about a model of rowan's NodeCache as used by LuaGreenNodeBuilder::with_cache (tokens interned by (kind,text); nodes with <= 3 children, all interned, interned by (kind, child identities)): an invariant holds for the empty cache and is preserved by every build; building any tree through ANY cache state satisfying it (i.e. after any history) denotes exactly that tree (= a fresh build); for every history of event streams through one cache each returned tree equals its standalone tree. The cache model is compared each run with the real shared NodeCache of a Vfs on the identity structure (which green elements are the same allocation, within and across the trees of a history), and the property's oracle (tree and error list through one Vfs == fresh parse, earlier trees unchanged) runs on histories with near-duplicates, level switches and replaced files.",
        "level_note": "Trusted: Lean kernel, harness/serialiser, correspondence run as the tie; rowan is an external crate, its interner is modelled (hashes abstracted: lookups compare exactly what the model compares) and validated by the identity-structure comparison. Errors never pass through the cache (LuaParser::parse keeps them in a local vector) - data-flow argument, checked by the oracle only.",
        "trusted_base": TREE_TB + ["rowan NodeCache modelled, not verified; pointer identity of live green elements observed through SyntaxNode::green()"],
        "assumptions": ["no hash collision handling is modelled beyond equality of (kind, text) / (kind, child identities): a colliding or zero hash only changes sharing, never the denoted tree"],
        "technique": "Lean 4 theorems (invariant + refinement) about an executable model of the hash-consing cache; model tied to /repo by a differential correspondence run on identity structures",
        "design_ref": "DESIGN.md §6 C04",
    },
    "C02": {
        "harness": "vh-tree",
        "level": "proof",
        "level_text": "PARTIAL. Kernel-checked theorems, for every token list and every grammar behaviour: bump strictly advances the token index and cannot fail before the end; every iteration of the parse_chunk loop strictly advances (progress guard) and the loop ends at the end of input within #tokens iterations; all model functions are total; and over the call graph of the parse path RE-EXTRACTED FROM THE RUST SOURCE on every run: every recursion (cycle) passes through a function that takes one of the MAX_SYNTAX_LEVELS=200 levels, hence a stack with at most 200 level-taking frames has a bounded number of frames; a failed enter_level leaves the counter unchanged and guards are balanced, and that every function touching the counter has exactly the modelled shape (enter_level(p)?; first, one leave_level, nothing in between can leave the function) is re-extracted from the source and bridged by decide. The token-layer model is compared with the real event streams every run. Stack depth and wall-clock time are runtime facts outside the model: they are checked by the implementation-side oracle only (child process, parse on a 2 MiB thread stack under a budget of 3 s + 40 us/byte, a case is over budget only if three attempts in a row are) on 78 nesting ladders at depths 1..20 000 (thorough 100 000) around and far beyond the syntax-level limit - including nesting constructs interleaved with doc comments carrying nested types at every level, and every kind of statement placed exactly at block levels limit-2..limit+2 -, large token soup, structured prefix/doc families and long flat files. Every parse of a generated input (ties and oracles of C01, C02, C04) runs in that child first, so a hang, abort or memory blow-up is a concrete failure with a replay and the run continues (bounded by a failure allowance).",
        "level_note": "Partial: no theorem about real stack frames or time. The recursion limit (MAX_SYNTAX_LEVELS = 200, fix: commit) is exercised by the ladders (first depth reporting 'too many syntax levels' is recorded per ladder). Open finding: iterative left-nested chains of >= ~16000 links give trees whose recursive drop/re-hash inside rowan overflows 2 MiB or takes quadratic time.",
        "trusted_base": TREE_TB + ["OS process/thread semantics for the crash oracle (thread stack size 2 MiB, SIGABRT/SIGSEGV on overflow)"],
        "assumptions": ["the grammar moves the token index only through LuaParser::bump (token_index is private to lua_parser.rs)", "set_current_token_kind never changes the class (trivia / non-trivia) of a token"],
        "technique": "Lean 4 theorems (progress/termination of the token layer for all grammars) + child-process crash/time oracle",
        "design_ref": "DESIGN.md §6 C02",
        "gen": ["tree_callgraph"],
        "timeout": 1500,
    },
}

HOOK_COMMITS = [
    "4dc74ec verif hook: emmylua_parser feature verif exports MarkEvent and LuaParser::verif_parse_events",
    "f303c1a verif hook: order the MarkEvent re-export as rustfmt expects",
]
