"""Formatter cluster: C39 (crash-atomic --write), C07 (range formatting), C05/C06 (formatter preserves code / idempotent)."""

HOOK_COMMITS = ["6d4f8a7 verif hook: emmylua_formatter feature verif (H5): range-format text helpers, format_to_ir, print_ir, ir_to_sexpr"]

PROPS = {
    "C39": {
        "harness": None,
        "runner": "checklib/run/fmt_crash.py",
        "gen": ["fs_trace"],
        "timeout": 1500,
        "timeout_thorough": 7200,
        "level_text": "Kernel-checked theorems about a file-system model (files with a durability flag, atomic rename, partial "
                      "writes, jobs with clean-up, runs over any number of files): for the temp-file + fsync + rename protocol, at every "
                      "point of every run — any syscall of any job failing, a failing write leaving any prefix, the clean-up running "
                      "best-effort — and after a power loss at that point, every target holds its complete old or a complete new content; "
                      "untouched files stay untouched; witnesses show the in-place fs::write protocol and the protocol without fsync do "
                      "not have the property. Tie: on every run the file syscalls of two strace'd executions of the real `luafmt --write` "
                      "(unfaulted, and with RLIMIT_FSIZE hitting the largest file) over a directory with file-system variety (second "
                      "hard link, symlinked file and directory, read-only file and directory, CRLF, empty) are regenerated into Lean "
                      "and checked by kernel evaluation to be literally the modelled protocol / its failure behaviour, and — per "
                      "target file — that no pre-existing path is ever truncated or written in place and each modified file is reached "
                      "by exactly one rename from a fresh temp file; additionally every faulted run of the "
                      "search is replayed through the model (observed syscalls -> predicted directory = directory on disk). "
                      "Search: SIGKILL on entry of every file syscall, errno injection into every call of openat/write/fsync/fchmod/"
                      "close/rename/unlink, RLIMIT_FSIZE sweeps with SIGXFSZ ignored and default, on the real binary.",
        "level_note": "Trusted: Lean kernel; strace's report of syscalls, arguments and return values; the python trace parser and "
                      "fault driver; the OS semantics assumed by the model (rename atomic, fsync makes the file's data durable, an "
                      "unsynced file degrades to a prefix on power loss — power loss itself is not exercised on the real system, only "
                      "process kill and write failures are). Hard links: paths are independent in the model, and that is what the fixed "
                      "code does — the rename gives the formatted name a new inode, the other link name keeps the complete old content "
                      "(link broken; both names hold complete content at every crash point, which is what the oracle checks on the "
                      "real file system). The checks run as root, so read-only files/directories do not make syscalls fail by "
                      "themselves; such failures are produced by errno injection. Not modelled: permissions/ownership/xattrs of the "
                      "replaced file, symlinks as objects (the code canonicalises first; the oracle checks they stay symlinks), directory fsync (rename durability is not needed for "
                      "old-or-new), the `--output FILE` path (not in-place).",
        "trusted_base": ["strace 6.1 syscall log (arguments, return values, fault injection) for the tie and the fault search",
                         "OS assumptions of the Fs model: rename(2) atomic; fsync(2) durable; unsynced data degrades to a prefix"],
        "assumptions": ["temporary file names (.NAME.luafmt-PID.tmp) are not themselves targets of the run (checked for the traced runs)",
                        "targets exist and are durable before the run",
                        "no concurrent writer to the same directory"],
        "technique": "proof (invariant over all runs/crash points of a syscall-level protocol model) + trace extraction tie + fault injection search",
    },
    "C07": {
        "harness": "vh-fmt",
        "level_text": "Partial. Kernel-checked theorems about a byte-level model of the text helpers of range formatting "
                      "(clamp_range, expand_to_full_lines, line_indent_prefix, split_inclusive/split_line_ending, strip_base_indent, "
                      "apply_base_indent with kept multi-line-token lines, and applying the edit): text outside the replaced range is "
                      "untouched, the expanded range covers the selection / stays inside the document / is made of whole lines, "
                      "strip and apply are inverse on well-indented fragments, and — for ANY fragment formatter that keeps non-blank "
                      "bytes — the spliced document has the same non-blank bytes as the original; all for every text, range and prefix. "
                      "The model is compared with the real (hook-exported) helpers on exhaustive small + seeded random fragments every "
                      "run. Which region is selected and how the fragment is re-formatted (the formatter's rule set) is decided by "
                      "search only: reformat_range on generated valid documents x selections x configurations must return a valid range "
                      "covering every selected token, splice to a document that reparses with the same normalised token sequence and "
                      "comment structure, and must refuse documents with syntax errors.",
        "level_note": "Trusted: Lean kernel, harness (generator, token normaliser, splice), correspondence run as the tie. Search-only: "
                      "select_format_range / explicit table-argument-parameter targets / layout plan / fragment formatting. The LSP "
                      "handler that turns the result into a TextEdit is not exercised here.",
        "trusted_base": ["correspondence run (RangeText model vs range_format helpers through the verif hook)",
                         "token normaliser of the harness (parser-based; statement ';', trailing table separators, quote style, single-argument call parentheses, blanks inside comments)"],
        "assumptions": ["documents shorter than 2^32 bytes", "Lua 5.5 syntax level for generated documents"],
        "technique": "proof about the text pipeline + correspondence tie + property oracle search for the rule set (partial)",
    },
    "C05": {
        "harness": "vh-fmt",
        "level_text": "Partial. The formatter is IR construction (about 10 k lines of rules, not modelled) followed by the printer. "
                      "Kernel-checked theorems about an executable model of the IR and the printer (print_doc with its state, "
                      "fits_impl, has_hard_line, print_fill, print_align_group, line suffixes, pending indentation): for every "
                      "configuration, fuel and EVERY IR the non-whitespace bytes of the printer's output are the bytes of a derivation "
                      "that leaves open only the mode of each group/fill part: text leaves in document order, an IfBreak contributes the "
                      "branch selected by the mode its group recorded, a LineSuffix is emitted at the next line break or at the single "
                      "final flush, pending suffixes in push order (print_atoms at full strength; corollary: a trailing comment at the "
                      "end of the IR is always printed, last); in closed form for IRs without IfBreak/LineSuffix the output has exactly "
                      "the leaves' bytes in order; an IR without text prints whitespace only, and ir_flat_width sees text lengths "
                      "only. Tie: every run the real printer (hook H5) and the model print the IRs the real formatter builds for the "
                      "corpus and seeded random IRs over all node kinds, byte for byte. Whether the rule set puts every token into the "
                      "IR is decided by search: reformat_lua_code on generated valid Lua (incl. operator/number adjacency, "
                      "multi-argument calls with string/table/closure arguments, compound assignments and continue under the LuaJIT "
                      "extension level, comments behind break/goto/label/return, doc tags with attributes and generics, escapes before "
                      "quotes, last-line trailing comments without final newline), the bundled std annotation files and erroneous inputs "
                      "x configurations — hand-picked combinations, EVERY single-option toggle of the whole option space (the options "
                      "are enumerated from config/mod.rs and the serialised default configuration, cross-checked, so a new option is "
                      "picked up), and random combinations; the hand-written corpus meets every configuration — must reparse, keep the normalised token sequence and the comment structure, "
                      "and return erroneous input unchanged.",
        "level_note": "Trusted: Lean kernel, harness (generator, parser-based token normaliser), correspondence run as the tie, the "
                      "hook's ir_to_sexpr exporter (source nodes/tokens are resolved to the text they print). Not proved: that the group modes chosen by fits are 'good' "
                      "(any mode assignment satisfies the atoms theorem); IR construction (search only).",
        "trusted_base": ["correspondence run (Printer model vs Printer::print through verif::format_to_ir / ir_to_sexpr / print_ir)",
                         "token normaliser of the harness (statement ';', trailing table separators, quote style, single-argument call parentheses, blanks inside comments are the only differences ignored)"],
        "assumptions": ["Lua 5.5 syntax level for all inputs", "indent string and newline string of the configuration are whitespace (tabs/spaces, \\n or \\r\\n)"],
        "technique": "proof about the printer + correspondence tie + property oracle search for the rule set (partial)",
    },
    "C06": {
        "harness": "vh-fmt",
        "level_text": "Partial. fmt(fmt x) = fmt x is a property of the whole formatter, whose rule set (IR construction, which also "
                      "reads the layout of the source) is not modelled: it is decided by search only (generated valid Lua, std "
                      "annotation files, erroneous and mutated inputs x configurations, two passes compared), and the search does find "
                      "inputs that need two passes; those are listed as open known findings keyed by narrow predicates over input and configuration (an option or "
                      "two plus a construct), and the structural ones only apply when the two passes differ in line breaks, "
                      "indentation and trailing table separators ALONE — a second pass that changes spacing inside a line or any other "
                      "character is never covered by a finding. Same configuration space as C05 (every single-option toggle). "
                      "Kernel-checked theorems cover the printer half of the mechanism 'layout decisions are made from token widths "
                      "only': fits_impl (any stack, break map, width, fuel), has_hard_line/the group decision of print_doc, and "
                      "ir_flat_width (alignment columns) are invariant under replacing every text of the IR by a text of the same "
                      "length. Same model and tie as C05 (real and random IRs, model printer vs real printer byte for byte).",
        "level_note": "Trusted: Lean kernel, harness, correspondence run. The theorems do not imply idempotence; they remove the "
                      "printer as a source of pass-to-pass differences for IRs of equal shape. The open findings are source-layout "
                      "sensitivity of the rule set (multi-line tokens, multi-line tables/calls/parameter lists, re-breaking at the "
                      "width limit).",
        "trusted_base": ["correspondence run (Printer model vs Printer::print through the verif hook)"],
        "assumptions": ["Lua 5.5 syntax level for all inputs"],
        "technique": "proof about the printer's decision procedures + correspondence tie + property oracle search (partial)",
    },
}
