"""Registry fragment of the LS protocol cluster (C24, C25, C26)."""

PROPS = {
    "C24": {
        "harness": "vh-ls",
        "runner": "checklib/run/ls_stdio.py",
        "gen": ["proto_methods"],
        "pre": ["build_ls"],
        "timeout": 900,
        "timeout_thorough": 3600,
        "level_text": "Kernel-checked theorems about the Proto model of the server's message handling (handshake, "
                      "queueing while the initialization task runs, dispatch_request!, ServerContext::task/cancel, shutdown/exit): "
                      "for every event list (messages incl. malformed/absent params, unknown methods, $/cancelRequest, notifications; "
                      "every handler outcome: fast/slow, panics; every completion point of initialization) the number of responses "
                      "per id equals the number of requests with that id received while the server answers (C24_one_response, "
                      "exactly one for distinct ids, none for other ids), no request or bad message ends the server "
                      "(C24_keeps_serving_*, C24_dead_only_by). The method table and the response-producing branches are re-extracted "
                      "from the dispatch macros on every run and bridged by `decide`; the model's responses are compared with the real "
                      "emmylua_ls binary over stdio on generated sessions, and the oracle (exactly one response per owed id after "
                      "quiescence, server still serving) is evaluated on the binary independently.",
        "level_note": "Trusted: Lean kernel, the Python stdio client/runner, the extractor, the correspondence as the tie. Modelled, not "
                      "verified: lsp_server framing/handshake (a message other than `initialized` right after the initialize result, or "
                      "anything after `exit`, is not received), tokio task semantics (a panicking task yields a JoinError). Handler bodies are "
                      "abstract (outcome = environment choice); a handler that never terminates is C28's concern. Duplicate in-flight ids: the "
                      "model cancels all tasks with the id, the server only the latest (sessions use distinct ids).",
        "trusted_base": ["stdio correspondence run against /repo's emmylua_ls binary (debug build) + T-src extraction of the "
                         "dispatch macros; lsp_server 0.7.9 transport semantics as modelled"],
        "assumptions": ["the initialization task and every handler task terminate (quiescence is reached)",
                        "request ids are not reused while a request with the same id is in flight",
                        "the client keeps the connection open until it has its responses"],
        "technique": "invariant proof (accounting of owed responses) over an executable state machine + T-src table bridge + differential run against the real binary",
    },
    "C25": {
        "harness": "vh-ls",
        "gen": ["proto_pos_sites"],
        "lean_modules": ["EmmyVerif.Props.C25"],
        "timeout": 900,
        "timeout_thorough": 3600,
        "level_text": "Partial. Kernel-checked theorems about the Pos model of the prelude every position-taking handler shares "
                      "(get_offset -> end-of-document guard -> token_at_offset; to_rowan_range -> TextRange::new): for every text and every "
                      "(line, character) or range a client can send, rowan's preconditions hold (offset <= root end, start <= end <= |text|), "
                      "with or without the guard when the tree is lossless. The list of client-derived token_at_offset sites is re-extracted "
                      "from the handlers each run and all must be guarded (decide). The prelude is compared with LuaDocument on generated "
                      "documents; the in-process oracle sends all 22 position/range-taking requests at every token boundary, mid-token, past "
                      "end of line/document, u32::MAX and inverted/empty ranges on valid and invalid documents through the real dispatch path "
                      "and accepts only results (a handler panic surfaces as InternalError).",
        "level_note": "Not modelled (partial): what a handler does after it holds the token; that part is covered only by the search. "
                      "Trusted: Lean kernel, harness, extractor heuristics (regex over the handler sources), rowan's documented preconditions.",
        "trusted_base": ["C22 theorems about the Text model (imported)", "T-src extraction by regex over crates/emmylua_ls/src/handlers",
                         "in-process correspondence run (LuaDocument vs Pos model)"],
        "assumptions": ["texts shorter than 2^32 bytes", "rowan panics only when its documented preconditions are violated"],
        "technique": "theorems over the Text/Pos model + T-src site list bridged by decide + differential run + in-process crash oracle",
    },
    "C26": {
        "harness": "vh-ls",
        "gen": ["proto_legend"],
        "timeout": 900,
        "timeout_thorough": 3600,
        "level_text": "Partial. Kernel-checked theorems about the LspShape model of SemanticBuilder::build (drop empty, stable sort, collapse equal "
                      "starts, clip overlaps, delta-encode) and the client decoder: decode(build es) = normalize es for every entry list, the decoded "
                      "tokens are always ordered and non-overlapping, each is a (possibly shortened) pushed entry, nothing is lost iff the entries were "
                      "already disjoint; token type/modifier indices lie inside the advertised legend (tables re-extracted each run, decide); a nested "
                      "selection chain is strictly growing after merging equal steps. The builder's recorded input is re-encoded by the model and "
                      "compared with the server's data each run; an independent oracle validates every structure-returning request on generated "
                      "documents (ranges inside the document, token order/overlap/legend, symbol nesting, fold start<=end, selection chains, "
                      "completion edit around the cursor, disjoint edits).",
        "level_note": "Not modelled (partial): which nodes the producers pick (push_data, symbol/fold builders, rename) — the symbol/fold theorems assume the producer discipline (ranges are node ranges or covers of them, children lie below the host node); the run checks that the real tree is well nested, that every symbol position is a node/token boundary, and that the real results pass the model validators. "
                      "Open finding: whole-document ranges end at (line_count, 0) (pinned by a unit test).",
        "trusted_base": ["hook: SemanticBuilder::build records its flattened entries (feature verif)", "T-src extraction of the legend tables",
                         "in-process correspondence run"],
        "assumptions": ["line/column numbers fit u32 (no wrap in the delta subtraction; entries are sorted so it cannot underflow)"],
        "technique": "theorems over an executable model (sortedness/clip invariants, decode∘encode) + T-src legend bridge + differential run + structural oracle",
    },
}

HOOK_COMMITS = ["76428a6 verif hook: H3 emmylua_ls verif_handlers re-exports (ServerContext, request/notification dispatch, server_capabilities) and SemanticBuilder entry recorder (feature verif)"]
