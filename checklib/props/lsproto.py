"""Registry fragment of the LS protocol cluster (C24, C25, C26)."""

PROPS = {
    "C24": {
        "harness": None,
        "runner": "checklib/run/ls_stdio.py",
        "gen": ["proto_methods"],
        "pre": ["build_ls"],
        "timeout": 900,
        "timeout_thorough": 3600,
        "level_text": "Kernel-checked theorems about the Proto model of the server's message handling (handshake, "
                      "queueing while the initialization task runs, dispatch_request!, ServerContext::task/cancel, shutdown/exit): "
                      "for every event list (messages incl. malformed/absent params, unknown methods, $/cancelRequest, notifications; "
                      "every handler outcome: fast/slow, panics; every completion point of initialization) the number of responses "
                      "per id equals the number of requests with that id received while the server answers (C24_one_response, "
                      "exactly one for distinct ids, none for other ids), no request or bad message ends the server "
                      "(C24_keeps_serving_*, C24_dead_only_by). The method table and the response-producing branches are re-extracted "
                      "from the dispatch macros on every run and bridged by `decide`; the model's responses are compared with the real "
                      "emmylua_ls binary over stdio on generated sessions, and the oracle (exactly one response per owed id after "
                      "quiescence, server still serving) is evaluated on the binary independently.",
        "level_note": "Trusted: Lean kernel, the Python stdio client/runner, the extractor, the correspondence as the tie. Modelled, not "
                      "verified: lsp_server framing/handshake (a message other than `initialized` right after the initialize result, or "
                      "anything after `exit`, is not received), tokio task semantics (a panicking task yields a JoinError). Handler bodies are "
                      "abstract (outcome = environment choice); a handler that never terminates is C28's concern. Duplicate in-flight ids: the "
                      "model cancels all tasks with the id, the server only the latest (sessions use distinct ids).",
        "trusted_base": ["stdio correspondence run against /repo's emmylua_ls binary (debug build) + T-src extraction of the "
                         "dispatch macros; lsp_server 0.7.9 transport semantics as modelled"],
        "assumptions": ["the initialization task and every handler task terminate (quiescence is reached)",
                        "request ids are not reused while a request with the same id is in flight",
                        "the client keeps the connection open until it has its responses"],
        "technique": "invariant proof (accounting of owed responses) over an executable state machine + T-src table bridge + differential run against the real binary",
    },
}

HOOK_COMMITS = []
