INDEX_TB = [
    "correspondence run (LuaModuleIndex public API + verif_report sizes vs the Index.Module model) as the tie; differential, not a proof about the Rust",
    "regex crate semantics for the anchored templates ^L0(.*)L1…$ (module patterns) and ^pre(.*)suf$ (moduleMap fragment) are modelled (greedy, '.' excludes \\n) and validated only by the same runs",
    "std::path::Path component semantics are modelled for normalised paths (single '/' separators)",
]

PROPS = {
    "C33": {
        "harness": "vh-index",
        "level_text": "Kernel-checked theorems, for every configuration, every add/re-add/remove/hide history and every require string, about an executable model of LuaModuleIndex (pattern templates and longest-first order, extract_module_path over several workspace roots, moduleMap rewrite, path-keyed node arena, file_module_map, fuzzy-name map, remove with pruning, find_module exact -> moduleMap -> fuzzy): find_module equals an independent spec resolver over the insertion-ordered set of live (file, module path); exact beats fuzzy with the stated deterministic choice among duplicates; results are live files that match; after remove a file is unresolvable. The model is compared with the real LuaModuleIndex (public API) on generated trees/histories/configs every run, and an independent Rust reference resolver is evaluated against the implementation as the oracle. Go-to-definition on the require string and the inferred module type (semantic layer on top of find_module) are not modelled.",
        "level_note": "Trusted: Lean kernel, harness/serialisers, the correspondence run as the tie. Modelled: set_module_extract_patterns, match_pattern, extract_module_path, replace_module_path (template fragment), add_module_by_path, add_module_by_module_path, LuaIndex::remove (after fix e70c5d1), set_module_visibility(Hide), find_module, find_module_node. Node ids are abstracted to node paths. Search-only: none yet for the semantic layer (definition / module type).",
        "trusted_base": INDEX_TB,
        "assumptions": [
            "file paths and workspace roots are normalised (components separated by single '/', no '.'/'..' components)",
            "moduleMap rules are of the form ^<literal>(.*)<literal>$ -> <literal>${1}<literal>; arbitrary user regexes are outside the model",
            "strict.requirePath (fuzzy on/off), patterns and moduleMap are constant over a history (a config change is followed by a reindex, C09)",
        ],
    },
}

HOOK_COMMITS = [
    "d9c73ab verif hook: cargo feature verif for emmylua_code_analysis; LuaModuleIndex::verif_report (entry counts)",
]
