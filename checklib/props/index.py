INDEX_TB = [
    "correspondence run (LuaModuleIndex public API + verif_report sizes vs the Index.Module model) as the tie; differential, not a proof about the Rust",
    "regex crate semantics for the anchored templates ^L0(.*)L1…$ (module patterns) and ^pre(.*)suf$ (moduleMap fragment) are modelled (greedy, '.' excludes \\n) and validated only by the same runs",
    "std::path::Path component semantics are modelled for normalised paths (single '/' separators)",
]

PROPS = {
    "C33": {
        "harness": "vh-index",
        "gen": ["index_fields"],
        "level_text": "Kernel-checked theorems, for every configuration, every add/re-add/remove/hide history and every require string, about an executable model of LuaModuleIndex (pattern templates and longest-first order, extract_module_path over several workspace roots, moduleMap rewrite, path-keyed node arena, file_module_map, fuzzy-name map, remove with pruning, find_module exact -> moduleMap -> fuzzy): find_module equals an independent spec resolver over the insertion-ordered set of live (file, module path); exact beats fuzzy with the stated deterministic choice among duplicates; results are live files that match; after remove a file is unresolvable. The model is compared with the real LuaModuleIndex (public API) on generated trees/histories/configs every run, and an independent Rust reference resolver is evaluated against the implementation as the oracle. Also proved: a single-? template selects exactly pre ++ m ++ suf, and ?/init.lua beats ?.lua; a moduleMap rule of the fragment rewrites exactly pre ++ m ++ suf and the rewritten path is resolved exactly before any fuzzy match (C33_mapped_exact); with several workspace roots the chosen module path is offered by a matching root and is a shortest one (C33_extract_minimal). Go-to-definition on the require string and the inferred module type (semantic layer on top of find_module) are search-only: on real analysed workspaces parse_require_module_info and the inferred type of the required value are compared with the file the reference resolver selects, before and after removing a file.",
        "level_note": "Trusted: Lean kernel, harness/serialisers, the correspondence run as the tie. Modelled: set_module_extract_patterns, match_pattern, extract_module_path, replace_module_path (template fragment), add_module_by_path, add_module_by_module_path, LuaIndex::remove (after fix e70c5d1), set_module_visibility(Hide), find_module, find_module_node. Node ids are abstracted to node paths. Search-only: the semantic layer (parse_require_module_info / module type of `local x = require(...)`).",
        "trusted_base": INDEX_TB,
        "assumptions": [
            "file paths and workspace roots are normalised (components separated by single '/', no '.'/'..' components)",
            "moduleMap rules are of the form ^<literal>(.*)<literal>$ -> <literal>${1}<literal>; arbitrary user regexes are outside the model",
            "a configuration change (update_config: extensions / requirePattern -> patterns, moduleMap, strict.requirePath) is an operation of the model and of the generated histories; the refinement to the spec resolver is claimed for histories in which every configuration change is followed by a reindex (clear + re-add), as the server does",
        ],
    },
}

LIFE_TB = INDEX_TB + [
    "correspondence runs index.db and index.sym: a real DbIndex driven through its public add_* / remove / clear methods with generated (and, thorough tier, exhaustive <= 5 step) file-tagged mutation histories vs the Index.Db / Index.Sym models (entry counts of DbIndex::verif_report + lookups over the key universe after every step)",
    "T-src extraction (checklib/gen/index_fields.py, regex over db_index/**/mod.rs) of struct fields, cleared fields and visited indexes",
    "the analyzers' cross-file inference (which mutations a file's analysis performs, given the other files) is a parameter of the theorems; its stability is judged only by the implementation-side oracle on the real EmmyLuaAnalysis",
]
LIFE_ASSUME = [
    "modelled at method granularity and tied every run: LuaModuleIndex (all maps), per-file maps (dependency, diagnostic x4, decl/flow trees, per-file reference tables), LuaGlobalIndex::global_decl, index_reference / global_references, LuaSignatureIndex, LuaPropertyIndex (description/source fields) [Index.Db, index.db]; LuaTypeIndex (global type ids), LuaOperatorIndex, LuaMetatableIndex, LuaMemberIndex incl. add_member_to_owner / set_member_owner [Index.Sym, index.sym]; theorems cover module, per-file, keyed, nested, id-owned, metatable maps and clear of all; for type / operator / member remove only the tie and the oracle; NOT modelled: workspace-internal and file-local type ids, Vfs",
    "oracle workspaces are analysed without the std library; multi-location definitions are compared as sets",
]

PROPS.update({
    "C10": {
        "harness": "vh-index",
        "gen": ["index_fields"],
        "level_text": "Kernel-checked theorems for all histories of file-tagged mutations about executable models of LuaIndex::remove: module index (no node file list, ModuleInfo or fuzzy list mentions the removed file; all other entries unchanged), per-file maps and global_decl-shaped maps (remove_exact: the state after remove(f) has exactly the lookups, and for keyed maps the entry count, of the state built from the other files' mutations alone). Also proved: remove_exact for nested reference maps, signatures and the metatable map, the exact node arena and entry counts of the module index; for the doc-property index the theorem is false on the current code (witness + partial, open finding) and two member-index witnesses reproduce the open findings in the model. Type / operator / member indexes (Index.Sym, tied by index.sym): proved remove_exact for the type declaration locations and (when a file adds super types only to types it declares) the super types - the partial-class case -, for the operators map, for the members map and for the cached owner types (types / in_filed_type_owner, first bind_type wins); C10_full_partial: for every history in which each documented owner gets its doc properties from one file (decidable predicate, the complement of the doc-property finding inside the model) remove_exact holds on every map of the Db model incl. get_property. Not proved: type_operators_map, owner_members / member_current_owner (order dependent; two witnesses), name maps. Beyond the tie these are covered by the oracle: the oracle removes and closes files of generated multi-file workspaces on the real EmmyLuaAnalysis and checks that no result mentions the file, that every per-file map has no entry for it, that add-then-remove of a probe file restores the full observable dump and does not grow any entry count of DbIndex::verif_report, and that removing everything empties every map.",
        "level_note": "Trusted: Lean kernel, harness, the two correspondence runs (index.mod, index.db) as the tie. Theorems cover the index data structures, not the analyzers that feed them. Open findings are keyed by an input predicate AND the symptom kinds their root cause explains (type-in-several-files/doc-property, class-bound-to-required-table/member-reowning); any other differing observable in such a workspace (super types, member lists, other diagnostics, other entry counts) is reported as a violation.",
        "trusted_base": LIFE_TB,
        "assumptions": LIFE_ASSUME,
    },
    "C08": {
        "harness": "vh-index",
        "gen": ["index_fields"],
        "level_text": "Kernel-checked theorems for all histories about the same models as C10: update(f) = remove + contributions leaves exactly the state that the other files' mutations followed by f's contributions build (update_exact for per-file, global_decl-shaped, nested reference and id-owned maps, and for type declaration locations / super types of partial classes, the operators map and the members map; C08_full_partial: readd_identity on every map of the Db model incl. get_property when each documented owner gets its doc properties from one file), hence re-submission is the identity whenever f's contributions are already last (readd_identity: every second re-submission, edit+restore after a re-submission); module index: re-submission idempotent and edit+restore = one re-submission at the level of the live set, hence (C33) of every require resolution. The doc-property index violates the law on the current code (witness, open finding). Everything that depends on the analyzers (which contributions a file makes given the others) is search-only: the oracle re-submits unchanged files and edit/restore pairs from a batch analysis or a reindex of generated multi-file workspaces and compares the full observable dump (diagnostics, per-token type/definition/hover doc, modules, require resolution, globals, types with members) and requires that no entry count of DbIndex::verif_report grows.",
        "level_note": "Trusted: Lean kernel, harness, correspondence runs. A first re-submission moves a file's items to the end of shared vectors (proved exact law); the oracle treats multi-location definition lists as sets. Open findings are keyed by an input predicate AND symptom kinds (type-in-several-files/doc-property, global-in-several-files/analysis-order, class-bound-to-required-table/member-reowning); every other differing observable is reported as a violation.",
        "trusted_base": LIFE_TB,
        "assumptions": LIFE_ASSUME,
    },
    "C09": {
        "harness": "vh-index",
        "gen": ["index_fields"],
        "level_text": "T-src bridge: the field list of DbIndex and of every index struct, the fields each LuaIndex::clear resets and the indexes DbIndex::clear / remove visit are extracted from the source on every run (Gen/IndexFields.lean); kernel-checked: every DbIndex field except vfs/emmyrc is cleared, every field of every index is reset by its clear except a listed set of configuration fields (and JsonSchemaIndex::schema_files, whose clear is a TODO in the source), and the models' clear empties a map iff the source resets its field, so clear_is_new / reindex_eq_fresh / no-stale-entry hold only while the source keeps clearing every modelled field. Also proved: after any history with update_config steps, clear + the live files' adds under the final configuration = a fresh index under that configuration (C09_config_then_reindex_eq_fresh). Beyond that the property is carried by the tie and the oracle (histories include config reloads: moduleMap non-empty/empty/other, runtime.extensions, requirePattern, requireLikeFunction, strict.requirePath, workspace root and library lists; the fresh analysis runs under the final configuration): the correspondence runs execute the real LuaModuleIndex::clear / DbIndex::clear in the middle of generated histories and compare every entry count and lookup with the model afterwards, and the oracle runs histories of update / re-submit / remove / close / reindex on the real EmmyLuaAnalysis, reindexes, and compares the full observable dump and every entry count of DbIndex::verif_report (which destructures DbIndex and every index exhaustively, so a field added later breaks the hook build until it is counted) with a fresh analysis of the surviving files loaded in file-id order.",
        "level_note": "Trusted: Lean kernel, harness, correspondence runs, the verif_report hook. The theorems are thin by construction; a clear() that forgets a field is caught by the oracle's count comparison (e.g. the fixed LuaMemberIndex::member_current_owner) and, for modelled maps, by the tie. The Vfs path<->id maps keep closed files and are excluded from the count comparison.",
        "trusted_base": LIFE_TB,
        "assumptions": LIFE_ASSUME,
    },
})

HOOK_COMMITS = [
    "f59cab3 verif hook: DbIndex::verif_report() - entry counts of every map of every index and of the Vfs (exhaustive destructuring)",
    "d9c73ab verif hook: cargo feature verif for emmylua_code_analysis; LuaModuleIndex::verif_report (entry counts)",
]
