DIAG_TB = [
    "correspondence run through the public VirtualWorkspace/diagnose_file for the tie (differential, not a proof about the Rust)",
    "emmylua_parser syntax tree as the source of comment/block ranges (the model starts at what analyze_diagnostic reads off the tree)",
    "rowan TextRange = half-open u32 byte ranges with start <= end",
]

PROPS = {
    "C19": {
        "harness": "vh-diag",
        "level_text": "Kernel-checked theorems for all line tables / tag lists / codes / ranges about the Diag model of diagnostic_tags.rs + DiagnosticAction::is_match: a diagnostic is dropped iff a tag selecting its code has an occupied position in its scope by lines (comment..next line / own line / enclosing block; the end-of-file position belongs to the last line), touching ranges and other codes/lines/blocks unaffected, file-level set iff a top-level `disable: codes`; the model's surviving set is compared with the real diagnose_file on generated programs every run, and the property statement is evaluated by lines on the implementation independently.",
        "level_note": "Trusted: Lean kernel, harness/serialisers, the correspondence run as the tie. Modelled: analyze_diagnostic*, LuaDocument::get_line/get_line_range, scope_end_of_line, DiagnosticAction::is_match (after the half-open fix), is_checker_enable_by_code. Not modelled: the parser (comment and block ranges are inputs, validated per case), how each checker computes its ranges.",
        "trusted_base": DIAG_TB,
        "assumptions": [
            "TagOK: a comment node is non-empty, inside the text and inside its enclosing LuaBlock, which is inside the text (checked on every generated input)",
            "texts shorter than 2^32 bytes",
        ],
        "technique": "Lean 4 theorems over an executable model + differential correspondence run + by-lines oracle",
    },
    "C20": {
        "harness": "vh-diag",
        "gen": ["diag_table"],
        "level_text": "T-exec: the truth table of the real is_checker_enable_by_code over all codes x {workspace enabled, workspace disabled, meta, file enabled, file disabled}, is_code_default_enable over all codes x language levels, get_default_severity and get_severity over all codes x overrides is regenerated from /repo on every run and the readable Lean decision functions are checked against every row by `decide +kernel`; the six clauses of the statement are kernel-checked theorems about those functions for all codes and all configurations; globals/globalsRegex, meta/library/std/outside placement and diagnostics.enable=false are tied by a correspondence run through diagnose_file (prediction from the all-enabled run of the same program) with an independent clause-by-clause oracle.",
        "level_note": "Trusted: Lean kernel, the verif hook diagnostic_verif (4 one-line wrappers), harness/serialisers. Modelled: is_checker_enable_by_code, get_severity, defaults, diagnose_file gates, the configuration part of the undefined-global name filter. Not modelled: the regex engine (evaluated by the harness with the same crate), how LuaDiagnosticConfig is deserialised (exercised through real Emmyrc JSON in the correspondence run). Meta clause is partial: a meta file that enables a code itself reports it (known finding).",
        "trusted_base": DIAG_TB + ["verif hook e3c6daf: diagnostic_verif::{checker_enabled, severity, default_enabled, default_severity} call the private functions unchanged"],
        "assumptions": ["each checker's diagnostics for one code do not depend on which other codes are enabled (validated by the correspondence run: prediction from the all-enabled run)"],
        "technique": "T-exec table + decide +kernel bridge + clause theorems + correspondence run",
    },
    "C21": {
        "harness": "vh-diag",
        "level_text": "Kernel-checked theorems: translate_range (+ the 0:0 fallback) yields, for every text and every byte range start<=end (in the text or not, on char boundaries or not), an LSP range with start<=end and both ends inside the document, and is position-preserving and injective on char-boundary ranges (via the C22 round trip); the parse-error loop of SyntaxErrorChecker is complete (every gated parse error appears with its code, message, location), sound, injective and duplicate-free for all error lists. The model's list for the real parse errors of each generated file is compared with what diagnose_file emits (each exactly once) every run; the whole statement (ranges in document, start<=end, known code, severity, no placeholders, no exact duplicates, every parse error present) is evaluated on the real output of all checkers independently. Partial: the byte ranges the other ~40 checkers compute are not modelled (oracle only).",
        "level_note": "Trusted: Lean kernel, harness/serialisers, the correspondence run as the tie; LineIndex is the C22/C23 model (its own tie). Not modelled: range computation inside the individual checkers, message rendering (rust-i18n) - both covered by the oracle only.",
        "trusted_base": DIAG_TB,
        "assumptions": ["parse-error ranges are char-boundary ranges of the text (ErrOK; checked on every generated input)", "texts shorter than 2^32 bytes"],
        "technique": "Lean 4 theorems over the Text/Diag models + correspondence run + statement-level oracle on all checkers' output",
    },
}

HOOK_COMMITS = ["e3c6daf verif hook: expose the diagnostic enable/severity decision functions (feature verif)"]
