DIAG_TB = [
    "correspondence run through the public VirtualWorkspace/diagnose_file for the tie (differential, not a proof about the Rust)",
    "emmylua_parser syntax tree as the source of comment/block ranges (the model starts at what analyze_diagnostic reads off the tree)",
    "rowan TextRange = half-open u32 byte ranges with start <= end",
]

PROPS = {
    "C19": {
        "harness": "vh-diag",
        "level_text": "Kernel-checked theorems for all line tables / tag lists / codes / ranges about the Diag model of diagnostic_tags.rs + DiagnosticAction::is_match: a diagnostic is dropped iff a tag selecting its code has an occupied position in its scope by lines (comment..next line / own line / enclosing block), touching ranges and other codes/lines/blocks unaffected, file-level set iff a top-level `disable: codes`; the model's surviving set is compared with the real diagnose_file on generated programs every run, and the property statement is evaluated by lines on the implementation independently.",
        "level_note": "Trusted: Lean kernel, harness/serialisers, the correspondence run as the tie. Modelled: analyze_diagnostic*, LuaDocument::get_line/get_line_range, DiagnosticAction::is_match (after the half-open fix), is_checker_enable_by_code. Not modelled: the parser (comment and block ranges are inputs, validated per case), how each checker computes its ranges.",
        "trusted_base": DIAG_TB,
        "assumptions": [
            "TagOK: a comment node is non-empty, inside the text and inside its enclosing LuaBlock (checked on every generated input)",
            "texts shorter than 2^32 bytes",
        ],
        "technique": "Lean 4 theorems over an executable model + differential correspondence run + by-lines oracle",
    },
}

HOOK_COMMITS = []
