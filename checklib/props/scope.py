SCOPE_TB = [
    "correspondence run (real decl analyzer + reference index + SemanticModel::find_decl(NoTrace) vs the Lean model "
    "Scope.implementation through vdriver) for the tie; the renderer AST -> Lua text in harness/vh-scope/src/ast.rs",
    "the model of the walk keeps only the open scopes; that the lookup starts at find_scope(position) is proved on explicit "
    "scope ranges (scope_tree_well_nested, find_scope_path, find_scope_is_innermost_open_scope, "
    "in_body_block_iff_next_is_block) and additionally evaluated on every lookup of every generated program (scope.findscope)",
]

PROPS = {
    "C13": {
        "harness": "vh-scope",
        "level_text": "Kernel-checked theorem find_eq_lua: for every program of the modelled Lua fragment (locals, "
                      "multi-assignment, local function, function statement, closures with parameters, numeric/generic "
                      "for, while, repeat-until, do, if, calls, local with attribute, method / field function statements with implicit "
                      "self, vararg) the resolution recorded by the Lean model of the decl "
                      "analyzer's scope tree + during-walk find_decl equals the reference environment-passing resolver "
                      "LuaScope at every name use. The model is compared with the real analyzer on an exhaustive family "
                      "of small programs + seeded random programs every run; independently LuaScope (the spec) is compared "
                      "with the real resolution.",
        "level_note": "Trusted: Lean kernel, harness/renderer, the correspondence run as the tie (differential, not a proof "
                      "about the Rust). Modelled: DeclAnalyzer scope creation/decl insertion (decl/mod.rs, stats.rs, exprs.rs), "
                      "LuaDeclarationTree::{find_local_decl, visit_visible_decls, search_scope_children, visit_child_scope}. "
                      "MethodStat scopes are modelled as FuncStat (identical treatment in decl_tree.rs). Not modelled: goto labels, "
                      "table fields, _G/_ENV indexing, doc tags, cross-file globals; SemanticModel::find_decl is not compared on `self` "
                      "(answers the method's receiver by design) and `...` tokens.",
        "trusted_base": SCOPE_TB,
        "assumptions": ["programs are syntactically valid and built from the modelled statement/expression forms",
                        "observation = the raw during-walk resolution (reference index / find_decl at NoTrace level)"],
        "technique": "proof (Lean 4) + correspondence + implementation-side oracle",
        "design_ref": "DESIGN.md §6 C13, Appendix A.3; notes/scope.md",
    },
    "C14": {
        "harness": "vh-scope",
        "level_text": "Kernel-checked theorems about the model of rename/references of a local declaration (edit set = "
                      "declaration token + reference-index cells): refs_eq_uses (recorded references = the uses Lua scoping "
                      "binds to the declaration, via C13 find_eq_lua), references_eq_rename, rename_edits_disjoint / "
                      "rename_edits_sorted (one edit per token, declaration before its uses), "
                      "rename_preserves_binding (applying the edits at their token positions with a name not occurring in the "
                      "program leaves every resolution unchanged: proved via rename_edits_are_alpha = the edit positions "
                      "rewrite exactly the declaration token and the uses the environment binds to it, and "
                      "alpha_preserves_binding; freshness is necessary). The LS rename and references handlers run in-process at every declaration and use token of "
                      "generated programs and are compared with the model; independently the oracle checks single-token "
                      "non-overlapping edits = {decl} + {uses bound by the reference resolver}, references = same set, and "
                      "apply-with-fresh-name + re-analysis = same resolution.",
        "level_note": "Trusted: Lean kernel, harness/renderer, the correspondence run as the tie. Not modelled: references' alias tracing (SemanticDeclLevel::Trace) "
                      "for `local g = f` (open known finding, references tie skipped on those tokens), rename of globals, "
                      "members, doc @param tags, cross-file references.",
        "trusted_base": SCOPE_TB + ["hook emmylua_ls::verif_scope (re-export of rename/references entry points)"],
        "assumptions": ["the renamed declaration is local (local, parameter, loop variable, local function)",
                        "the new name does not occur in the program"],
        "technique": "proof (Lean 4) + correspondence + implementation-side oracle",
        "design_ref": "DESIGN.md §6 C13/C14; notes/scope.md",
    },
}

HOOK_COMMITS = ["0b8676c verif hook: emmylua_ls::verif_scope re-exports the in-process rename and references entry points (feature verif)"]
