"""Registry fragment of the concurrency cluster (Locks: C28; Sched: C27, C29, C30)."""

SCHED_TB = [
    "Python extractor checklib/gen/sched_locks.py / sched_dispatch.py (reads the Rust text); cross-validated each run by the H4 trace of the real server",
    "hook H4 (crates/emmylua_ls/src/verif_locks.rs): traced tokio RwLock/Mutex wrappers + seeded scheduling points, feature `verif`",
    "Python stdio client checklib/run/sched_lsp.py driving the real emmylua_ls binary",
    "tokio::sync::{RwLock,Mutex} are FIFO-fair (writer-preferring) as modelled",
]

PROPS = {
    "C27": {
        "harness": None,
        "runner": "checklib/run/sched_run.py",
        "gen": ["sched_dispatch"],
        "pre": ["sched_build_ls"],
        "level": "proof",
        "level_text": "Kernel-checked theorem about the Sched model (main loop taking messages in order, inline handlers run to completion, spawned handlers interleave arbitrarily, handlers = their lock-protected sections): for every notification list, every initial state and every schedule, if didOpen/didChange/didClose are dispatched inline the editor-text map and the analysed text of every document at quiescence equal the message-order result (last open/change text; closed last => disk content or absent); every schedule is finite. The dispatch lists are regenerated from the dispatch_notification! invocation on every run and the hypothesis is discharged for them by decide; a counter-schedule theorem shows the pinned tree's dispatch (didOpen/didClose spawned) loses an edit. The real server is driven with generated notification bursts under seeded scheduling perturbation and the analysed texts compared with the model and with the property's own oracle. Partial: tokio's scheduler is not exhibited.",
        "level_note": "Partial by nature: the model has atomic handler sections and an arbitrary interleaving of spawned tasks, not tokio's scheduler; only workspace files (should_process = true). Trusted: Lean kernel, the macro extractor, the stdio client, documentSymbol as the observation of the analysed text.",
        "trusted_base": SCHED_TB,
        "assumptions": [
            "a handler section that runs under one write lock is atomic",
            "documents are workspace files (should_process = true)",
            "handlers do not look at LSP version numbers (checked on the source by C27_version_independent; sessions send editor-style, low, equal, global and malformed versions)",
            "the main loop awaits a `sync:` handler before taking the next message (checked on the macro definition by the extractor)",
        ],
        "technique": "invariant over a step relation (remaining main-loop work applied to the store = specification); T-src dispatch lists bridged by decide; correspondence sessions against the real server",
        "timeout": 1500,
        "timeout_thorough": 3600,
    },
    "C29": {
        "harness": None,
        "runner": "checklib/run/sched_run.py",
        "gen": ["sched_reload"],
        "pre": ["sched_build_ls"],
        "level": "proof",
        "level_text": "Kernel-checked theorems about the SchedReload model (inline document handlers in message order against any number of serialised reloads: snapshot (version, open files) under the workspace-manager lock, clear, rebuild from disk + snapshot, then the sync_reloaded_open_files loop): for every notification list, every number of reload requests, every disk content and every interleaving of main-loop and reload steps, at quiescence every open file is analysed with its editor text and every other file with its disk content (absent when not on disk); every schedule is finite (the loop cannot spin). Counter-schedule theorems (decide) for the model without the loop / without the version bump on close. The mechanisms (version bump in every mutator of open_file_texts, loop shape, atomic snapshot, reload prefers open text) are re-extracted from the source on every run; sessions race real reloads (config change) with edit bursts on the real server and observe the analysed texts. Partial: disk fixed during a run, tokio's scheduler not exhibited.",
        "level_note": "Partial by nature: each lock-protected section is one atomic step and steps interleave arbitrarily; the disk does not change during a run; reloads are serialised (reload_lock) and versions do not wrap; all documents are workspace files. Trusted: Lean kernel, the structural extractor, the stdio client, documentSymbol as observation, the H4 trace for the overlap statistic.",
        "trusted_base": SCHED_TB,
        "assumptions": [
            "document notifications are handled inline in message order (C27)",
            "reloads are serialised by reload_lock; a skipped (stale generation) request does nothing",
            "the handlers record the editor text unconditionally and test workspace membership in the same critical section (checked on the source: C29_cfg_real, C29_snapshot_facts); a reload installs its matcher and takes its snapshot in one critical section",
            "nothing is claimed about documents that are not workspace files at the end",
            "the disk content does not change during the run; open_file_state_version does not wrap",
        ],
        "technique": "invariant (consistent / fixed by the current handler / still covered by the reload task) preserved by every step; decreasing measure for termination; decide'd counter-schedules; T-src mechanism flags; oracle sessions",
        "timeout": 1800,
        "timeout_thorough": 5400,
    },
    "C30": {
        "harness": None,
        "runner": "checklib/run/sched_run.py",
        "gen": ["sched_diag"],
        "pre": ["sched_build_ls"],
        "level": "proof",
        "level_text": "Kernel-checked theorem about the SchedDiag model (main loop handling edits/removals in order; add_diagnostic_task = cancel stored token, store a fresh token, spawn; the task wakes at an arbitrary time or exits when cancelled, diagnoses the current text and publishes under the analysis read lock, removes the map entry; other under-lock publishers at any time): for every event list and every schedule, at quiescence the last publication of every file is the diagnosis of the text analysed now and a removed file ends with the empty set. Counter-schedule theorems (decide) show that publishing outside the lock or not replacing the token breaks it. The two mechanisms and the update-then-schedule order are re-extracted from file_diagnostic.rs / the handlers on every run; sessions against the real server compare the last publishDiagnostics per file with a fresh pull diagnosis. Partial: real timers and cross-file dependencies of diagnoses are not modelled.",
        "level_note": "Partial by nature: debounce = 'fires at any time after the spawn or is cancelled'; diagnosis is a function of one file's text (sessions are judged on self-contained files only); workspace-wide diagnostic tasks are the generic under-lock publisher. Trusted: Lean kernel, the structural extractor for the two mechanisms, the stdio client.",
        "trusted_base": SCHED_TB,
        "assumptions": [
            "the diagnosis of a file depends on that file's analysed text only (self-contained files)",
            "document notifications are handled inline in message order (C27)",
            "a publication made while holding the analysis read lock is ordered with the writes to the analysis",
        ],
        "technique": "invariant (settled / owed by the main loop / witnessed by a live un-cancelled task) preserved by every step; decide'd counter-schedules for the weakened configurations; T-src mechanism flags; oracle sessions",
        "timeout": 1500,
        "timeout_thorough": 3600,
    },
    "C28": {
        "harness": None,
        "runner": "checklib/run/sched_run.py",
        "gen": ["sched_locks"],
        "pre": ["sched_build_ls"],
        "level": "proof",
        "level_text": "Kernel-checked theorems about the Locks model (FIFO-fair read/write locks; request/grant/release steps; wait-for-tasks steps) for every number of tasks, every set of programs and every schedule: programs that take locks in one global order on lock objects and that, while holding locks, wait only for later-spawned tasks whose remaining lock needs are all above what they hold, never reach a stuck state; every run is finite and every maximal run finishes all tasks; locks exclude. Tied to the source by two regenerated tables: all async lock-acquisition sites of emmylua_ls with their may-held sets (sites_ok by decide, lifted by Conforms => Disciplined) and all other awaits inside guard scopes with held set, needs of the awaited party and time-boundedness (awaits_ok by decide); the site table is cross-validated on every run against lock traces of the real server, the await table by a watchdog session with a workspace diagnostic in flight. Witness theorems: the order documented on the pinned tree deadlocks, re-acquisition deadlocks, draining children's channel under a lock they need deadlocks.",
        "level_note": "Partial by nature: the model covers acquisition order of the seven tokio locks and waits for other server tasks on straight-line paths; waits for the client or an external process are covered only through their time bounds (allow-list justified in notes/sched.md); it does not exhibit tokio's scheduler or std::sync::Mutex sections. Trusted: Lean kernel, the extractor (site table validated dynamically: every traced acquisition must be a listed site with held set inside the may-held set; the await table cannot be traced by the add-only hook), hook H4, tokio's fairness.",
        "trusted_base": SCHED_TB,
        "assumptions": [
            "tokio RwLock/Mutex grant in FIFO order (a reader behind a queued writer waits); a lock is released only by its holder",
            "every path of a handler acquires locks only at extracted sites while holding a subset of the site's may-held set (checked on traces, not proved about rustc)",
            "an await classified time-bounded (sleep, timeout(..), a request carrying time_cancel_token) ends after that time; a bounded-channel send ends when the receiver keeps receiving or drops the channel",
            "tasks wait for other server tasks only through the extracted await sites",
        ],
        "technique": "invariant + progress proof over a step relation; T-src site table bridged by decide; trace conformance",
        "timeout": 1500,
        "timeout_thorough": 3600,
    },
}

# fixes made for this cluster: 0a27a3b, 8a52666, fe1e3f7, e491074, 5bda623, 23fb65c
HOOK_COMMITS = [
    "e302802 verif hook: H4 traced RwLock/Mutex wrappers and seeded scheduling points in emmylua_ls (feature verif)",
    "30c803d verif hook: rustfmt import order of the cfg-switched lock imports (H4)",
]
