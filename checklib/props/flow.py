FLOW_TB = [
    "correspondence run for the tie: TypeAt (Lean model, through vdriver) vs SemanticModel::infer_expr at every probe of generated F programs; Sem (Lean model) vs the bundled luars VM on the same programs",
    "VirtualWorkspace (public test API of emmylua_code_analysis) builds the semantic model; luars 0.26 (Lua 5.5 VM, same author as the analyzer) is the execution oracle",
]

PROPS = {
    "C15": {
        "harness": "vh-flow",
        "level_text": "Partial. Kernel-checked theorems for ALL programs of the fragment language F (locals with literal initialisers, literal reassignments x=<lit>, variable assignments x=y, if/elseif/else, guards x, type(x)==/~=\"T\", x==/~=nil, x==/~=<literal>, t_x==/~=\"T\" for a stored local t_x=type(x), under any not/and/or nesting; no bound on size), under the decidable side condition storedSafe (stored-type guards only on variables that are never assigned - the pinned tree violates the statement otherwise: open finding C15-stale-stored-type with C15_witness_stored): narrow_sound (if execution reaches a probe with x=v, the type the model of get_type_at_flow infers there contains v, value-level for literal/boolean-constant types), its type()-level corollary, unreachable_sound (a probe typed never/unknown is never executed), and the per-operation obligations (remove_false_or_nil, narrow_false_or_nil, type-guard narrow/remove, ==nil intersect/remove, TypeOps::Union, assignment result). The model (flow graph of bind_analyze + the three-mode backward walk in forward form + the LuaType union algebra) is compared on every run with SemanticModel::infer_expr at every probe of generated programs (exact member lists, reached or not), its semantics with the luars VM trace, and independently every reached probe's VM runtime type must be included in the implementation's inferred type.",
        "level_note": "Trusted: Lean kernel (axioms propext, Quot.sound, Classical.choice at most), harness + canonical type serialiser, the correspondence run as the tie (differential, not a proof about the Rust), luars as the execution oracle. Outside F and therefore search-only/not covered: loops (C41), functions/calls, member paths, casts, correlated multi-return conditions, doc-typed locals, the explicit-stack scheduler and its caches (the model evaluates each (variable,node,mode) query as a function).",
        "trusted_base": FLOW_TB,
        "assumptions": [
            "programs are in the fragment F (anything else is outside the theorem and only searched)",
            "storedSafe: a guard on a stored `type(v)` is covered by the theorem only when v is never assigned (otherwise: open finding, search)",
            "a runtime value belongs to `unknown` is NOT assumed by the theorem (unknown has no members in the model); the implementation-side oracle uses the usual reading unknown/any = every value",
        ],
        "technique": "Lean 4 proof (structural induction over F with a three-mode soundness invariant) + differential correspondence + VM execution oracle",
        "design_ref": "DESIGN.md §6 C15/C41, notes/flow.md",
    },
    "C41": {
        "harness": "vh-flow",
        "level_text": "Partial, and the pinned tree violates the full statement (three open known findings keyed by syntactic predicates of the input program). Kernel-checked: C41_witness (by decide: after `local k=nil; while not k do k='x' end` the model of bind_while_stat/get_type_at_flow infers `nil` at a probe the run reaches with a string) plus the witnesses for the generic-for exit and the missing back edge; C41_partial (per variable): for EVERY program of FL (F + while c / while true / repeat-until / numeric for with literal bounds / for-in / conditional break, any nesting, no size bound) and every set W of variables that contains the variables assigned in loop bodies and is closed under x=y, every terminating run and every probe of a variable outside W (inside bodies, on exit paths, after loops) has its value contained in the inferred type (induction on the fuel of the big-step semantics); loop bodies may assign the variables of W freely. C41_partial_inert is the W=empty case. C41_entered_loop_sound: the loop forms whose exit the analyzer merges (while true ... break, numeric for with statically entered literal bounds, repeat ... until c without break) are sound for a variable x their body assigns provided the loop does not read x (decidable loopOK2; proof by non-interference of the body in x and the iteration invariant `env = pre-loop env or sound at the abstract end of the body`): every reached probe of x after such a loop has its value in the inferred type. The model of the loop binders is compared on every run with SemanticModel::infer_expr at every probe (exact member lists, including the programs inside the findings' predicates — the model reproduces the defects), its semantics with the luars VM and with a harness-side interpreter, and the property's oracle (VM runtime type in inferred type at every reached probe) runs on the implementation; failures count as known only when the program satisfies a listed predicate.",
        "level_note": "Trusted: Lean kernel, harness + serialisers, correspondence run as the tie, luars as execution oracle. Not covered by a theorem (search only): loops whose bodies assign variables (that is where the defect lives), `continue`, `goto`, numeric for with non-literal bounds, everything outside F (see C15).",
        "trusted_base": FLOW_TB,
        "assumptions": [
            "theorems cover the variables that no loop body assigns (and that receive no value from such a variable), plus one variable assigned in entered loops (while true / entered numeric for / break-free repeat) that do not read it; runs terminate within the fuel given (no bound on the fuel)",
            "diagnostics clause searched: after a break-free loop whose exit condition proves v non-nil, `v:upper()` that the VM executes must not get need-check-nil `v may be nil` / call-non-callable on never",
            "open findings C41-while-exit, C41-generic-for-exit, C41-no-back-edge suppress oracle failures only for programs that satisfy their syntactic predicate",
        ],
        "technique": "Lean 4 proof (witness by decide, partial soundness by induction on fuel) + differential correspondence + VM execution oracle",
        "design_ref": "DESIGN.md §5 row C41, §6 C15/C41, notes/flow.md",
    },
}

HOOK_COMMITS = []
