TY_TB = [
    "correspondence run as the tie: real LuaType values obtained from generated annotations through the public analysis pipeline (VirtualWorkspace, SemanticModel::type_check, TypeOps) are serialised into the model syntax by the harness; the serialiser orders the members of nested unions canonically (the Rust == on unions is order-insensitive)",
    "declarations (class/alias, super lists) are read back from the real LuaTypeIndex, not from the generator",
]

PROPS = {
    "C16": {
        "harness": "vh-types",
        "level_text": "Kernel-checked theorems about an executable Lean model of union_type / union_type_all / can_use_structural_union / LuaType::from_vec and of check_type_compact (with its level guard) for the annotation fragment: batch union = pairwise fold for every list and environment (up to the order of union members, which is the equality of LuaUnionType); reflexivity for every well-formed type (decidable wf: declared classes, unions of distinct atoms, arrays / tuples / table<...> / records nested arbitrarily, within an explicit guard-level and fuel budget), extended (wfA) to references to anything - classes, aliases including recursive ones, undeclared names - standing alone, as tuple members, table<...> parameters and record fields at any nesting, and as array elements when the name does not resolve to any, never or a nil-free union; the union-member law for unions of atoms and for unions of atoms plus one compound member (array / tuple / table<...> / record of any nesting; atoms against a compound type and a compound type against atoms are proved to be answered ok / TypeNotMatch, never a hard error that would abort the member scan) together with the reflexivity of such unions, combined in one decidable predicate wfB (arbitrary references and unions with at most one distinct compound member in every position, array elements included), acceptance of every descendant where an ancestor is expected for inheritance chains of any length (completeness of the is_sub_type_of walk on every graph), any/unknown on both sides, and the guard's TypeRecursion branch for arrays nested 51+ deep; the model is compared with the real functions on generated declarations/types/lists/pairs every run, and the laws are evaluated on the real checker independently.",
        "level_note": "Trusted: Lean kernel, harness serialiser, the differential run as the tie (not a proof about the Rust). Modelled: db_index/type/type_ops/union_type.rs, LuaType::from_vec, LuaUnionType::{from_vec,into_vec,eq}, get_real_type, semantic/type_check/{mod,simple_type,ref_type,sub_type,complex_type/*} restricted to the fragment (no generics/enums/members/variadics/table literals); types outside the fragment are counted and skipped.",
        "trusted_base": TY_TB,
        "assumptions": [
            "fragment: basic kinds, literal constants, class/alias references, arrays, tuples, table<K,V>, name-keyed objects, opaque doc functions, unions; classes without members",
            "TypeCheckCheckLevel::Normal, detail = false, default strict settings as reported by the workspace",
        ],
        "timeout": 900,
        "timeout_thorough": 3600,
    },
    "C17": {
        "harness": "vh-types",
        "level_text": "Kernel-checked theorems about an executable Lean model of TypeHumanizer at RenderLevel::Documentation (layout as a syntax tree, level stepping, item limits, depth guard) and of the doc type parser + infer_type for the C17 sub-grammar: for every syntax tree of the sub-grammar the parser reads back exactly what the printer wrote, hence for every type that fits, parsing the rendering consumes it completely and converts the very tree the renderer laid out (no regrouping of unions / optionals / arrays, no changed literal token); the full statement parse(render t) = t is proved for basic kinds, doc literals, non-alias references, arrays, table<...> of any arity, name-keyed records and `T?` over these, nested to any depth the renderer does not truncate; for a union of any number of distinct such members (with or without nil) parse(render t) = readNorm t is proved, where readNorm is the reader's `|`-fold (from_vec of the two sides) followed by the `?` reader, and readNorm t is proved to have exactly the members of t (order aside; `any?`, which reads back as `any`, excluded); the renderer and the reader models are compared with humanize_type and with the real annotation analysis on generated types every run, and render -> `---@type` -> compare is evaluated on the implementation independently. Partial: unions whose members are themselves multi-member unions, member lists with duplicates (never built by LuaType::from_vec), references to aliases and the `unknown` kind are not covered by the conversion theorems and are checked by the runs only.",
        "level_note": "Trusted: Lean kernel, harness serialiser, differential runs as the tie; the character level (escaping, lexing) is modelled and compared but not part of the theorem. Modelled: humanize_type.rs write_type/write_union_type/write_array_type/write_table_generic_type/write_object_type/write_hover_escape_string, grammar/doc/types.rs parse_type..parse_suffixed_type, infer_type for names/literals/nullable/array/union/table/object.",
        "trusted_base": TY_TB + ["the text layer (showType / lex) of the model is tied by the runs only"],
        "assumptions": [
            "sub-grammar: basic kinds, doc literals, class/alias references, unions, optionals, arrays, table<K,V>, name-keyed records; functions and tuples are excluded by the property",
            "a top-level `table` is read back through its name because `---@type table` denotes a table literal",
        ],
        "timeout": 900,
        "timeout_thorough": 3600,
    },
    "C18": {
        "harness": "vh-types",
        "level_text": "Kernel-checked theorem about an executable Lean model of tpl_pattern_match (first candidate wins, arrays / table<K,V> / parameterless functions descend, a union pattern matches the whole target) and instantiate_type_generic with literal widening: for every parameter list (the optional pattern `T?` included, after the fix that lets it consume the argument's nil), every assignment of argument components and every return type over the parameters' template variables, calling with the instances infers the return type with the (literal-widened) components substituted; only the last argument expands to several values, which line up with the parameters after the plain arguments. The model is compared with the inferred type of `local r = f(arg...)` on generated calls every run, and an independent oracle (declared return type with the bindings substituted, read through the real annotation analysis) is evaluated on the implementation.",
        "level_note": "Partial by the scope of the property: overload resolution, conditional / mapped generics, variadic template parameters, constraints, class generics and string templates are outside the model; the template family is 1-3 template parameters with parameter / return patterns over T, T[], T[][], table<string,T>, table<T,boolean>, table<integer,T>, table<T,U>, [T,string], [T,U], [T,U,V], {x:T,y:integer}, fun(a:T):integer, fun():T, T? and nestings, with arguments given as typed locals, literals, multi-value calls at any position and `...`. Trusted: Lean kernel, harness serialiser, differential run as the tie.",
        "trusted_base": TY_TB,
        "assumptions": [
            "arguments are variables annotated with `---@type`, or literal expressions for the identity template",
            "template parameters are not `const`",
        ],
        "timeout": 900,
        "timeout_thorough": 3600,
    },
    "C12": {
        "harness": "vh-types",
        "level_text": "Partial. Kernel-checked theorems about the recursion guards only, as walks over an arbitrary finite declaration graph with cyclic aliases and cyclic inheritance allowed: TypeCheckGuard admits levels 1..100 and every guarded recursion past it answers TypeRecursion; get_alias_real_type never needs more than 102 - level steps for any graph; get_real_type stops after ten hops; super_reaches never re-enters a visited declaration; the humanizer renders nothing once its depth guard is used up; re-entering the unfolding of an alias for the same compact type answers TypeRecursion at once (after the alias-in-progress fix); witnesses for cyclic inheritance, cyclic aliases and the formerly exponential cyclic union aliases; the depth-guarded walks over alias-resolved union members (remove_type / intersect_type / narrow_down_type / has_non_callable_member) stop at depth 0 and make at most 1 + b + ... + b^d calls on any graph; a generic alias in the substitutor's chain is not unfolded again, and member lookup unfolds a growing generic alias at most 32 - level times. The check_type_compact model is compared with the implementation on generated cyclic graphs every run (in a child process with a time budget). Everything else is search only: the whole pipeline (index, full diagnostics, semantic info at every token) on generated and mutated annotated programs (incl. recursive, mutually recursive and growing generic aliases used in member access, calls, assignments, narrowing and rendering; dense multi-super inheritance cycles; tuple templates) x 2 configurations in child processes with a 2 MiB stack, catch_unwind and a per-program time budget.",
        "level_note": "Proof level covers the guards; crash-freedom of the rest of the pipeline is exploration-level evidence. Not proved: that the model's fuel is never exhausted by check_type_compact as a whole (the same-level recursion through union members), nor any bound on total work below the guard (see finding C12-cyclic-alias-blowup).",
        "trusted_base": TY_TB + ["child processes: a program that kills or hangs the child is attributed by the progress file"],
        "assumptions": ["2 configurations (default strict flags / relaxed), no standard library loaded", "time budget 10 s per program, 5 s per check_type_compact call"],
        "timeout": 1500,
        "timeout_thorough": 7200,
    },
}

HOOK_COMMITS = []
