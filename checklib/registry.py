"""Per-property configuration for ./check, assembled from checklib/props/*.py (one file per cluster).

Each cluster file defines:
  PROPS = { "Cxx": {...}, ... }      (required keys: harness, level_text, level_note)
  HOOK_COMMITS = ["<sha> <subject>", ...]      (optional; guarded hook commits made in /repo)
  NOT_CLAIMED_REASON = {"Cxx": "reason"}       (optional)
Optional keys per property: lean_modules (default ["EmmyVerif.Props.Cxx"]), gen (list of python module
names under checklib/gen exposing generate(root, repo, log)), cargo_args, harness_args, timeout,
trusted_base, assumptions, level (default "proof"), technique, design_ref, pre (list of python
module names under checklib/pre exposing run(root, repo, tier, seed, log) -> dict, executed before the
harness, e.g. to build repo binaries).
"""
import glob, os, importlib.util

PROPS, HOOK_COMMITS, NOT_CLAIMED_REASON = {}, [], {}
_here = os.path.dirname(os.path.abspath(__file__))
for _p in sorted(glob.glob(os.path.join(_here, "props", "*.py"))):
    _spec = importlib.util.spec_from_file_location("props_" + os.path.basename(_p)[:-3], _p)
    _m = importlib.util.module_from_spec(_spec)
    _spec.loader.exec_module(_m)
    PROPS.update(getattr(_m, "PROPS", {}))
    HOOK_COMMITS += getattr(_m, "HOOK_COMMITS", [])
    NOT_CLAIMED_REASON.update(getattr(_m, "NOT_CLAIMED_REASON", {}))
