#!/usr/bin/env python3
"""Runner of the concurrency cluster: drives the real `emmylua_ls` (built with hook H4) over stdio.

  sched_run.py C27|C28|C29|C30 --tier quick|thorough --seed N --out FILE [--replay FILE]

Same report contract as the Rust harnesses (see AGENT_GUIDE): `mismatches` = model/extractor vs
implementation, `oracle_failures` = the implementation (or, for schedule replays, the model of the extracted
programs) violates the property.
"""
import sys, os, json, time, random, shutil, itertools

sys.path.insert(0, os.path.dirname(os.path.abspath(__file__)))
from sched_lsp import Server, make_workspace, path_uri, run_driver, Report, parse_args, ROOT  # noqa: E402

LUA_A = """---@class Animal
---@field name string
local Animal = {}

---@param n string
---@return Animal
function Animal.new(n)
  local self = { name = n, color = "#ff0000" }
  return self
end

local a = Animal.new("x")
print(a.name)
for i = 1, 3 do local c = i * 2 end
return Animal
"""
LUA_B = "local Animal = require('a')\nlocal b = Animal.new('y')\nprint(b.name)\n"


def request_table(uri):
    td = {"textDocument": {"uri": uri}}
    pos = {"line": 11, "character": 7}
    R = {"start": {"line": 0, "character": 0}, "end": {"line": 5, "character": 0}}
    opts = {"tabSize": 4, "insertSpaces": True}
    item = {"name": "new", "kind": 12, "uri": uri, "range": R, "selectionRange": R}
    return [
        ("textDocument/hover", {**td, "position": pos}),
        ("textDocument/documentSymbol", td),
        ("textDocument/foldingRange", td),
        ("textDocument/documentColor", td),
        ("textDocument/colorPresentation", {**td, "color": {"red": 1, "green": 0.5, "blue": 0, "alpha": 1},
                                            "range": {"start": {"line": 7, "character": 36}, "end": {"line": 7, "character": 43}}}),
        ("textDocument/documentLink", td),
        ("emmy/annotator", {"uri": uri}),
        ("emmy/gutter", {"uri": uri}),
        ("emmy/syntaxTree", {"uri": uri}),
        ("textDocument/selectionRange", {**td, "positions": [pos]}),
        ("textDocument/completion", {**td, "position": {"line": 12, "character": 8}}),
        ("completionItem/resolve", {"label": "name"}),
        ("textDocument/inlayHint", {**td, "range": R}),
        ("textDocument/definition", {**td, "position": pos}),
        ("textDocument/implementation", {**td, "position": pos}),
        ("textDocument/references", {**td, "position": pos, "context": {"includeDeclaration": True}}),
        ("textDocument/rename", {**td, "position": pos, "newName": "zz"}),
        ("textDocument/prepareRename", {**td, "position": pos}),
        ("textDocument/codeLens", td),
        ("codeLens/resolve", {"range": R, "data": {"DeclId": {"file_id": {"id": 0}, "position": 0}}}),
        ("textDocument/signatureHelp", {**td, "position": {"line": 11, "character": 21}}),
        ("textDocument/documentHighlight", {**td, "position": pos}),
        ("textDocument/semanticTokens/full", td),
        ("workspace/executeCommand", {"command": "emmy.disable.code", "arguments": [uri, {"start": pos, "end": pos}, "undefined-global", "DisableProject"]}),
        ("workspace/executeCommand", {"command": "emmy.add.doctag", "arguments": ["mytag"]}),
        ("workspace/executeCommand", {"command": "emmy.auto.require", "arguments": [uri, "x", {"line": 0, "character": 0}, 0, None]}),
        ("workspace/executeCommand", {"command": "emmy.fix.format", "arguments": [uri]}),
        ("textDocument/codeAction", {**td, "range": R, "context": {"diagnostics": []}}),
        ("textDocument/inlineValue", {**td, "range": R, "context": {"frameId": 1, "stoppedLocation": R}}),
        ("workspace/symbol", {"query": "Ani"}),
        ("textDocument/formatting", {**td, "options": opts}),
        ("textDocument/rangeFormatting", {**td, "range": R, "options": opts}),
        ("textDocument/onTypeFormatting", {**td, "position": pos, "ch": "\n", "options": opts}),
        ("textDocument/prepareCallHierarchy", {**td, "position": {"line": 6, "character": 17}}),
        ("callHierarchy/incomingCalls", {"item": item}),
        ("callHierarchy/outgoingCalls", {"item": item}),
        ("textDocument/diagnostic", td),
        ("workspace/diagnostic", {"previousResultIds": []}),
    ]


# ------------------------------------------------------------------------------------------------ C28
def load_sites():
    data = json.load(open(os.path.join(ROOT, ".work", "lock_sites.json")))
    rk = {n: i for i, n in enumerate(data["rank"])}
    sites = {}
    for s in data["sites"]:
        sites[(s["file"], s["line"])] = s
    return data, rk, sites


def norm_file(f):
    i = f.find("crates/emmylua_ls/")
    return f[i:] if i >= 0 else f


def read_trace(path):
    evs = []
    if not os.path.exists(path):
        return evs
    for line in open(path):
        p = line.rstrip("\n").split("\t")
        if len(p) < 7:
            continue
        f, ln = p[5].rsplit(":", 1)
        evs.append(dict(seq=int(p[0]), task=p[1], ev=p[2], lock=p[3], mode=p[4], file=norm_file(f), line=int(ln),
                        held=[h for h in p[6].split(",") if h]))
    return evs


def analyse_trace(evs, rep, session_desc):
    """tie: every observed acquisition is an extracted site and its held set is inside the may-held set.
    oracle (on the implementation's own trace): per task, every acquisition is strictly above everything
    the task holds in the global order (never out of order, never re-acquired). model: the per-task acq/rel
    programs are judged by the Lean `Disciplined`/`Conforms` through the driver; verdicts must agree."""
    data, rk, sites = load_sites()
    seen = set()
    per_task = {}
    py_bad = {}
    for e in evs:
        if e["lock"] not in rk:
            rep.mismatch({"what": "trace names a lock object the extractor does not know", "event": e, "input": session_desc})
            continue
        if e["ev"] == "req":
            key = (e["file"], e["line"])
            st = sites.get(key)
            if st is None:
                rep.mismatch({"what": "observed acquisition is not an extracted site", "event": e, "input": session_desc})
            else:
                seen.add(key)
                if st["lock"] != e["lock"] or st["mode"] != e["mode"]:
                    rep.mismatch({"what": "site lock/mode differs from the extracted one", "event": e, "site": st, "input": session_desc})
                if not set(e["held"]) <= set(st["held"]):
                    rep.mismatch({"what": "observed held set is not inside the extracted may-held set", "event": e, "site": st, "input": session_desc})
            out_of_order = [h for h in e["held"] if rk[h] >= rk[e["lock"]]]
            if out_of_order:
                fn = st["fn"] if st else "unknown"
                py_bad.setdefault(e["task"], (fn, e, out_of_order))
        elif e["ev"] == "acq":
            per_task.setdefault(e["task"], []).append(("a", e["lock"], e["mode"]))
        elif e["ev"] == "rel":
            per_task.setdefault(e["task"], []).append(("r", e["lock"], None))
    # programs (close tasks cut off by the end of the trace)
    reqs, keys = [], []
    for t, acts in per_task.items():
        held = []
        enc = []
        for k, l, m in acts:
            if k == "a":
                held.append(l); enc.append(f"a{rk[l]}{m}")
            else:
                if l in held:
                    held.remove(l)
                enc.append(f"r{rk[l]}")
        for l in reversed(held):
            enc.append(f"r{rk[l]}")
        prog = ",".join(enc) if enc else "-"
        keys.append((t, prog))
        reqs.append("locks.disciplined " + prog)
        reqs.append("locks.conforms " + prog)
    outs = run_driver(reqs) if reqs else []
    distinct = set()
    for i, (t, prog) in enumerate(keys):
        d, c = outs[2 * i], outs[2 * i + 1]
        distinct.add(prog)
        model_bad = d != "ok true"
        if model_bad != (t in py_bad):
            rep.mismatch({"what": "Lean Disciplined and the direct order check disagree on an observed task trace",
                          "program": prog, "model": d, "direct": str(py_bad.get(t)), "input": session_desc})
        if c != "ok true" and not model_bad:
            rep.mismatch({"what": "observed task trace does not conform to the extracted site table", "program": prog,
                          "model": c, "input": session_desc})
    for t, (fn, e, bad) in py_bad.items():
        rep.oracle_failure({"class": fn, "what": f"task {t} requested {e['lock']}.{e['mode']} at {e['file']}:{e['line']} while holding {bad} (global order / re-acquisition violated)",
                            "input": session_desc, "event": e})
    rep.d["traces_validated_against_impl"] += len(keys)
    return seen, distinct, len(evs)


def coverage_session(rep, seed, sched_seed, thorough):
    """one session that exercises every handler; returns (sites seen, distinct task programs)"""
    ws = make_workspace({"a.lua": LUA_A, "b.lua": LUA_B, "sub/c.lua": "return 1\n"},
                        emmyrc={"diagnostics": {"diagnosticInterval": 100}, "workspace": {"enableReindex": True, "reindexDuration": 1000}})
    trace = os.path.join(ws, ".verif-trace.tsv")
    desc = {"kind": "session", "session": "coverage", "seed": seed, "sched_seed": sched_seed}
    s = Server(ws, sched_seed=sched_seed, trace=trace)
    hung = []
    try:
        if s.initialize(work_done_progress=True) is None or not s.wait_ready():
            rep.oracle_failure({"class": "hang", "what": "server did not finish initialization", "input": desc})
            return set(), set(), 0
        ua, ub = path_uri(os.path.join(ws, "a.lua")), path_uri(os.path.join(ws, "b.lua"))
        unew = path_uri(os.path.join(ws, "new.lua"))
        s.notify("textDocument/didOpen", {"textDocument": {"uri": ua, "languageId": "lua", "version": 1, "text": LUA_A}})
        s.notify("textDocument/didOpen", {"textDocument": {"uri": ub, "languageId": "lua", "version": 1, "text": LUA_B}})
        s.notify("textDocument/didChange", {"textDocument": {"uri": ua, "version": 2}, "contentChanges": [{"text": LUA_A + "\n"}]})
        ids = [(m, s.request_async(m, p)) for m, p in request_table(ua)]
        s.notify("$/cancelRequest", {"id": ids[-1][1]})
        s.notify("textDocument/didSave", {"textDocument": {"uri": ua}})
        s.notify("$/setTrace", {"value": "off"})
        # a not-on-disk document: open, change, close
        s.notify("textDocument/didOpen", {"textDocument": {"uri": unew, "languageId": "lua", "version": 1, "text": "local q = 1\n"}})
        s.notify("textDocument/didChange", {"textDocument": {"uri": unew, "version": 2}, "contentChanges": [{"text": "local q = 2\n"}]})
        s.notify("textDocument/didClose", {"textDocument": {"uri": unew}})
        # watched files: create / change / delete + config change (→ debounced reload)
        open(os.path.join(ws, "d.lua"), "w").write("local d = 1\nreturn d\n")
        open(os.path.join(ws, "sub", "c.lua"), "w").write("return 2\n")
        os.remove(os.path.join(ws, "b.lua")) if False else None
        s.notify("workspace/didChangeWatchedFiles", {"changes": [
            {"uri": path_uri(os.path.join(ws, "d.lua")), "type": 1},
            {"uri": path_uri(os.path.join(ws, "sub", "c.lua")), "type": 2},
            {"uri": path_uri(os.path.join(ws, "gone.lua")), "type": 3},
            {"uri": path_uri(os.path.join(ws, ".emmyrc.json")), "type": 2}]})
        s.notify("workspace/didChangeConfiguration", {"settings": {}})
        s.notify("workspace/didRenameFiles", {"files": [{"oldUri": path_uri(os.path.join(ws, "sub", "c.lua")),
                                                         "newUri": path_uri(os.path.join(ws, "sub", "c2.lua"))}]})
        s.notify("textDocument/didClose", {"textDocument": {"uri": ub}})
        for m, rid in ids:
            if s.wait(rid, 30.0) is None:
                hung.append(m)
        time.sleep(2.6)  # config reload debounce (2 s) + reload
        probe = s.request("textDocument/documentSymbol", {"textDocument": {"uri": ua}}, 40.0)
        if probe is None:
            hung.append("probe after reload")
        s.settle(0.8, 15.0)
        rep.d["evaluations"] += len(ids) + 14
    finally:
        s.close()
    for m in hung:
        rep.oracle_failure({"class": "hang", "what": f"no response to {m} within the watchdog time", "input": desc})
    evs = read_trace(trace)
    seen, distinct, n = analyse_trace(evs, rep, desc)
    shutil.rmtree(ws, ignore_errors=True)
    return seen, distinct, n


def stress_session(rep, seed, sched_seed, rounds):
    """bursts of lock-heavy messages under seeded scheduling delays; watchdog: everything is answered"""
    rng = random.Random(seed * 7919 + sched_seed)
    ws = make_workspace({"a.lua": LUA_A, "b.lua": LUA_B}, emmyrc={"diagnostics": {"diagnosticInterval": 20}})
    trace = os.path.join(ws, ".verif-trace.tsv")
    desc = {"kind": "session", "session": "stress", "seed": seed, "sched_seed": sched_seed, "rounds": rounds}
    s = Server(ws, sched_seed=sched_seed, sched_max_ms=4, trace=trace)
    hung = 0
    sent = 0
    try:
        if s.initialize() is None or not s.wait_ready():
            rep.oracle_failure({"class": "hang", "what": "server did not finish initialization", "input": desc})
            return set(), set(), 0
        ua, ub = path_uri(os.path.join(ws, "a.lua")), path_uri(os.path.join(ws, "b.lua"))
        s.notify("textDocument/didOpen", {"textDocument": {"uri": ua, "languageId": "lua", "version": 1, "text": LUA_A}})
        nested = [m for m in request_table(ua) if m[0] in ("textDocument/semanticTokens/full", "textDocument/formatting",
                  "textDocument/rangeFormatting", "textDocument/foldingRange", "textDocument/inlayHint", "codeLens/resolve",
                  "completionItem/resolve", "textDocument/hover", "textDocument/documentSymbol", "workspace/diagnostic")]
        ver = 2
        for r in range(rounds):
            msgs, ids = [], []
            for _ in range(rng.randrange(6, 14)):
                k = rng.random()
                if k < 0.45:
                    m, p = rng.choice(nested)
                    s.next_id += 1
                    ids.append(s.next_id)
                    msgs.append({"jsonrpc": "2.0", "id": s.next_id, "method": m, "params": p})
                elif k < 0.7:
                    ver += 1
                    msgs.append({"jsonrpc": "2.0", "method": "textDocument/didChange", "params": {
                        "textDocument": {"uri": ua, "version": ver}, "contentChanges": [{"text": LUA_A + f"\nlocal s{ver} = {ver}\n"}]}})
                elif k < 0.85:
                    msgs.append({"jsonrpc": "2.0", "method": "workspace/didChangeWatchedFiles", "params": {"changes": [
                        {"uri": ub, "type": 2}] + ([{"uri": path_uri(os.path.join(ws, ".emmyrc.json")), "type": 2}] if rng.random() < 0.3 else [])}})
                elif k < 0.93:
                    msgs.append({"jsonrpc": "2.0", "method": "textDocument/didSave", "params": {"textDocument": {"uri": ua}}})
                else:
                    msgs.append({"jsonrpc": "2.0", "method": "workspace/didChangeConfiguration", "params": {"settings": {}}})
            s.send_many(msgs)
            sent += len(msgs)
            for rid in ids:
                if s.wait(rid, 25.0) is None:
                    hung += 1
            if hung:
                break
        if not hung and s.request("textDocument/hover", {"textDocument": {"uri": ua}, "position": {"line": 11, "character": 7}}, 25.0) is None:
            hung += 1
        rep.d["evaluations"] += sent
    finally:
        s.close()
    if hung:
        rep.oracle_failure({"class": "hang", "what": f"{hung} request(s) unanswered within 25 s under seeded scheduling (possible deadlock)", "input": desc})
    evs = read_trace(trace)
    seen, distinct, n = analyse_trace(evs, rep, desc)
    shutil.rmtree(ws, ignore_errors=True)
    return seen, distinct, n


def inflight_session(rep, seed, sched_seed, delay):
    """a workspace diagnostic is in flight (client without pull diagnostics; the answer to its
    window/workDoneProgress/create is delayed) while didOpen/didChange arrive; a hover must still be answered.
    Catches a driver that keeps a lock while it waits for its per-file tasks / for the client."""
    files = {"a.lua": LUA_A, "b.lua": LUA_B}
    files.update({f"m{i}.lua": f"local m{i} = undefined_{i}\nreturn m{i}\n" for i in range(12)})
    ws = make_workspace(files, emmyrc={"diagnostics": {"diagnosticInterval": 50}})
    trace = os.path.join(ws, ".verif-trace.tsv")
    desc = {"kind": "session", "session": "inflight", "seed": seed, "sched_seed": sched_seed, "delay": delay}
    s = Server(ws, sched_seed=sched_seed, sched_max_ms=3, trace=trace)
    # token 1 = ProgressTask::DiagnoseWorkspace
    s.hold = lambda m: m.get("method") == "window/workDoneProgress/create" and (m.get("params") or {}).get("token") == 1
    failed = None
    try:
        if s.initialize(work_done_progress=True) is None:
            rep.oracle_failure({"class": "hang", "what": "no initialize result", "input": desc})
            return set(), set(), 0
        got = s.wait_held(1, 60.0)
        ua = path_uri(os.path.join(ws, "a.lua"))
        s.notify("textDocument/didOpen", {"textDocument": {"uri": ua, "languageId": "lua", "version": 1, "text": LUA_A}})
        s.notify("textDocument/didChange", {"textDocument": {"uri": ua, "version": 2}, "contentChanges": [{"text": LUA_A + "\nlocal z = 1\n"}]})
        time.sleep(delay)
        s.release_held()
        s.notify("textDocument/didChange", {"textDocument": {"uri": ua, "version": 3}, "contentChanges": [{"text": LUA_A + "\nlocal z = 2\n"}]})
        r = s.request("textDocument/hover", {"textDocument": {"uri": ua}, "position": {"line": 11, "character": 7}}, 25.0)
        rep.d["evaluations"] += 4
        rep.count("inflight_progress_request_seen" if got else "inflight_progress_request_not_seen")
        if r is None:
            failed = "hover unanswered for 25 s after didOpen/didChange arrived while the workspace diagnostic was in flight"
        else:
            s.settle(0.5, 15.0)
            if not any(u == ua for _, u, _ in s.diags):
                failed = "no diagnostics were ever published for the opened document after the in-flight workspace diagnostic"
    finally:
        s.close()
    if failed:
        rep.oracle_failure({"class": "hang", "what": failed, "input": desc})
    evs = read_trace(trace)
    out = analyse_trace(evs, rep, desc)
    shutil.rmtree(ws, ignore_errors=True)
    return out


def awaits_check(rep):
    """T-src table of non-lock awaits under a guard: every entry must be allowed; for an entry that is not, the
    3-task instance (waiter holding the lock, awaited child needing it, a writer / a holder of the needed lock)
    is searched in the model for the deadlocking schedule (concrete failing input)."""
    data, rk, _ = load_sites()
    nl = len(data["rank"])
    bad = [a for a in data.get("awaits", []) if a["held"] and not a["bounded"]
           and not all(rk[h] < rk[l] for l in a["needs"] for h in a["held"])]
    rep.count("awaits_under_lock", len(data.get("awaits", [])))
    rep.count("awaits_without_lock", data.get("awaits_without_lock", 0))
    for a in bad:
        h, l = next((h, l) for l in a["needs"] for h in a["held"] if rk[h] >= rk[l])
        if h == l:
            progs = [f"a{rk[l]}w,r{rk[l]}", f"a{rk[h]}r,w2,r{rk[h]}", f"a{rk[l]}r,r{rk[l]}"]
        else:
            progs = [f"a{rk[l]}w,a{rk[h]}w,r{rk[h]},r{rk[l]}", f"a{rk[h]}r,w2,r{rk[h]}", f"a{rk[l]}r,r{rk[l]}"]
        out = run_driver([f"locks.search {nl} 200000 " + " ".join(progs), "locks.disciplinedset " + " ".join(progs)])
        rep.d["evaluations"] += 2
        rep.oracle_failure({"class": a["fn"], "what": f"{a['file']}:{a['line']} [{a['fn']}] awaits ({a['kind']}: `{a['expr']}`) while holding {a['held']}; "
                            f"the awaited party may still request {a['needs']} (not all above what is held, no time bound). "
                            f"Model instance writer/waiter/child: {out[0]} ({out[1]})",
                            "input": {"kind": "schedule", "await": a, "programs": progs, "result": out[0], "nl": nl}})
    return len(bad)


def model_search(rep, thorough):
    """model side of the search: (1) if the extracted table has an out-of-order site, search the extracted
    programs for a deadlocking schedule (concrete failing input); (2) sanity: the exhaustive exploration of
    small sets of extracted programs finds no stuck state (agreement with the theorem on the executable model)."""
    data, rk, _ = load_sites()
    progs = {}
    for p in data["programs"]:
        enc = ",".join((f"a{rk[a[1]]}{a[2]}" if a[0] == "acq" else f"r{rk[a[1]]}") for a in p["acts"]) or "-"
        progs.setdefault(enc, p["name"])
    bad_sites = [s for s in data["sites"] if any(rk[h] >= rk[s["lock"]] for h in s["held"])]
    nl = len(data["rank"])
    distinct = sorted(progs, key=lambda e: (len(e), e))
    nested = [e for e in distinct if any(x.startswith("a") for x in e.split(",")[1:2]) or e.count("a") >= 2]
    if bad_sites:
        # programs of the offending fns against every pair of other programs
        roots = {s["fn"] for s in bad_sites}
        offenders = [e for e, n in progs.items() if n in roots or any(n.endswith("::" + r) for r in roots)]
        pool = [e for e in distinct if len(e.split(",")) <= 8][:25]
        found = None
        reqs, combos = [], []
        for o in offenders:
            for a, b in itertools.combinations_with_replacement(pool, 2):
                combos.append((o, a, b)); reqs.append(f"locks.search {nl} 200000 {o} {a} {b}")
        outs = run_driver(reqs) if reqs else []
        for c, o in zip(combos, outs):
            if o.startswith("ok deadlock"):
                found = (c, o); break
        for s in bad_sites:
            what = f"{s['file']}:{s['line']} [{s['fn']}] acquires {s['lock']}.{s['mode']} while possibly holding {s['held']}: outside the global order"
            inp = {"kind": "schedule", "site": s}
            if found:
                inp.update(programs=list(found[0]), program_names=[progs[e] for e in found[0]], result=found[1], nl=nl)
                what += "; the model of the extracted programs deadlocks: " + found[1]
            rep.oracle_failure({"class": s["fn"], "what": what, "input": inp})
    # exhaustive exploration of small program sets
    k = 3
    sel = nested[:(14 if thorough else 7)]
    reqs, combos = [], []
    for c in itertools.combinations_with_replacement(sel, k):
        combos.append(c); reqs.append(f"locks.search {nl} 400000 " + " ".join(c))
    outs = run_driver(reqs) if reqs else []
    states = 0
    for c, o in zip(combos, outs):
        rep.d["evaluations"] += 1
        if o.startswith("ok none"):
            states += int(o.split("states=")[1])
        elif o.startswith("ok deadlock") and not bad_sites:
            rep.mismatch({"what": "executable model finds a deadlock among programs that pass the discipline check (contradicts C28_deadlock_free)",
                          "programs": list(c), "result": o, "input": {"kind": "schedule", "programs": list(c)}})
        elif o.startswith("err"):
            rep.count("search_fuel_exhausted")
    rep.count("model_search_program_sets", len(combos))
    rep.count("model_search_states", states)
    return len(combos), states


def replay_c28(rep, rp):
    inp = rp.get("input") or {}
    if inp.get("kind") == "schedule" and inp.get("await"):
        data, rk, _ = load_sites()
        a0 = inp["await"]
        still = [a for a in data.get("awaits", []) if (a["file"], a["fn"], a["kind"]) == (a0["file"], a0["fn"], a0["kind"]) and a["held"]
                 and not a["bounded"] and not all(rk[h] < rk[l] for l in a["needs"] for h in a["held"])]
        out = run_driver([f"locks.search {inp.get('nl', 7)} 200000 " + " ".join(inp["programs"])])
        rep.d["evaluations"] += 1
        if still and out[0].startswith("ok deadlock"):
            rep.oracle_failure({"class": a0["fn"], "what": "replay: the await is still made under the lock and the model instance still deadlocks: " + out[0], "input": inp})
        rep.d["notes"].append(f"replay: await still present: {len(still)}; model: {out[0]}")
        return
    if inp.get("kind") == "schedule" and inp.get("programs"):
        res = inp.get("result", "")
        sched = res.split("schedule=")[1] if "schedule=" in res else "-"
        out = run_driver([f"locks.run {inp.get('nl', 7)} {sched} " + " ".join(inp["programs"]),
                          f"locks.search {inp.get('nl', 7)} 400000 " + " ".join(inp["programs"])])
        rep.d["evaluations"] += 2
        data, rk, _ = load_sites()
        still = [s for s in data["sites"] if (s["file"], s["fn"]) == (inp["site"]["file"], inp["site"]["fn"]) and any(rk[h] >= rk[s["lock"]] for h in s["held"])]
        if out[0] == "ok stuck" and still:
            rep.oracle_failure({"class": inp["site"]["fn"], "what": "replayed schedule still deadlocks the model and the site is still out of order: " + out[1], "input": inp})
        rep.d["notes"].append(f"replay: schedule → {out[0]}; search → {out[1]}; offending sites still present: {len(still)}")
    else:
        if inp.get("session") == "stress":
            stress_session(rep, inp.get("seed", 1), inp.get("sched_seed", 1), inp.get("rounds", 6))
        elif inp.get("session") == "inflight":
            inflight_session(rep, inp.get("seed", 1), inp.get("sched_seed"), inp.get("delay", 0.4))
        else:
            coverage_session(rep, inp.get("seed", 1), inp.get("sched_seed"), False)


def run_c28(a, rep):
    thorough = a["tier"] == "thorough"
    rep.d["rule"] = ("a case = one lock acquisition observed in the real server's H4 trace (checked against the extracted site "
                     "table and the global order) or one exhaustively explored set of 3 extracted task programs; distinct "
                     "non-trivial = distinct per-task acquire/release programs with at least one acquisition + explored program sets")
    if a["replay"]:
        replay_c28(rep, json.load(open(a["replay"])))
        return
    data, rk, sites = load_sites()
    seen, distinct, nev = set(), set(), 0
    sessions = [("coverage", None), ("inflight", None)] + [("stress", a["seed"] * 100 + i) for i in range(8 if thorough else 2)]
    if thorough:
        sessions.insert(1, ("coverage", a["seed"] * 100 + 50))
        sessions += [("inflight", a["seed"] * 100 + 70 + i) for i in range(3)]
    awaits_check(rep)
    for kind, ss in sessions:
        if kind == "coverage":
            sn, di, n = coverage_session(rep, a["seed"], ss, thorough)
        elif kind == "inflight":
            sn, di, n = inflight_session(rep, a["seed"], ss, 0.4 if ss is None else 0.2 + (ss % 5) * 0.2)
        else:
            sn, di, n = stress_session(rep, a["seed"], ss, 12 if thorough else 5)
        seen |= sn; distinct |= di; nev += n
        rep.count("sessions_" + kind)
    ncomb, states = model_search(rep, thorough)
    uncovered = sorted(f"{k[0].replace('crates/emmylua_ls/src/', '')}:{k[1]}" for k in sites if k not in seen)
    rep.d["evaluations"] += nev
    rep.d["distinct_nontrivial"] = len([p for p in distinct if p != "-"]) + ncomb
    rep.count("trace_events", nev)
    rep.count("sites_total", len(sites))
    rep.count("sites_seen_in_traces", len(seen))
    rep.d["extra"]["sites_not_seen_in_any_trace"] = uncovered
    rep.d["extra"]["site_coverage"] = round(len(seen) / max(1, len(sites)), 3)
    rep.d["extra"]["exhaustive"] = False
    for p in sorted(distinct, key=len, reverse=True)[:4]:
        rep.sample({"observed_task_program": p})
    rep.d["notes"].append("awaits under a guard are listed by the extractor and must be allowed (time-bounded or ordered); the H4 hook "
                          "cannot log non-lock awaits (they do not go through the lock wrappers), so that table is validated by the "
                          "in-flight watchdog session only; std::sync::Mutex sections are not modelled")


# ------------------------------------------------------------------------------------------------ main
def main():
    a = parse_args(sys.argv[1:])
    rep = Report()
    if a["prop"] == "C28":
        run_c28(a, rep)
    else:
        import sched_sessions
        sched_sessions.run(a, rep)
    rep.write(a["out"])


if __name__ == "__main__":
    main()
