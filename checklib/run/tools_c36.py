#!/usr/bin/env python3
"""C36 runner: the checker's exit status and reports match the diagnostics.

Part A (hook correspondence): the real `output_result` (emmylua_check::verif hook) runs in-process inside
`vh-tools exit-run` on synthetic message lists (severities incl. None / unknown values, arbitrary arrival
order, completion counts, filters, flags, 3 formats x stdout/file); the parsed reports, exit status and
summary counts are diffed against the Lean model (`exit.run` through vdriver).
Part B (end to end): the real `emmylua_check` binary runs in fresh processes on generated workspaces
(main files with planted diagnostics, a library root, config severity overrides) x severity filters x
--warnings-as-errors x text/json/sarif. Oracle = the property statement evaluated directly against
reference diagnostics computed independently through the library API (`vh-tools diag`); tie = the Lean
model fed with the reference diagnostics vs the binary's observed exit status / report.
"""
import os, sys, json, re
sys.path.insert(0, os.path.dirname(os.path.abspath(__file__)))
from tools_lib import *

FILTERS = [None, "error", "warn", "info", "hint"]
RANK = {"error": 1, "warn": 2, "info": 3, "hint": 4}
SEVS = [None, 1, 1, 2, 2, 2, 3, 3, 4, 4, 0, 5, -1]


# ---------------------------------------------------------------- report parsers (canonical form)
def file_index(path_or_uri):
    m = re.search(r"f(\d+)\.lua$", path_or_uri)
    return int(m.group(1)) if m else -1


def parse_json_report(text):
    text = text.strip()
    if not text:
        return []
    return json.loads(text)


def parse_text_report(text):
    """-> (entries [(file, [(level, message, code, line, col)])], summary counts or None)"""
    entries, cur, summary = [], None, None
    lines = text.split("\n")
    i = 0
    while i < len(lines):
        l = lines[i]
        m = re.match(r"^--- (.+?) (?:\[.*\])?$", l)
        if m:
            cur = (m.group(1), [])
            entries.append(cur)
            i += 1
            continue
        m = re.match(r"^(error|warning|info|hint): (.*)$", l)
        if m and cur is not None and i + 1 < len(lines) and lines[i + 1].startswith("  --> "):
            level, rest = m.group(1), m.group(2)
            mc = re.match(r"^(.*) \[([^\]]*)\]$", rest)
            msg, code = (mc.group(1), mc.group(2)) if mc else (rest, None)
            ml = re.match(r"^  --> (.*):(\d+):(\d+)$", lines[i + 1])
            cur[1].append((level, msg, code, int(ml.group(2)) - 1, int(ml.group(3)) - 1))
            i += 2
            continue
        if l == "Summary":
            summary = {"error": 0, "warning": 0, "info": 0, "hint": 0}
            j = i + 1
            while j < len(lines):
                ms = re.match(r"^  (\d+) (error|warning|info|hint)s?$", lines[j])
                if not ms:
                    break
                summary[ms.group(2)] = int(ms.group(1)); j += 1
            i = j
            continue
        if l == "No issues found":
            summary = {"error": 0, "warning": 0, "info": 0, "hint": 0}
        i += 1
    return entries, summary


# ---------------------------------------------------------------- part A: synthetic messages through the hook
def gen_case(rng, k):
    files = rng.shuffle(range(k))[: rng.range(0, k)]
    nid = [0]
    msgs = []
    for f in files:
        if rng.chance(1, 12):
            msgs.append({"file": f, "diags": None}); continue
        ds = []
        for _ in range(rng.pick([0, 0, 1, 1, 2, 3, 4])):
            line = rng.below(5); c0 = rng.below(6); c1 = c0 + rng.below(6)
            ds.append({"id": nid[0], "sev": rng.pick(SEVS), "line": line, "c0": c0, "c1": c1}); nid[0] += 1
        msgs.append({"file": f, "diags": ds})
    total = len(msgs)
    r = rng.below(10)
    if r == 0 and total > 0: total = rng.range(1, total)      # early break
    elif r == 1: total = total + rng.range(1, 3)                # loop ends when the channel closes
    return {"total": total, "wae": rng.chance(1, 2), "filter": rng.pick(FILTERS),
            "format": rng.pick(["json", "text", "sarif"]), "dest": rng.pick(["stdout", "file"]), "msgs": msgs}


def msgs_arg(msgs):
    if not msgs:
        return "-"
    out = []
    for m in msgs:
        if m["diags"] is None:
            out.append(f"{m['file']}:n")
        else:
            out.append(f"{m['file']}:" + ",".join(f"{d['id']}/{'n' if d['sev'] is None else d['sev']}" for d in m["diags"]))
    return ";".join(out)


def driver_req(case):
    return f"exit.run {case['total']} {1 if case['wae'] else 0} {case['filter'] or 'none'} {case['format']} {msgs_arg(case['msgs'])}"


def parse_model(resp):
    if not resp.startswith("ok "):
        return None
    kv = dict(p.split("=", 1) for p in resp[3:].split(" "))
    ent = [] if kv["entries"] == "" else [(int(e.split(":")[0]), [int(x) for x in e.split(":")[1].split(",") if x != ""]) for e in kv["entries"].split(";")]
    pairs = [] if kv["pairs"] == "" else [(int(a), int(b), c) for a, b, c in (p.split(":") for p in kv["pairs"].split(";"))]
    return {"exit": int(kv["exit"]), "counts": [int(kv[x]) for x in "ewih"], "entries": ent, "pairs": pairs}


def observe(case, out_text, dirp, idx):
    """canonical observation of one hook run: entries (json/text), flat pairs with level, summary counts"""
    fmt = case["format"]
    if case["dest"] == "file" and fmt != "text":
        p = os.path.join(dirp, f"case_{idx}.out")
        body = open(p).read() if os.path.exists(p) else ""
    else:
        body = out_text
    if fmt == "json":
        rep = parse_json_report(body)
        ent = [(file_index(e["file"]), [int(d["message"][1:]) for d in e["diagnostics"]]) for e in rep]
        pairs = [(file_index(e["file"]), int(d["message"][1:]), str(d.get("severity", "n"))) for e in rep for d in e["diagnostics"]]
        for e in rep:
            for d in e["diagnostics"]:
                if d.get("code") != "c" + d["message"][1:]:
                    raise ValueError("json report: code/message of a diagnostic do not belong together")
        return {"entries": ent, "pairs": pairs, "counts": None}
    if fmt == "sarif":
        doc = json.loads(body)
        res = doc["runs"][0]["results"]
        pairs = []
        for r in res:
            uri = r["locations"][0]["physicalLocation"]["artifactLocation"]["uri"]
            if "c" + r["message"]["text"][1:] != r["ruleId"]:
                raise ValueError("sarif report: ruleId/message do not belong together")
            pairs.append((file_index(uri), int(r["message"]["text"][1:]), r["level"]))
        return {"entries": None, "pairs": pairs, "counts": None}
    entries, summary = parse_text_report(body)
    ent = [(file_index(f), [int(d[1][1:]) for d in ds]) for f, ds in entries]
    pairs = [(file_index(f), int(d[1][1:]), d[0]) for f, ds in entries for d in ds]
    counts = None if summary is None else [summary["error"], summary["warning"], summary["info"], summary["hint"]]
    return {"entries": ent, "pairs": pairs, "counts": counts}


def part_a(rep, rng, n):
    k = 4
    cases = [gen_case(rng, k) for _ in range(n)]
    # fixed corner cases first
    cases[:0] = [
        {"total": 0, "wae": False, "filter": None, "format": f, "dest": d, "msgs": []}
        for f in ("json", "text", "sarif") for d in ("stdout", "file")
    ]
    d = workdir("C36_hook")
    cp = os.path.join(d, "cases.json")
    json.dump({"files": k, "cases": cases}, open(cp, "w"))
    rc, out, err = run_proc([VH, "exit-run", cp, d], timeout=900)
    if rc != 0:
        raise RuntimeError(f"vh-tools exit-run failed rc={rc}: {err[-400:]}")
    blocks = {}
    for m in re.finditer(r"@@BEGIN (\d+)\n(.*?)\n@@END \1 exit=(-?\d+)", out, re.S):
        blocks[int(m.group(1))] = (m.group(2), int(m.group(3)))
    model = run_driver([driver_req(c) for c in cases])
    for i, c in enumerate(cases):
        rep.evaluations += 1
        rep.count(f"hook.format.{c['format']}.{c['dest']}")
        rep.count(f"hook.filter.{c['filter'] or 'none'}")
        nd = sum(len(m["diags"] or []) for m in c["msgs"])
        rep.count("hook.diags", nd)
        if c["total"] != len(c["msgs"]):
            rep.count("hook.count_differs_from_messages")
        if nd > 0:
            rep.nontrivial(["A", c])
        mo = parse_model(model[i])
        if i not in blocks or mo is None:
            rep.mismatch({"input": c, "what": "no result from hook run or model", "model": model[i]}); continue
        text, code = blocks[i]
        try:
            ob = observe(c, text, d, i)
        except Exception as e:  # unparseable report = implementation-side failure of the report format
            rep.oracle_failure({"input": {"part": "A", "case": c}, "what": f"report of format {c['format']} not parseable: {e}", "class": None})
            continue
        diffs = []
        if code != mo["exit"]:
            diffs.append(f"exit impl={code} model={mo['exit']}")
        if ob["entries"] is not None and ob["entries"] != mo["entries"]:
            diffs.append(f"entries impl={ob['entries']} model={mo['entries']}")
        if ob["pairs"] != mo["pairs"]:
            diffs.append(f"pairs impl={ob['pairs']} model={mo['pairs']}")
        if ob["counts"] is not None and ob["counts"] != mo["counts"]:
            diffs.append(f"summary impl={ob['counts']} model={mo['counts']}")
        if c["format"] == "text" and ob["counts"] is None:
            diffs.append("text report without summary")
        if diffs:
            rep.mismatch({"input": c, "what": "; ".join(diffs), "request": driver_req(c), "model": model[i]})
        else:
            rep.traces_validated += 1
        # implementation-side oracle, directly from the statement (independent of the model)
        consumed = c["msgs"] if c["total"] == 0 or c["total"] >= len(c["msgs"]) else c["msgs"][: c["total"]]
        keep = lambda s: True if c["filter"] is None else (s is not None and s <= RANK[c["filter"]])
        want = [(m["file"], dd["id"]) for m in consumed if m["diags"] is not None for dd in m["diags"] if keep(dd["sev"])]
        fatal = any(keep(dd["sev"]) and (dd["sev"] == 1 or (dd["sev"] == 2 and c["wae"]))
                    for m in consumed if m["diags"] is not None for dd in m["diags"])
        got = [(f, i_) for f, i_, _ in ob["pairs"]]
        if (code != 0) != fatal:
            rep.oracle_failure({"input": {"part": "A", "case": c}, "class": None,
                                "what": f"exit status {code} but a filtered error/(warning under the flag) {'exists' if fatal else 'does not exist'}"})
        if got != want:
            rep.oracle_failure({"input": {"part": "A", "case": c}, "class": None,
                                "what": f"{c['format']} report holds {got}, filtered diagnostics are {want}"})
        if i < 9 and nd > 0:
            rep.sample({"part": "A", "case": c, "exit": code, "pairs": ob["pairs"]})


# ---------------------------------------------------------------- part B: the real binary on generated workspaces
SNIPPETS = [
    # (text, note)
    ("print(undefined_name_{i})\n", "undefined-global"),
    ("local t{i} = \n", "syntax-error"),
    ("---@deprecated\nlocal function old{i}() end\nold{i}()\n", "deprecated"),
    ("---@param a{i} number\nlocal function f{i}(a{i}) return a{i} end\nf{i}('s')\n", "param-type-mismatch"),
    ("local unused{i} = 1\n", "unused"),
    ("---@type string\nlocal s{i} = 1\nprint(s{i})\n", "assign-type-mismatch"),
    ("local ok{i} = 1\nprint(ok{i})\n", "clean"),
    ("---@class K{i}\n---@field x number\nlocal k{i} = {}\nk{i}.y = 1\nprint(k{i}.zz)\n", "fields"),
]
SEV_NAMES = ["error", "warning", "information", "hint"]
CODES = ["undefined-global", "syntax-error", "deprecated", "param-type-mismatch", "unused", "assign-type-mismatch",
         "undefined-field", "inject-field"]


def gen_workspace(rng, base):
    files = {}
    nfiles = rng.range(2, 5)
    for f in range(nfiles):
        body = ""
        for j in range(rng.range(0, 3)):
            t, _ = rng.pick(SNIPPETS)
            body += t.replace("{i}", f"_{f}_{j}")
        if rng.chance(1, 6):
            body = body.rstrip("\n")                       # no trailing newline
        elif rng.chance(1, 6):
            body += "\n" * rng.range(1, 3)                 # trailing blank lines
        eol = rng.pick(["\n", "\n", "\n", "\r\n", "\r"])   # line terminators the line index knows
        if eol != "\n":
            body = body.replace("\n", eol)
        name = rng.pick(["a", "b", "c", "sub/d", "sub/e", "x y"]) + f"{f}.lua"
        files["main/" + name] = body
    files["lib/libmod.lua"] = "print(undefined_in_library)\nlocal unused_in_lib = \n"
    cfg = {"workspace": {"library": [os.path.join(base, "lib")]}}
    sev = {}
    for c in CODES:
        if rng.chance(1, 3):
            sev[c] = rng.pick(SEV_NAMES)
    if sev:
        cfg["diagnostics"] = {"severity": sev}
    files["main/.emmyrc.json"] = json.dumps(cfg)
    write_tree(base, files)
    return {"files": {k: v for k, v in files.items()}, "config": cfg}


def canon_diag(d):
    code = d.get("code")
    return (d.get("severity"), str(code) if code is not None else None, d.get("message"),
            d["range"]["start"]["line"], d["range"]["start"]["character"])


def sarif_level(s):
    return "error" if s == 1 else "warning" if s == 2 else "note"


def text_level(s):
    return {1: "error", 2: "warning", 3: "info", 4: "hint"}.get(s, "error")


def part_b(rep, rng, nws, full_ws):
    check = os.path.join(BINS, "emmylua_check")
    for w in range(nws):
        base = workdir(f"C36_ws{w}")
        spec = gen_workspace(rng, base)
        main = os.path.join(base, "main")
        rc, out, err = run_proc([VH, "diag", main], timeout=120)
        if rc != 0:
            raise RuntimeError(f"vh-tools diag failed: {err[-300:]}")
        ref = json.loads(out.strip().splitlines()[-1])["files"]
        paths = sorted(ref)
        fidx = {p: i for i, p in enumerate(paths)}
        # model messages: one per main file; diagnostic ids enumerate the reference diagnostics
        diag_by_id, msgs = {}, []
        for p in paths:
            if ref[p] is None:
                msgs.append({"file": fidx[p], "diags": None}); continue
            ds = []
            for d in ref[p]:
                i_ = len(diag_by_id); diag_by_id[i_] = (p, d)
                ds.append({"id": i_, "sev": d.get("severity")})
            msgs.append({"file": fidx[p], "diags": ds})
        nref = len(diag_by_id)
        rep.count("e2e.workspaces"); rep.count("e2e.reference_diagnostics", nref)
        for _, d in diag_by_id.values():
            rep.count(f"e2e.severity.{d.get('severity')}")
        if any("lib" + os.sep in p or p.endswith("libmod.lua") for p in paths):
            rep.oracle_failure({"input": {"part": "B", "workspace": spec}, "class": None,
                                "what": "a library file is listed among the main-workspace files"})
        combos = [(f, wa, fmt) for f in FILTERS for wa in (False, True) for fmt in ("json", "text", "sarif")]
        if w >= full_ws:
            combos = rng.shuffle(combos)[:6]
        reqs, runs = [], []
        for filt, wae, fmt in combos:
            cmd = [check, main, "--output-format", fmt]
            if filt: cmd += ["--severity", filt]
            if wae: cmd += ["--warnings-as-errors"]
            rc, out, err = run_proc(cmd, cwd=base, timeout=120)
            case = {"total": len(msgs), "wae": wae, "filter": filt, "format": fmt, "dest": "stdout", "msgs": msgs}
            reqs.append(driver_req(case)); runs.append((filt, wae, fmt, rc, out, err))
        model = run_driver(reqs)
        for (filt, wae, fmt, rc, out, err), mresp in zip(runs, model):
            rep.evaluations += 1
            rep.count(f"e2e.format.{fmt}"); rep.count(f"e2e.filter.{filt or 'none'}"); rep.count(f"e2e.exit.{rc}")
            inp = {"part": "B", "workspace": spec, "filter": filt, "warnings_as_errors": wae, "format": fmt}
            if nref > 0:
                rep.nontrivial(["B", spec["files"], spec["config"], filt, wae, fmt])
            if rc not in (0, 1):
                rep.oracle_failure({"input": inp, "class": None, "what": f"emmylua_check exited {rc}: {err[-300:]}"}); continue
            # observed report -> multiset of (path, severity-level, code, message, line, col)
            try:
                if fmt == "json":
                    repj = parse_json_report(out)
                    obs = sorted((e["file"],) + canon_diag(d) for e in repj for d in e["diagnostics"])
                    obs_files = [e["file"] for e in repj]
                elif fmt == "sarif":
                    doc = json.loads(out)
                    obs = sorted((r["locations"][0]["physicalLocation"]["artifactLocation"]["uri"], r["level"], r["ruleId"],
                                  r["message"]["text"],
                                  r["locations"][0]["physicalLocation"]["region"]["startLine"] - 1,
                                  r["locations"][0]["physicalLocation"]["region"]["startColumn"] - 1)
                                 for r in doc["runs"][0]["results"])
                    obs_files = None
                else:
                    entries, summary = parse_text_report(out)
                    obs = sorted((f,) + d for f, ds in entries for d in ds)
                    obs_files = [f for f, _ in entries]
            except Exception as e:
                rep.oracle_failure({"input": inp, "class": None, "what": f"{fmt} report not parseable: {e}"}); continue
            keep = lambda s: True if filt is None else (s is not None and s <= RANK[filt])
            kept = [(p, d) for p, d in diag_by_id.values() if keep(d.get("severity"))]
            if fmt == "json":
                want = sorted((p,) + canon_diag(d) for p, d in kept)
            elif fmt == "sarif":
                want = sorted(("file://" + p.replace(" ", "%20"),) + (sarif_level(d.get("severity")),) + canon_diag(d)[1:] for p, d in kept)
            else:
                want = sorted((os.path.relpath(p, main), text_level(d.get("severity")), canon_diag(d)[2], canon_diag(d)[1],
                               canon_diag(d)[3], canon_diag(d)[4]) for p, d in kept)
            fatal = any(d.get("severity") == 1 or (d.get("severity") == 2 and wae) for _, d in kept)
            # --- oracle: the property statement on the implementation
            if (rc != 0) != fatal:
                rep.oracle_failure({"input": inp, "class": None,
                                    "what": f"exit status {rc} but a filtered error/(warning under the flag) {'exists' if fatal else 'does not exist'}"})
            if obs != want:
                missing = [x for x in want if x not in obs][:3]
                extra = [x for x in obs if x not in want][:3]
                cls = None
                rep.oracle_failure({"input": inp, "class": cls,
                                    "what": f"{fmt} report differs from the filtered diagnostics of the main-workspace files: missing {missing} unexpected {extra} (counts {len(obs)} vs {len(want)})"})
            if obs_files is not None and len(set(obs_files)) != len(obs_files):
                rep.oracle_failure({"input": inp, "class": None, "what": f"{fmt} report lists a file twice: {obs_files}"})
            # --- tie: the Lean model on the reference diagnostics vs the binary
            mo = parse_model(mresp)
            if mo is None:
                rep.mismatch({"input": inp, "what": "model gave no result", "model": mresp}); continue
            diffs = []
            if mo["exit"] != rc:
                diffs.append(f"exit impl={rc} model={mo['exit']}")
            mp = sorted((paths[f], i_) for f, i_, _ in mo["pairs"])
            wantp = sorted((p, i_) for i_, (p, d) in diag_by_id.items() if keep(d.get("severity")))
            if mp != wantp or len(mo["pairs"]) != len(obs):
                diffs.append(f"report size impl={len(obs)} model={len(mo['pairs'])}")
            if fmt == "json":
                mfiles = sorted(paths[f] for f, _ in mo["entries"])
                if mfiles != sorted(obs_files):
                    diffs.append(f"json file entries impl={sorted(obs_files)} model={mfiles}")
            if fmt == "text":
                mfiles = sorted(os.path.relpath(paths[f], main) for f, _ in mo["entries"])
                if mfiles != sorted(obs_files):
                    diffs.append(f"text file entries impl={sorted(obs_files)} model={mfiles}")
                if summary is not None and [summary[k_] for k_ in ("error", "warning", "info", "hint")] != mo["counts"]:
                    diffs.append(f"summary impl={summary} model={mo['counts']}")
            if diffs:
                rep.mismatch({"input": inp, "what": "; ".join(diffs), "model": mresp})
            else:
                rep.traces_validated += 1
            if w == 0 and fmt == "json" and filt is None and not wae:
                rep.sample({"part": "B", "files": list(spec["files"]), "config": spec["config"], "exit": rc,
                            "diagnostics": [list(x[1:4]) for x in obs][:8]})


def main():
    a = Args(sys.argv[1:])
    rep = Report()
    rep.rule = ("one evaluation = one run of the real output_result (part A, synthetic messages) or of the real emmylua_check "
                "binary (part B, generated workspace x filter x flag x format); distinct = distinct canonical inputs; "
                "non-trivial = at least one diagnostic in the input")
    rng = Rng(a.seed)
    if a.replay:
        r = json.load(open(a.replay))
        inp = r.get("input") or {}
        rep.notes.append("replay: part A cases are re-run exactly; part B re-runs the recorded workspace")
        if inp.get("part") == "A" or "msgs" in inp:
            case = inp.get("case", inp)
            replay_a(rep, case)
        elif inp.get("part") == "B":
            replay_b(rep, inp)
        rep.write(a.out); return
    part_a(rep, rng.fork(), 3000 if a.thorough else 300)
    part_b(rep, rng.fork(), 20 if a.thorough else 5, 4 if a.thorough else 1)
    rep.write(a.out)


def replay_a(rep, case):
    d = workdir("C36_replay")
    cp = os.path.join(d, "cases.json")
    json.dump({"files": 4, "cases": [case]}, open(cp, "w"))
    rc, out, err = run_proc([VH, "exit-run", cp, d])
    m = re.search(r"@@BEGIN 0\n(.*?)\n@@END 0 exit=(-?\d+)", out, re.S)
    mo = parse_model(run_driver([driver_req(case)])[0])
    rep.evaluations = 1
    ob = observe(case, m.group(1), d, 0)
    if int(m.group(2)) != mo["exit"] or ob["pairs"] != mo["pairs"]:
        rep.mismatch({"input": case, "what": f"impl exit={m.group(2)} pairs={ob['pairs']} model={mo}"})


def replay_b(rep, inp):
    base = workdir("C36_replay_ws")
    write_tree(base, inp["workspace"]["files"])
    rep.notes.append("workspace re-created under .work/C36_replay_ws; run emmylua_check on main/ to observe")
    rep.evaluations = 1


if __name__ == "__main__":
    main()
