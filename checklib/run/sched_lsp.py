"""Minimal stdio LSP client for the concurrency cluster (C27–C30): drives the real `emmylua_ls` binary built
with `--features verif` (hook H4). Content-Length framing, a reader thread, answers server→client requests
with `null`, records responses, publishDiagnostics and the arrival order of everything."""
import os, json, subprocess, threading, time, tempfile, shutil

ROOT = os.path.dirname(os.path.dirname(os.path.dirname(os.path.abspath(__file__))))
BIN = os.environ.get("VERIF_LS_BIN", os.path.join(ROOT, "harness", "target-bins", "emmylua_ls-verif"))
VDRIVER = os.environ.get("VDRIVER", os.path.join(ROOT, "lean", ".lake", "build", "bin", "vdriver"))


def path_uri(p):
    return "file://" + p


class Server:
    def __init__(self, workspace, sched_seed=None, sched_max_ms=3, trace=None, home=None, push_diag=True):
        env = dict(os.environ, RUST_BACKTRACE="0")
        env["HOME"] = home or workspace
        env["XDG_CONFIG_HOME"] = os.path.join(env["HOME"], ".config")
        env.pop("EMMYLUALS_CONFIG", None)
        if sched_seed is not None:
            env["VERIF_SCHED_SEED"] = str(sched_seed)
            env["VERIF_SCHED_MAX_MS"] = str(sched_max_ms)
        if trace:
            env["VERIF_LOCK_TRACE"] = trace
        self.workspace = workspace
        self.p = subprocess.Popen([BIN], stdin=subprocess.PIPE, stdout=subprocess.PIPE, stderr=subprocess.DEVNULL,
                                  cwd=workspace, env=env)
        self.wlock = threading.Lock()
        self.cv = threading.Condition()
        self.responses = {}      # id -> message
        self.diags = []          # (seq, uri, diagnostics)
        self.server_requests = []
        self.notifications = 0
        self.seq = 0
        self.last_rx = time.time()
        self.eof = False
        self.next_id = 100
        self.push_diag = push_diag
        self.hold = None            # predicate on a server→client request: keep it unanswered until release_held()
        self.held_requests = []
        threading.Thread(target=self._reader, daemon=True).start()

    def _reader(self):
        f = self.p.stdout
        try:
            while True:
                n = None
                while True:
                    line = f.readline()
                    if not line:
                        raise EOFError
                    line = line.strip()
                    if not line:
                        break
                    k, v = line.split(b":", 1)
                    if k.lower() == b"content-length":
                        n = int(v.strip())
                m = json.loads(f.read(n))
                with self.cv:
                    self.last_rx = time.time()
                    self.seq += 1
                    if "method" in m and "id" in m:
                        self.server_requests.append(m["method"])
                        if self.hold is not None and self.hold(m):
                            self.held_requests.append(m["id"])
                        else:
                            self._send({"jsonrpc": "2.0", "id": m["id"], "result": None})
                    elif "method" in m:
                        self.notifications += 1
                        if m["method"] == "textDocument/publishDiagnostics":
                            p = m.get("params", {})
                            self.diags.append((self.seq, p.get("uri"), p.get("diagnostics", [])))
                    else:
                        self.responses[m.get("id")] = m
                    self.cv.notify_all()
        except Exception:
            with self.cv:
                self.eof = True
                self.cv.notify_all()

    def _send(self, m):
        b = json.dumps(m).encode()
        try:
            with self.wlock:
                self.p.stdin.write(b"Content-Length: %d\r\n\r\n" % len(b) + b)
                self.p.stdin.flush()
            return True
        except Exception:
            return False

    def send_many(self, msgs):
        """write several messages in ONE write so that they reach the server back to back"""
        data = b""
        for m in msgs:
            b = json.dumps(m).encode()
            data += b"Content-Length: %d\r\n\r\n" % len(b) + b
        try:
            with self.wlock:
                self.p.stdin.write(data)
                self.p.stdin.flush()
            return True
        except Exception:
            return False

    def notify(self, method, params):
        return self._send({"jsonrpc": "2.0", "method": method, "params": params})

    def request_async(self, method, params):
        with self.cv:
            self.next_id += 1
            rid = self.next_id
        self._send({"jsonrpc": "2.0", "id": rid, "method": method, "params": params})
        return rid

    def wait(self, rid, timeout=30.0):
        end = time.time() + timeout
        with self.cv:
            while rid not in self.responses:
                left = end - time.time()
                if left <= 0 or self.eof:
                    return self.responses.get(rid)
                self.cv.wait(min(left, 0.2))
            return self.responses[rid]

    def request(self, method, params, timeout=30.0):
        return self.wait(self.request_async(method, params), timeout)

    def initialize(self, timeout=60.0, work_done_progress=False):
        caps = {"workspace": {"configuration": False, "workspaceFolders": True},
                "textDocument": {"publishDiagnostics": {}},
                "window": {"workDoneProgress": work_done_progress}}
        r = self._send({"jsonrpc": "2.0", "id": 1, "method": "initialize", "params": {
            "processId": None, "rootUri": path_uri(self.workspace), "capabilities": caps,
            "workspaceFolders": [{"uri": path_uri(self.workspace), "name": "w"}]}})
        resp = self.wait(1, timeout)
        self.notify("initialized", {})
        return resp

    def release_held(self):
        with self.cv:
            ids, self.held_requests = self.held_requests, []
        for i in ids:
            self._send({"jsonrpc": "2.0", "id": i, "result": None})
        return len(ids)

    def wait_held(self, n=1, timeout=30.0):
        end = time.time() + timeout
        with self.cv:
            while len(self.held_requests) < n and time.time() < end and not self.eof:
                self.cv.wait(0.05)
            return len(self.held_requests) >= n

    def wait_ready(self, timeout=90.0):
        """the first request after `initialized` is only answered when the initialization task is over"""
        rid = self.request_async("workspace/symbol", {"query": "zzzz_verif_probe"})
        return self.wait(rid, timeout) is not None

    def settle(self, quiet=0.6, timeout=20.0):
        """wait until nothing has arrived for `quiet` seconds"""
        end = time.time() + timeout
        with self.cv:
            while time.time() < end and not self.eof:
                if time.time() - self.last_rx >= quiet:
                    return True
                self.cv.wait(0.05)
        return False

    def close(self):
        try:
            rid = self.request_async("shutdown", None)
            self.wait(rid, 3.0)
            self.notify("exit", None)
            self.p.wait(timeout=3)
        except Exception:
            pass
        try:
            self.p.kill()
        except Exception:
            pass


def make_workspace(files, emmyrc=None):
    d = tempfile.mkdtemp(prefix="verif-sched-")
    d = os.path.realpath(d)
    for rel, text in files.items():
        p = os.path.join(d, rel)
        os.makedirs(os.path.dirname(p), exist_ok=True)
        with open(p, "w", encoding="utf-8") as f:
            f.write(text)
    if emmyrc is not None:
        with open(os.path.join(d, ".emmyrc.json"), "w") as f:
            json.dump(emmyrc, f)
    return d


def run_driver(lines):
    p = subprocess.run([VDRIVER], input="".join(l + "\n" for l in lines), stdout=subprocess.PIPE, text=True, timeout=600)
    out = p.stdout.splitlines()
    if len(out) != len(lines):
        raise RuntimeError(f"vdriver answered {len(out)} lines for {len(lines)} requests")
    return out


class Report:
    def __init__(self):
        self.d = dict(evaluations=0, distinct_nontrivial=0, rule="", samples=[], mismatches=[], oracle_failures=[],
                      distribution={}, notes=[], traces_validated_against_impl=0, extra={})

    def count(self, k, n=1):
        self.d["distribution"][k] = self.d["distribution"].get(k, 0) + n

    def sample(self, v):
        if len(self.d["samples"]) < 5:
            self.d["samples"].append(v)

    def mismatch(self, v):
        if len(self.d["mismatches"]) < 20:
            self.d["mismatches"].append(v)
        self.count("mismatches_total")

    def oracle_failure(self, v):
        if len(self.d["oracle_failures"]) < 50:
            self.d["oracle_failures"].append(v)
        self.count("oracle_failures_total")

    def write(self, path):
        with open(path, "w") as f:
            json.dump(self.d, f, indent=1)


def parse_args(argv):
    a = dict(prop=None, tier="quick", seed=1, out="/dev/stdout", replay=None)
    i = 0
    while i < len(argv):
        if argv[i] in ("--tier", "--seed", "--out", "--replay"):
            a[argv[i][2:]] = argv[i + 1]; i += 2
        elif argv[i].startswith("--"):
            i += 2
        else:
            a["prop"] = argv[i]; i += 1
    a["seed"] = int(a["seed"])
    return a
