"""C29 sessions: a workspace reload (config change → debounced `apply_workspace_reload`) racing with
didOpen/didChange/didClose bursts on the real server; afterwards every document must be analysed with the
editor text (open) or the disk content / nothing (closed)."""
import os, sys, json, time, random, shutil, itertools

sys.path.insert(0, os.path.dirname(os.path.abspath(__file__)))
from sched_lsp import Server, make_workspace, path_uri, run_driver  # noqa: E402
from sched_sessions import text_of, disk_text, notif_msg, observe_marker, expected_last_writer, spell_uri, special_name, SPELLINGS  # noqa: E402
from sched_run import read_trace  # noqa: E402

RELOAD_DELAY = 2.0   # CONFIG_RELOAD_DELAY in workspace_manager.rs
NFILL = 150          # filler files so that the rebuild takes a while


def count_reload_acq(trace):
    try:
        with open(trace, "rb") as f:
            return f.read().count(b"\tacq\treload_lock\t")
    except OSError:
        return 0


def c29_session(rep, seed, sched_seed, rounds, distinct):
    rng = random.Random(seed * 3000017 + (sched_seed or 0))
    NDISK, NURIS = 2, 4
    files = {f"fill/m{i}.lua": f"local M{i} = {{}}\nfunction M{i}.f(a, b) return a + b + {i} end\nreturn M{i}\n" for i in range(NFILL)}
    # file names with URI-reserved / non-ASCII characters; the client spells their uris differently from the server
    fname = lambda r, i: f"r{r}_{special_name(r, i)}_f{i}.lua"
    for r in range(rounds):
        for i in range(NDISK):
            files[fname(r, i)] = disk_text(i)
    ws = make_workspace(files, emmyrc={"diagnostics": {"diagnosticInterval": 200}})
    trace = os.path.join(ws, ".verif-trace.tsv")
    srv = Server(ws, sched_seed=sched_seed, sched_max_ms=4, trace=trace)
    desc0 = {"kind": "session", "prop": "C29", "seed": seed, "sched_seed": sched_seed, "rounds": rounds}
    counter = [0]
    marks = []
    try:
        if srv.initialize() is None or not srv.wait_ready(120.0):
            rep.mismatch({"what": "server did not initialise", "input": desc0})
            return
        srv.settle(0.6, 20.0)
        for r in range(rounds):
            uris = [spell_uri(os.path.join(ws, fname(r, i)), SPELLINGS[(r + i) % 3]) for i in range(NURIS)]
            # some documents are already open (and edited) before the reload is requested
            pre = []
            for u in range(NURIS):
                if rng.random() < 0.5:
                    counter[0] += 1
                    pre.append({"k": "o", "u": u, "t": counter[0], "text": text_of(counter[0])})
            for i, e in enumerate(pre):
                srv._send(notif_msg(e, uris, i + 1))
            # request the reload: rewrite the config file (the server's own watcher and the client notification)
            with open(os.path.join(ws, ".emmyrc.json"), "w") as f:
                json.dump({"diagnostics": {"diagnosticInterval": 200 + r + 1}}, f)
            srv.notify("workspace/didChangeWatchedFiles", {"changes": [{"uri": path_uri(os.path.join(ws, ".emmyrc.json")), "type": 2}]})
            t_req = time.time()
            marks.append(("request", r, t_req))
            # burst spread around the moment the debounced reload starts
            n = rng.randrange(3, 9)
            opened = {e["u"] for e in pre}
            evs = []
            for _ in range(n):
                u = rng.randrange(NURIS)
                if u in opened and rng.random() < 0.3:
                    evs.append({"k": "x", "u": u}); opened.discard(u)
                else:
                    counter[0] += 1
                    evs.append({"k": "c" if u in opened else "o", "u": u, "t": counter[0], "text": text_of(counter[0])})
                    opened.add(u)
            if rng.random() < 0.7:
                # reactive: fire as soon as the H4 trace shows the reload task holding reload_lock
                seen0 = count_reload_acq(trace)
                deadline = t_req + RELOAD_DELAY + 2.0
                while time.time() < deadline and count_reload_acq(trace) == seen0:
                    time.sleep(0.002)
                time.sleep(rng.choice([0, 0, 0.002, 0.01, 0.03]))
            else:
                start = RELOAD_DELAY - 0.15 + rng.random() * 0.2
                time.sleep(max(0.0, t_req + start - time.time()))
            for i, e in enumerate(evs):
                srv._send(notif_msg(e, uris, 100 + i))
                time.sleep(rng.choice([0, 0.001, 0.005, 0.02, 0.05]))
            time.sleep(max(0.0, t_req + RELOAD_DELAY + 1.2 - time.time()))
            srv.request("workspace/symbol", {"query": "zz_probe"}, 60.0)
            srv.settle(0.5, 20.0)
            allev = pre + evs
            obs = {u: observe_marker(srv, uris[u], 60.0) for u in range(NURIS)}
            exp = expected_last_writer(allev, NDISK, NURIS)
            rep.d["evaluations"] += 1
            shape = ",".join(f"{e['k']}{e['u']}" for e in allev)
            desc = dict(desc0, round=r, events=[{k: v for k, v in e.items() if k != "text"} for e in allev],
                        uris=[u.rsplit("/", 1)[1] for u in uris])
            rep.count("special_name_uri_rounds")
            enc = ",".join((f"x{e['u']}" if e["k"] == "x" else f"e{e['u']}:{e['t']}") for e in allev) or "-"
            disk = ",".join(f"{i}={900 + i}" for i in range(NDISK))
            us = ",".join(map(str, range(NURIS)))
            reqs = [f"schedreload.final {disk} {us} {enc} all"]
            if len(allev) <= 3:
                reqs.append(f"schedreload.explore real {disk} {us} {enc} all all 3000000")
            outs = run_driver(reqs)
            model = {}
            if outs[0].startswith("ok "):
                for u, pair in enumerate(outs[0][3:].split(",")):
                    an = pair.split("/")[1]
                    model[u] = None if an == "none" else (("d", int(an) - 900) if int(an) >= 900 else ("v", int(an)))
            for u in range(NURIS):
                if model and obs[u] != model[u]:
                    rep.mismatch({"what": f"uri {u}: observed {obs[u]}, the model's quiescent state has {model[u]}", "input": desc, "model": outs})
                if obs[u] != exp[u]:
                    cls = "open-file-lost-editor-text" if exp[u] and exp[u][0] == "v" else "closed-file-not-disk"
                    cls += "-uri-spelling" if uris[u] != path_uri(os.path.join(ws, fname(r, u))) else ""
                    rep.oracle_failure({"class": cls, "what": f"uri {u} (sent as …/{uris[u].rsplit('/', 1)[1]}): after the reload settled the analysis has {obs[u]}; expected {exp[u]} "
                                        f"(events {shape})", "input": desc})
            if len(outs) > 1 and outs[1].startswith("ok counter"):
                rep.mismatch({"what": "model finds a non-converging schedule for an observed event list", "model": outs[1], "input": desc})
            rep.sample({"events": shape, "observed": {str(k): str(v) for k, v in obs.items()}, "model": outs[-1]})
            marks.append(("done", r, time.time(), shape))
    finally:
        srv.close()
    # did the reload really overlap with handlers? (from the H4 trace: document-handler lock events between the
    # acquisition and the release of reload_lock)
    evs = read_trace(trace)
    inside, overlaps, reloads = False, 0, 0
    cur = 0
    for e in evs:
        if e["lock"] == "reload_lock" and e["ev"] == "acq":
            inside, cur = True, 0
            reloads += 1
        elif e["lock"] == "reload_lock" and e["ev"] == "rel":
            inside = False
            if cur:
                overlaps += 1
        elif inside and e["ev"] == "acq" and "text_document_handler.rs" in e["file"]:
            cur += 1
    rep.count("reloads_run", reloads)
    rep.count("reloads_overlapping_document_handlers", overlaps)
    rep.d["traces_validated_against_impl"] += reloads
    for m in marks:
        if m[0] == "done":
            distinct.add(m[3])
    shutil.rmtree(ws, ignore_errors=True)


def write_config(ws, k, ignore_dirs):
    with open(os.path.join(ws, ".emmyrc.json"), "w") as f:
        json.dump({"diagnostics": {"diagnosticInterval": 200 + k}, "workspace": {"ignoreDir": sorted(ignore_dirs)}}, f)


def wait_reload(srv, trace, t_req, seen0, extra=1.2):
    """wait until the debounced reload has started (H4 trace) and finished (reload_lock released), then a barrier"""
    deadline = t_req + RELOAD_DELAY + 6.0
    while time.time() < deadline and count_reload_acq(trace) == seen0:
        time.sleep(0.01)
    while time.time() < deadline:
        try:
            data = open(trace, "rb").read()
        except OSError:
            data = b""
        if data.count(b"\trel\treload_lock\t") >= data.count(b"\tacq\treload_lock\t") > seen0:
            break
        time.sleep(0.02)
    srv.request("workspace/symbol", {"query": "zz_probe"}, 60.0)
    srv.settle(0.4, 20.0)


def c29_membership_session(rep, seed, sched_seed, rounds, distinct):
    """workspace-membership changes: documents opened/edited while their directory is in `workspace.ignoreDir`
    (on disk and editor-only), then the config is rewritten so that the directory belongs to the workspace and the
    debounced reload runs (with further edits racing it); and the reverse (included → excluded → included again).
    Oracle: after settling, every OPEN document that is a workspace file NOW is analysed with the editor's latest
    text; closed workspace files with their disk text."""
    rng = random.Random(seed * 7000003 + (sched_seed or 0))
    files = {f"fill/m{i}.lua": f"local M{i} = {{}}\nreturn M{i}\n" for i in range(40)}
    for r in range(rounds):
        for d in ("ex", "inc"):
            files[f"r{r}_{d}/f0.lua"] = disk_text(0)
            files[f"r{r}_{d}/f1.lua"] = disk_text(1)
    ws = make_workspace(files)
    ignored = {f"r{r}_ex" for r in range(rounds)}
    write_config(ws, 0, ignored)
    trace = os.path.join(ws, ".verif-trace.tsv")
    srv = Server(ws, sched_seed=sched_seed, sched_max_ms=4, trace=trace)
    desc0 = {"kind": "session", "prop": "C29", "session": "membership", "seed": seed, "sched_seed": sched_seed, "rounds": rounds}
    counter = [0]
    cfgk = [0]
    try:
        if srv.initialize() is None or not srv.wait_ready(120.0):
            rep.mismatch({"what": "server did not initialise", "input": desc0})
            return
        srv.settle(0.6, 20.0)
        for r in range(rounds):
            kind = "bring-in" if r % 2 == 0 else "out-and-back"
            d = "ex" if kind == "bring-in" else "inc"
            # uris 0,1 on disk, 2,3 editor-only, all in the directory whose membership changes
            uris = [spell_uri(os.path.join(ws, f"r{r}_{d}", f"f{i}.lua"), SPELLINGS[(r + i) % 3]) for i in range(4)]
            evs = []

            def send(k, u):
                if k == "x":
                    e = {"k": "x", "u": u}
                else:
                    counter[0] += 1
                    e = {"k": k, "u": u, "t": counter[0], "text": text_of(counter[0])}
                evs.append(e)
                srv._send(notif_msg(e, uris, len(evs)))
            opened = set()
            for u in rng.sample(range(4), rng.randrange(2, 5)):
                send("o", u); opened.add(u)
                for _ in range(rng.randrange(0, 3)):
                    send("c", u)
            phases = [set(ignored) - {f"r{r}_ex"}] if kind == "bring-in" else [set(ignored) | {f"r{r}_inc"}, set(ignored)]
            judged = True
            for pi, ign in enumerate(phases):
                cfgk[0] += 1
                seen0 = count_reload_acq(trace)
                write_config(ws, cfgk[0], ign)
                srv.notify("workspace/didChangeWatchedFiles", {"changes": [{"uri": path_uri(os.path.join(ws, ".emmyrc.json")), "type": 2}]})
                t_req = time.time()
                # edits racing the reload: some before it starts, some right after it took reload_lock
                for _ in range(rng.randrange(0, 3)):
                    u = rng.randrange(4)
                    send("c" if u in opened else "o", u); opened.add(u)
                if rng.random() < 0.7:
                    deadline = t_req + RELOAD_DELAY + 2.0
                    while time.time() < deadline and count_reload_acq(trace) == seen0:
                        time.sleep(0.002)
                    for _ in range(rng.randrange(1, 4)):
                        u = rng.randrange(4)
                        if u in opened and rng.random() < 0.25:
                            send("x", u); opened.discard(u)
                        else:
                            send("c" if u in opened else "o", u); opened.add(u)
                        time.sleep(rng.choice([0, 0.002, 0.02]))
                wait_reload(srv, trace, t_req, seen0)
                ignored = ign
                member_now = f"r{r}_{d}" not in ign
                obs = {u: observe_marker(srv, uris[u], 60.0) for u in range(4)}
                exp = expected_last_writer(evs, 2, 4)
                rep.d["evaluations"] += 1
                shape = kind + ":" + ",".join(f"{e['k']}{e['u']}" for e in evs) + f"|phase{pi}"
                distinct.add(shape)
                desc = dict(desc0, round=r, membership=kind, phase=pi, now_workspace=member_now,
                            events=[{k: v for k, v in e.items() if k != "text"} for e in evs])
                rep.count("membership_" + kind + ("_in" if member_now else "_out"))
                enc = ",".join((f"x{e['u']}" if e["k"] == "x" else f"e{e['u']}:{e['t']}") for e in evs) or "-"
                out = run_driver([f"schedreload.final 0=900,1=901 0,1,2,3 {enc} {'all' if member_now else '0.1.2.3'}"])[0]
                model = {}
                if out.startswith("ok "):
                    for u, pair in enumerate(out[3:].split(",")):
                        an = pair.split("/")[1]
                        model[u] = "*" if an == "*" else None if an == "none" else (("d", int(an) - 900) if int(an) >= 900 else ("v", int(an)))
                for u in range(4):
                    if not member_now:
                        continue   # nothing is claimed about documents outside the workspace
                    if model and model[u] != "*" and obs[u] != model[u]:
                        rep.mismatch({"what": f"uri {u}: observed {obs[u]}, the model's quiescent state has {model[u]}", "input": desc, "model": out})
                    if obs[u] != exp[u]:
                        cls = "excluded-document-lost-editor-text" if exp[u] and exp[u][0] == "v" else "closed-file-not-disk"
                        rep.oracle_failure({"class": cls, "what": f"{kind} phase {pi}: uri {u} is a workspace file now; the analysis has {obs[u]}, "
                                            f"the editor's last notification gives {exp[u]} (events {shape})", "input": desc})
                rep.sample({"membership": kind, "phase": pi, "now_workspace": member_now, "events": shape,
                            "observed": {str(k): str(v) for k, v in obs.items()}, "model": out})
    finally:
        srv.close()
        shutil.rmtree(ws, ignore_errors=True)


def model_search(rep, thorough):
    alpha = ["e0:1", "e0:2", "x0", "e1:3", "x1"]
    lists = []
    for L in range(1, (3 if thorough else 2) + 1):
        for c in itertools.product(alpha, repeat=L):
            lists.append(",".join(c))
    reqs = [f"schedreload.explore real 0=900 0,1 {l} all {k} 6000000" for l in lists for k in (("all", "all,all") if thorough else ("all",))]
    # membership changes: uri 0 (on disk) / 1 (editor-only) excluded at first and brought in, thrown out, out and back
    for l in lists[::(1 if thorough else 2)]:
        reqs.append(f"schedreload.explore real 0=900 0,1 {l} 0.1 all 6000000")
        reqs.append(f"schedreload.explore real 0=900 0,1 {l} all 0.1,all 12000000")
    if thorough:  # the instance named in the design: 1 reload, 2 edits, 1 close
        reqs += [f"schedreload.explore real 0=900 0,1 {l} all all 30000000" for l in ("e0:1,e1:2,x0", "e1:1,e1:2,x1", "e0:1,x0,e0:2")]
    outs = run_driver(reqs)
    total = 0
    for q, o in zip(reqs, outs):
        rep.d["evaluations"] += 1
        if o.startswith("ok all-consistent"):
            total += int(o.split("schedules=")[1])
        elif o.startswith("ok counter"):
            rep.oracle_failure({"class": "model-counter-schedule", "what": f"with the mechanisms extracted from the source the model does not converge: {q} → {o}",
                                "input": {"kind": "schedule", "prop": "C29", "request": q, "result": o}})
            break
        else:
            rep.count("explore_fuel_exhausted")
    rep.count("model_instances_explored", len(reqs))
    rep.count("model_schedules_explored", total)
    return len(reqs)


def run(a, rep):
    thorough = a["tier"] == "thorough"
    rep.d["rule"] = ("a case = one reload round on the real server (config file rewritten → debounced apply_workspace_reload over "
                     f"{NFILL}+ files) with 3–12 didOpen/didChange/didClose on 4 documents (2 on disk) sent around the start of the reload; "
                     "analysed text of every document observed afterwards; or one (notification list, number of reloads) instance whose "
                     "schedules are all explored in the model; membership sessions: documents (on disk and editor-only) opened/edited in a "
                     "directory that is in workspace.ignoreDir, config rewritten so that it joins the workspace (and the reverse: out and "
                     "back) with edits racing the reload. distinct non-trivial = distinct event shapes + explored instances")
    distinct = set()
    if a["replay"]:
        inp = (json.load(open(a["replay"])).get("input") or {})
        if inp.get("kind") == "schedule":
            o = run_driver([inp["request"]])[0]
            rep.d["evaluations"] += 1
            if o.startswith("ok counter"):
                rep.oracle_failure({"class": "model-counter-schedule", "what": "replay: " + o, "input": inp})
            rep.d["notes"].append("replay: " + o)
        elif inp.get("session") == "membership":
            c29_membership_session(rep, inp.get("seed", 1), inp.get("sched_seed"), inp.get("rounds", 2), distinct)
        else:
            c29_session(rep, inp.get("seed", 1), inp.get("sched_seed"), inp.get("rounds", 3), distinct)
        return
    sessions = [(a["seed"] * 10 + 1, 3), (None, 2)] if not thorough else [(None, 6)] + [(a["seed"] * 10 + i, 6) for i in range(1, 5)]
    for ss, n in sessions:
        c29_session(rep, a["seed"], ss, n, distinct)
        rep.count("sessions")
    for ss, n in ([(a["seed"] * 10 + 3, 2)] if not thorough else [(None, 4), (a["seed"] * 10 + 4, 4), (a["seed"] * 10 + 5, 4)]):
        c29_membership_session(rep, a["seed"], ss, n, distinct)
        rep.count("sessions_membership")
    ni = model_search(rep, thorough)
    rep.d["distinct_nontrivial"] = len(distinct) + ni
    rep.d["notes"].append("reloads are triggered through the config-file path (2 s debounce); whether a round really interleaved "
                          "document handlers with the reload is read off the H4 trace (distribution: reloads_overlapping_document_handlers); "
                          "the disk is not changed during a round")
