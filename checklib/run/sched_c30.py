"""C30 sessions: published diagnostics converge to the current content (real server, push diagnostics)."""
import os, sys, json, time, random, shutil, re, itertools
from urllib.parse import unquote

sys.path.insert(0, os.path.dirname(os.path.abspath(__file__)))
from sched_lsp import Server, make_workspace, path_uri, run_driver  # noqa: E402
from sched_sessions import text_of, disk_text, notif_msg, spell_uri, special_name, SPELLINGS  # noqa: E402

INTERVAL_MS = 60


def norm_diags(ds):
    out = []
    for d in ds or []:
        r = d.get("range", {})
        out.append((r.get("start", {}).get("line"), r.get("start", {}).get("character"), r.get("end", {}).get("line"),
                    r.get("end", {}).get("character"), str(d.get("code")), d.get("severity"), d.get("message")))
    return sorted(out, key=lambda t: tuple(str(x) for x in t))


def marker(ds):
    for d in ds or []:
        m = re.search(r"undefined_g_(\d+)", d.get("message", ""))
        if m:
            return int(m.group(1))
    return None


def quiesce(srv, max_s=30.0):
    """"no edits pending and the debounce intervals have passed": a request is answered only after the handlers queued
    before it on the fair analysis lock are done; repeat (barrier, debounce interval, barrier, quiet) until a whole
    pass brings no new publication"""
    end = time.time() + max_s
    while time.time() < end:
        with srv.cv:
            n0 = len(srv.diags)
        srv.request("workspace/symbol", {"query": "zz_probe"}, 30.0)
        time.sleep(INTERVAL_MS / 1000.0 + 0.15)
        srv.request("workspace/symbol", {"query": "zz_probe"}, 30.0)
        srv.settle(0.4, 10.0)
        with srv.cv:
            if len(srv.diags) == n0:
                return True
    return False


def c30_session(rep, seed, sched_seed, rounds, distinct):
    rng = random.Random(seed * 2000003 + (sched_seed or 0))
    NDISK, NURIS = 1, 3
    NW = 3   # extra on-disk, never-opened-before files per round for the watched-files batches
    fname = lambda r, i: f"r{r}_{special_name(r, i)}_f{i}.lua"
    files = {fname(r, i): disk_text(i) for r in range(rounds) for i in range(NDISK)}
    files.update({f"r{r}_w{j}.lua": disk_text(10 + j) for r in range(rounds) for j in range(NW)})
    ws = make_workspace(files, emmyrc={"diagnostics": {"diagnosticInterval": INTERVAL_MS}})
    srv = Server(ws, sched_seed=sched_seed, sched_max_ms=3)
    desc0 = {"kind": "session", "prop": "C30", "seed": seed, "sched_seed": sched_seed, "rounds": rounds}
    counter = [0]
    try:
        if srv.initialize() is None or not srv.wait_ready():
            rep.mismatch({"what": "server did not initialise", "input": desc0})
            return
        srv.settle(0.5, 10.0)
        for r in range(rounds):
            uris = [spell_uri(os.path.join(ws, fname(r, i)), SPELLINGS[(r + i) % 3]) for i in range(NURIS)]
            start_seq = srv.seq
            evs = []
            n = rng.randrange(3, 10)
            opened = set()
            for _ in range(n):
                u = rng.randrange(NURIS)
                k = rng.random()
                if u in opened and k < 0.2:
                    evs.append({"k": "x", "u": u}); opened.discard(u)
                else:
                    counter[0] += 1
                    evs.append({"k": "c" if u in opened else "o", "u": u, "t": counter[0], "text": text_of(counter[0], diag=True)})
                    opened.add(u)
            gaps = []
            for i, e in enumerate(evs):
                srv._send(notif_msg(e, uris, i + 1))
                g = rng.choice([0, 0, 0.005, 0.03, INTERVAL_MS / 1000.0, 0.1])
                gaps.append(g)
                if g:
                    time.sleep(g)
            # no edits pending; let the debounce intervals pass
            if not quiesce(srv):
                rep.count("rounds_not_quiescent_in_time")
            # watched-files batch: ≥ 2 changed workspace files that are not open, followed within the debounce interval
            # by an open/edit of one of them (the later task must only cancel that file's task, not the batch)
            batch = None
            if rng.random() < 0.6:
                nb = rng.randrange(2, NW + 1)
                wuris = [path_uri(os.path.join(ws, f"r{r}_w{j}.lua")) for j in range(nb)]
                wk = []
                for j in range(nb):
                    counter[0] += 1
                    wk.append(counter[0])
                    with open(os.path.join(ws, f"r{r}_w{j}.lua"), "w") as f:
                        f.write(text_of(counter[0], diag=True))
                wseq = srv.seq
                srv.notify("workspace/didChangeWatchedFiles", {"changes": [{"uri": u, "type": 2} for u in wuris]})
                time.sleep(rng.choice([0, 0.005, INTERVAL_MS / 3000.0]))
                counter[0] += 1
                pick = rng.randrange(nb)
                how = rng.choice(["o", "c"])
                srv._send(notif_msg({"k": how, "u": 0, "text": text_of(counter[0], diag=True)}, [wuris[pick]], 1))
                wk_final = list(wk)
                wk_final[pick] = counter[0]
                if not quiesce(srv):
                    rep.count("rounds_not_quiescent_in_time")
                batch = dict(files=nb, edited=pick, how=how, markers=wk_final)
                rep.count("watched_batches")
                for j, u in enumerate(wuris):
                    with srv.cv:
                        pj = [ds for seq, uri, ds in srv.diags if seq > wseq and uri == u]
                    fresh = srv.request("textDocument/diagnostic", {"textDocument": {"uri": u}}, 30.0)
                    items = ((fresh or {}).get("result") or {}).get("items")
                    wdesc = dict(desc0, round=r, watched_batch=batch, file=j)
                    if items is None:
                        rep.mismatch({"what": "no pull diagnosis available for a watched file", "input": wdesc})
                    elif not pj or norm_diags(pj[-1]) != norm_diags(items):
                        rep.oracle_failure({"class": "watched-batch-file-not-rediagnosed",
                                            "what": f"watched-files batch of {nb} changed files, then {how} of file {pick} within the debounce interval: "
                                                    f"file {j}: last publication after the batch has marker {marker(pj[-1]) if pj else 'nothing published'}, "
                                                    f"a fresh diagnosis has marker {marker(items)} (expected {wk_final[j]})", "input": wdesc})
                    if items is not None and marker(items) != wk_final[j]:
                        rep.mismatch({"what": f"watched file {j} is not analysed with its new content (marker {marker(items)} ≠ {wk_final[j]})", "input": wdesc})
            rep.d["evaluations"] += 1
            desc = dict(desc0, round=r, events=[{k: v for k, v in e.items() if k != "text"} for e in evs], gaps=gaps)
            shape = ",".join(f"{e['k']}{e['u']}" for e in evs)
            distinct.add(shape)
            rep.count("events_%d" % len(evs))
            pubs = {u: [] for u in range(NURIS)}
            keys = [unquote(u) for u in uris]
            with srv.cv:
                for seq, uri, ds in srv.diags:
                    # the server publishes under its own spelling of the uri: compare decoded
                    if seq > start_seq and unquote(uri or "") in keys:
                        pubs[keys.index(unquote(uri))].append(ds)
            # model side: the abstract event list must be predicted to converge
            enc = []
            for e in evs:
                if e["k"] == "x":
                    enc.append(f"r{e['u']}" if e["u"] >= NDISK else f"e{e['u']}:{900 + e['u']}")
                else:
                    enc.append(f"e{e['u']}:{e['t']}")
            model = run_driver([f"scheddiag.explore real {','.join(enc)} {','.join(map(str, range(NURIS)))} 3000000"])[0] \
                if len(evs) <= 4 else "skipped (list too long for exhaustive exploration)"
            for u in range(NURIS):
                last_ev = next((e for e in reversed(evs) if e["u"] == u), None)
                if last_ev is None:
                    continue
                analysed = not (last_ev["k"] == "x" and u >= NDISK)
                lastp = pubs[u][-1] if pubs[u] else None
                if analysed:
                    fresh = srv.request("textDocument/diagnostic", {"textDocument": {"uri": uris[u]}}, 30.0)
                    items = ((fresh or {}).get("result") or {}).get("items")
                    if items is None:
                        rep.mismatch({"what": "no pull diagnosis available for comparison", "input": desc, "response": fresh})
                        continue
                    if lastp is None or norm_diags(lastp) != norm_diags(items):
                        rep.oracle_failure({"class": "stale-publication", "what": f"uri {u}: last published diagnostics (marker {marker(lastp)}, {len(lastp or [])} items) "
                                            f"differ from a fresh diagnosis of the current content (marker {marker(items)}, {len(items)} items)", "input": desc})
                        if model.startswith("ok all-settled"):
                            rep.mismatch({"what": "the model predicts convergence for this event list on every schedule", "model": model, "input": desc})
                    if last_ev["k"] != "x" and marker(items) != last_ev["t"]:
                        rep.mismatch({"what": "fresh diagnosis is not of the last notification's text (C27 broken?)", "input": desc})
                else:
                    if lastp:   # non-empty last publication for a file that is not analysed any more
                        rep.oracle_failure({"class": "removed-file-not-cleared", "what": f"uri {u}: closed, not on disk, but the last publication has {len(lastp)} diagnostics (marker {marker(lastp)})",
                                            "input": desc})
                # publish-under-lock consequence: per file the published texts never go back in edit order
                ms = [marker(p) for p in pubs[u] if marker(p) is not None]
                if any(a > b for a, b in zip(ms, ms[1:])):
                    rep.oracle_failure({"class": "publication-order", "what": f"uri {u}: publications went back to an older text: markers {ms}", "input": desc})
            if model.startswith("ok counter"):
                rep.mismatch({"what": "model finds a non-converging schedule for an observed event list", "model": model, "input": desc})
            rep.sample({"events": shape, "publications_per_uri": {str(u): [marker(p) if p else "[]" for p in pubs[u]] for u in range(NURIS)}, "model": model})
            rep.d["traces_validated_against_impl"] += 1
    finally:
        srv.close()
        shutil.rmtree(ws, ignore_errors=True)


def model_search(rep, thorough):
    alpha = ["e0:1", "e0:2", "r0", "e1:3", "r1"]
    lists = []
    for L in range(1, (4 if thorough else 3) + 1):
        for c in itertools.product(alpha, repeat=L):
            lists.append(",".join(c))
    if not thorough:
        lists = lists[::2]
    outs = run_driver([f"scheddiag.explore real {l} 0,1 3000000" for l in lists])
    total = 0
    for l, o in zip(lists, outs):
        rep.d["evaluations"] += 1
        if o.startswith("ok all-settled"):
            total += int(o.split("schedules=")[1])
        elif o.startswith("ok counter"):
            rep.oracle_failure({"class": "model-counter-schedule", "what": f"with the mechanisms extracted from the source the model has a non-converging schedule for events {l}: {o}",
                                "input": {"kind": "schedule", "prop": "C30", "events": l, "result": o}})
            break
        else:
            rep.count("explore_fuel_exhausted")
    rep.count("model_lists_explored", len(lists))
    rep.count("model_schedules_explored", total)
    return len(lists)


def run(a, rep):
    thorough = a["tier"] == "thorough"
    rep.d["rule"] = ("a case = one round of 3–9 didOpen/didChange/didClose over 3 documents (1 on disk) with random gaps around the "
                     "debounce interval, in 60 % of the rounds followed by a didChangeWatchedFiles batch naming 2–3 changed, not open "
                     "workspace files and, within the debounce interval, a didOpen/didChange of one of them; "
                     f"debounce interval ({INTERVAL_MS} ms), after which the last publishDiagnostics per document is compared with a fresh "
                     "pull diagnosis (textDocument/diagnostic) of the same server; or one event list whose schedules are all explored in "
                     "the model. distinct non-trivial = distinct event shapes + explored lists")
    distinct = set()
    if a["replay"]:
        inp = (json.load(open(a["replay"])).get("input") or {})
        if inp.get("kind") == "schedule":
            o = run_driver([f"scheddiag.explore real {inp['events']} 0,1 3000000"])[0]
            rep.d["evaluations"] += 1
            if o.startswith("ok counter"):
                rep.oracle_failure({"class": "model-counter-schedule", "what": "replay: " + o, "input": inp})
            rep.d["notes"].append("replay: " + o)
        else:
            c30_session(rep, inp.get("seed", 1), inp.get("sched_seed"), inp.get("rounds", 6), distinct)
        return
    sessions = [(None, 4), (a["seed"] * 10 + 1, 4)] if not thorough else [(None, 12)] + [(a["seed"] * 10 + i, 12) for i in range(1, 4)]
    for ss, n in sessions:
        c30_session(rep, a["seed"], ss, n, distinct)
        rep.count("sessions")
    nl = model_search(rep, thorough)
    rep.d["distinct_nontrivial"] = len(distinct) + nl
    rep.d["notes"].append("judged only on self-contained files (a diagnosis depends on that file's text); timers in the model fire at "
                          "arbitrary times, the real debounce interval is " + str(INTERVAL_MS) + " ms")
