#!/usr/bin/env python3
"""C35 runner: generated documentation is complete and reproducible.

Generated workspaces declare classes / enums / aliases / globals / modules, some split across main files, some
in a library root, some in both. The real `emmylua_doc_cli --output-format json` exports each workspace in
several fresh processes (fresh hash seeds).
Oracle (statement evaluated on the implementation): all outputs byte-identical; every class, enum, alias,
global and module declared in the main workspace listed exactly once; nothing declared only in the library
root or the standard library.
Tie: the Lean model (`order.export_types/_globals/_modules`: sort + main filter + one entry per global name)
is fed the workspace's declarations in a shuffled ("hash") order and must give the same name sequences as
the real export.
"""
import os, sys, json
sys.path.insert(0, os.path.dirname(os.path.abspath(__file__)))
from tools_lib import *

NAME_POOL = ["Alpha", "alpha", "Beta", "beta2", "Zeta", "_under", "Mid", "mid_x", "ns.Inner", "ns.Other", "A1", "a1",
             "Gamma", "delta", "Omega", "Kappa", "kap", "Yy", "yy", "N0"]


def gen_workspace(rng, base):
    """spec: files; types = [{name, kind, private, decls: [[path, line]]}]; globals = {name: [[path, line]]};
    modules = {path: name}"""
    stems = rng.shuffle(["a", "b", "c", "sub/d", "sub/e", "deep/x/f", "zz"])[: rng.range(2, 5)]
    main_files = [f"main/{n}.lua" for n in stems]
    if rng.chance(1, 2):
        main_files += ["main/pkg.lua", "main/pkg/init.lua"]          # two files, one module name
    lib_files = ["lib/l1.lua", "lib/pkg/l2.lua"][: rng.range(1, 2)]
    lines = {p: [] for p in main_files + lib_files}
    types, globals_, modules = [], {}, {}
    names = rng.shuffle(NAME_POOL)

    def decl_type(entry, path, attr):
        L = lines[path]
        name, kind = entry["name"], entry["kind"]
        ident = "v_" + name.replace(".", "_") + f"_{len(L)}"
        at = f"({attr}) " if attr else ""
        if kind == "class":
            L.append(f"---@class {at}{name}")
            entry["decls"].append([path, len(L)])
            L.append(f"---@field f{len(entry['decls'])} number")
            L.append(f"local {ident} = {{}}")
        elif kind == "enum":
            L.append(f"---@enum {at}{name}")
            entry["decls"].append([path, len(L)])
            L.append(f"local {ident} = {{ A = 1, B = 2, C = 3 }}")
        else:
            L.append(f"---@alias {at}{name} string|integer")
            entry["decls"].append([path, len(L)])

    def new_type(name, kind, private=False):
        e = {"name": name, "kind": kind, "private": private, "decls": []}
        types.append(e)
        return e

    for _ in range(rng.range(2, 6)):
        name = names.pop()
        kind = rng.pick(["class", "class", "enum", "alias"])
        where = rng.below(6)
        if kind == "class" and where == 0 and len(main_files) >= 2:      # partial class split across main files
            e = new_type(name, kind)
            for p in rng.shuffle(main_files)[:2]: decl_type(e, p, "partial")
        elif kind == "class" and where == 1:                              # split between main and library
            e = new_type(name, kind)
            decl_type(e, rng.pick(main_files), "partial"); decl_type(e, rng.pick(lib_files), "partial")
        elif where == 2:                                                  # library only
            decl_type(new_type(name, kind), rng.pick(lib_files), None)
        else:
            decl_type(new_type(name, kind), rng.pick(main_files), None)
    # file-private types: the same name declared in several files = distinct types with equal full names
    for _ in range(rng.range(1, 2)):
        name = names.pop()
        kind = rng.pick(["class", "alias", "enum"])
        for p in rng.shuffle(main_files)[: rng.range(2, len(main_files))]:
            decl_type(new_type(name, kind, True), p, "private")
        if rng.chance(1, 2):
            decl_type(new_type(name, kind, True), rng.pick(lib_files), "private")
        if rng.chance(1, 3):                                              # and a public type of that name too
            decl_type(new_type(name, kind), rng.pick(main_files), None)

    def decl_global(name, path, text=None):
        L = lines[path]
        val = rng.pick(["1", "'s'", "true", "{ x = 1 }", "1.5"])
        if text is not None:
            L.append(text)
        elif rng.chance(1, 5):
            L.append(f"function {name}() end")
        else:
            L.append(f"{name} = {val}")
        globals_.setdefault(name, []).append([path, len(L)])
    for i in range(rng.range(2, 6)):
        name = "G_" + names.pop().replace(".", "_")
        where = rng.below(6)
        if where == 0 and len(main_files) >= 2:
            for p in rng.shuffle(main_files)[:2]: decl_global(name, p)        # assigned in two main files
        elif where == 1:
            p = rng.pick(main_files); decl_global(name, p); decl_global(name, p)   # twice in one file
        elif where == 2:
            decl_global(name, rng.pick(lib_files))                                 # library only
        elif where == 3:
            decl_global(name, rng.pick(lib_files)); decl_global(name, rng.pick(main_files))   # library and main
        else:
            decl_global(name, rng.pick(main_files))
    # main-workspace globals that share their name with standard-library globals
    for name, text in rng.shuffle([("unpack", "unpack = unpack or table.unpack"), ("utf8", "utf8 = utf8 or {}"),
                                   ("print", "print = print"), ("math", "math = math or {}")])[: rng.range(0, 3)]:
        decl_global(name, rng.pick(main_files), text)
    # modules: some files return a value
    for p in main_files + lib_files:
        if rng.chance(2, 3) or p.startswith("main/pkg"):
            if rng.chance(1, 2):
                lines[p].append("return { value = 1 }")
            else:
                lines[p] += ["local M = {}", "function M.run() end", "return M"]
            rel = p.split("/", 1)[1][:-4]
            if rel.endswith("/init"): rel = rel[:-5]
            modules[p] = rel.replace("/", ".")
    files = {p: "\n".join(L) + "\n" for p, L in lines.items()}
    files["main/.emmyrc.json"] = json.dumps({"workspace": {"library": ["@BASE@/lib"]}})
    write_tree(base, files)
    return {"files": files, "types": types, "globals": globals_, "modules": modules}


STD_GLOBALS = {"unpack", "utf8", "print", "math"}


def is_main(p):
    return p.startswith("main/")


def expected(spec):
    """identities of what must be exported: (kind, name, declaring files) per type, global names, (name, file) per module"""
    types = sorted((t["kind"], t["name"], tuple(sorted({p for p, _ in t["decls"]}))) for t in spec["types"]
                   if any(is_main(p) for p, _ in t["decls"]))
    globs = sorted(n for n, ds in spec["globals"].items() if any(is_main(p) for p, _ in ds))
    mods = sorted((n, p) for p, n in spec["modules"].items() if is_main(p))
    return types, globs, mods


def model_requests(spec, rng, fid):
    """fid: relative path -> the real FileId"""
    paths = sorted(p for p in spec["files"] if p.endswith(".lua"))
    mains = ",".join(str(fid[p]) for p in paths if is_main(p)) or "-"
    allnames = sorted({t["name"] for t in spec["types"]} | set(spec["globals"]) | set(spec["modules"].values()), key=lambda s: s.encode())
    rank = {n: i for i, n in enumerate(allnames)}
    kind = {"class": 0, "enum": 1, "alias": 2}
    tl = []
    for t in spec["types"]:
        locs = sorted((fid[p], line) for p, line in t["decls"])
        tl.append(f"{rank[t['name']]}:{kind[t['kind']]}:{'.'.join(f'{f}/{l}' for f, l in locs)}")
    tl += [f"{len(allnames) + 1}:5:{fid[paths[0]]}/1"]                     # a non-exportable kind in the map
    gl = [f"{rank[n]}:{fid[p]}:{line}:1" for n, ds in spec["globals"].items() for p, line in ds]
    gl += [f"{rank[n]}:0:{i + 1}:1" for i, n in enumerate(sorted(spec["globals"])) if n in STD_GLOBALS]   # the std declaration
    ml = [f"{rank[spec['modules'][p]] if p in spec['modules'] else len(allnames) + 2 + i}:{fid[p]}:{1 if p in spec['modules'] else 0}"
          for i, p in enumerate(paths)]
    reqs = [f"order.export_types {mains} {';'.join(rng.shuffle(tl)) or '-'}",
            f"order.export_globals {mains} {';'.join(rng.shuffle(gl)) or '-'}",
            f"order.export_modules {mains} {';'.join(rng.shuffle(ml)) or '-'}"]
    return reqs, allnames


def run_case(rep, rng, w, nruns, spec=None):
    doc = os.path.join(BINS, "emmylua_doc_cli")
    base = workdir(f"C35_ws{w}")
    if spec is None:
        spec = gen_workspace(rng, base)
    else:
        write_tree(base, spec["files"])
    main = os.path.join(base, "main")
    outs = []
    for r in range(nruns):
        rc, out, err = run_proc([doc, main, "--output-format", "json", "--output", "stdout"], cwd=base, timeout=120)
        rep.evaluations += 1
        if rc != 0:
            rep.oracle_failure({"input": {"workspace": spec}, "class": None, "what": f"emmylua_doc_cli exited {rc}: {err[-300:]}"})
            return
        outs.append(out)
    inp = {"workspace": spec}
    rep.count("workspaces"); rep.count("files", len(spec["files"]) - 1)
    rep.count("declared.types", len(spec["types"])); rep.count("declared.globals", len(spec["globals"])); rep.count("declared.modules", len(spec["modules"]))
    rep.count("declared.private_same_name_types", sum(1 for t in spec["types"] if t["private"]))
    rep.count("declared.std_named_globals", sum(1 for n in spec["globals"] if n in STD_GLOBALS))
    rep.count("declared.same_module_name_pairs", 1 if "main/pkg.lua" in spec["files"] else 0)
    if any(o != outs[0] for o in outs):
        k = next(i for i, o in enumerate(outs) if o != outs[0])
        a, b = outs[0].splitlines(), outs[k].splitlines()
        d = next((i for i, (x, y) in enumerate(zip(a, b)) if x != y), min(len(a), len(b)))
        rep.oracle_failure({"input": inp, "class": "export-not-byte-identical",
                            "what": f"run 0 and run {k} of emmylua_doc_cli differ at line {d}: {a[d:d+1]} vs {b[d:d+1]}"})
    try:
        j = json.loads(outs[0])
    except Exception as e:
        rep.oracle_failure({"input": inp, "class": None, "what": f"export is not JSON: {e}"}); return
    rel = lambda f: os.path.relpath(f, base) if f else ""
    got_types = sorted((t["type"], t["name"], tuple(sorted({rel(l["file"]) for l in t["loc"]}))) for t in j["types"])
    got_globs = [g["name"] for g in j["globals"]]
    got_mods = sorted((m["name"], rel(m.get("file"))) for m in j["modules"])
    want_types, want_globs, want_mods = expected(spec)
    rep.nontrivial(["ws", spec["files"]])
    # ---- oracle: complete, exactly once, main only
    for label, got, want in (("type", got_types, want_types), ("global", sorted(got_globs), want_globs), ("module", got_mods, want_mods)):
        # multiset comparison (a public and a file-private type of one name in one file are two declared types)
        dup = sorted({x for x in got if got.count(x) > max(1, want.count(x))})
        if dup:
            rep.oracle_failure({"input": inp, "class": f"export-{label}-listed-twice", "what": f"{label} listed more often than declared: {dup}"})
        missing = sorted({x for x in want if got.count(x) < want.count(x)})
        extra = [x for x in got if x not in want]
        if missing:
            rep.oracle_failure({"input": inp, "class": f"export-{label}-missing", "what": f"{label} declared in the main workspace but not exported: {missing}"})
        if extra:
            rep.oracle_failure({"input": inp, "class": f"export-{label}-not-from-main", "what": f"{label} exported but not declared in the main workspace (library/std?): {extra}"})
    for g in j["globals"]:
        f = (g.get("loc") or {}).get("file", "")
        if not f.startswith(main):
            rep.oracle_failure({"input": inp, "class": "export-global-loc-outside-main", "what": f"global {g['name']} is located in {f!r}"})
    for m in j["modules"]:
        f = m.get("file") or ""
        if f and not f.startswith(main):
            rep.oracle_failure({"input": inp, "class": "export-module-outside-main", "what": f"module {m['name']} from {f}"})
    # ---- tie: the model's sequences, with the real file ids
    rc, out, err = run_proc([VH, "fileids", main], timeout=120)
    if rc != 0:
        raise RuntimeError(f"vh-tools fileids failed: {err[-300:]}")
    fid = {rel(p): i for p, i in json.loads(out.strip().splitlines()[-1])["files"].items()}
    path_of = {i: p for p, i in fid.items()}
    reqs, allnames = model_requests(spec, rng, fid)
    resp = run_driver(reqs)
    def seq(r):
        if not r.startswith("ok"): return None
        body = r[3:].strip()
        if body in ("", "-"): return []
        out_ = []
        for x in body.split(","):
            parts = x.split("/")
            out_.append((allnames[int(parts[0])],) + tuple(path_of.get(int(parts[1]), "?") if i == 0 else int(v) for i, v in enumerate(parts[1:]) if True) if len(parts) > 1 else (allnames[int(parts[0])],))
        return out_
    m_types, m_globs, m_mods = seq(resp[0]), seq(resp[1]), seq(resp[2])
    i_types = [(t["name"], rel(t["loc"][0]["file"]), t["loc"][0]["line"]) if t["loc"] else (t["name"], "?", 0) for t in j["types"]]
    i_globs = [(g["name"], rel(g["loc"]["file"]), g["loc"]["line"]) for g in j["globals"] if g.get("loc")]
    i_mods = [(m["name"], rel(m.get("file"))) for m in j["modules"]]
    diffs = []
    # hypothesis of C35_types_perm_invariant, checked on this workspace: the sort key is injective
    if len(set(i_types)) != len(i_types):
        diffs.append(f"hypothesis violated: two exported types share the sort key (name, first declaration): {i_types}")
    keys = [(t["name"], min((fid[p], l) for p, l in t["decls"])) for t in spec["types"]]
    if len(set(keys)) != len(keys):
        diffs.append("hypothesis violated: two declared types share (name, first declaration)")
    if m_types != i_types: diffs.append(f"types impl={i_types} model={m_types}")
    if m_globs != i_globs: diffs.append(f"globals impl={i_globs} model={m_globs}")
    if m_mods != i_mods: diffs.append(f"modules impl={i_mods} model={m_mods}")
    if diffs:
        rep.mismatch({"input": inp, "what": "; ".join(diffs), "requests": reqs})
    else:
        rep.traces_validated += 1
    if w < 2:
        rep.sample({"files": sorted(spec["files"]), "types": i_types, "globals": i_globs, "modules": i_mods, "runs": nruns,
                    "bytes": len(outs[0])})


def main():
    a = Args(sys.argv[1:])
    rep = Report()
    rep.rule = ("one evaluation = one fresh-process run of the real emmylua_doc_cli --output-format json on a generated workspace; "
                "distinct = distinct workspaces (file contents); non-trivial = every workspace (each declares types, globals and files)")
    rng = Rng(a.seed)
    if a.replay:
        r = json.load(open(a.replay)); inp = r.get("input") or {}
        if "workspace" in inp:
            run_case(rep, rng, 999, 6, inp["workspace"])
        rep.write(a.out); return
    n, runs = (150, 4) if a.thorough else (12, 3)
    for w in range(n):
        run_case(rep, rng, w, runs)
    rep.write(a.out)


if __name__ == "__main__":
    main()
