#!/usr/bin/env python3
"""C35 runner: generated documentation is complete and reproducible.

Generated workspaces declare classes / enums / aliases / globals / modules, some split across main files, some
in a library root, some in both. The real `emmylua_doc_cli --output-format json` exports each workspace in
several fresh processes (fresh hash seeds).
Oracle (statement evaluated on the implementation): all outputs byte-identical; every class, enum, alias,
global and module declared in the main workspace listed exactly once; nothing declared only in the library
root or the standard library.
Tie: the Lean model (`order.export_types/_globals/_modules`: sort + main filter + one entry per global name)
is fed the workspace's declarations in a shuffled ("hash") order and must give the same name sequences as
the real export.
"""
import os, sys, json
sys.path.insert(0, os.path.dirname(os.path.abspath(__file__)))
from tools_lib import *

NAME_POOL = ["Alpha", "alpha", "Beta", "beta2", "Zeta", "_under", "Mid", "mid_x", "ns.Inner", "ns.Other", "A1", "a1",
             "Gamma", "delta", "Omega", "Kappa", "kap", "Yy", "yy", "N0"]


def gen_workspace(rng, base):
    """returns spec: files, decls = {types: {name: {kind, files:[path]}}, globals: {name: [(path, line)]}, modules: {path: name}}"""
    main_files = [f"main/{n}.lua" for n in rng.shuffle(["a", "b", "c", "sub/d", "sub/e", "deep/x/f", "zz"])[: rng.range(2, 5)]]
    lib_files = ["lib/l1.lua", "lib/pkg/l2.lua"][: rng.range(1, 2)]
    lines = {p: [] for p in main_files + lib_files}
    types, globals_, modules = {}, {}, {}
    names = rng.shuffle(NAME_POOL)
    def decl_type(name, kind, path, partial):
        t = types.setdefault(name, {"kind": kind, "files": []})
        t["files"].append(path)
        L = lines[path]
        ident = "v_" + name.replace(".", "_") + f"_{len(L)}"
        if kind == "class":
            L.append(f"---@class {'(partial) ' if partial else ''}{name}")
            L.append(f"---@field f{len(t['files'])} number")
            L.append(f"local {ident} = {{}}")
        elif kind == "enum":
            L.append(f"---@enum {name}")
            L.append(f"local {ident} = {{ A = 1, B = 2, C = 3 }}")
        else:
            L.append(f"---@alias {name} string|integer")
    # types
    for _ in range(rng.range(2, 6)):
        name = names.pop()
        kind = rng.pick(["class", "class", "enum", "alias"])
        where = rng.below(6)
        if kind == "class" and where == 0 and len(main_files) >= 2:      # partial class split across main files
            for p in rng.shuffle(main_files)[:2]: decl_type(name, kind, p, True)
        elif kind == "class" and where == 1:                              # split between main and library
            decl_type(name, kind, rng.pick(main_files), True); decl_type(name, kind, rng.pick(lib_files), True)
        elif where == 2:                                                  # library only
            decl_type(name, kind, rng.pick(lib_files), False)
        else:
            decl_type(name, kind, rng.pick(main_files), False)
    # globals
    def decl_global(name, path):
        L = lines[path]
        val = rng.pick(["1", "'s'", "true", "{ x = 1 }", "1.5"])
        if rng.chance(1, 5):
            L.append(f"function {name}() end")
        else:
            L.append(f"{name} = {val}")
        globals_.setdefault(name, []).append((path, len(L)))
    for i in range(rng.range(2, 6)):
        name = "G_" + names.pop().replace(".", "_")
        where = rng.below(6)
        if where == 0 and len(main_files) >= 2:
            for p in rng.shuffle(main_files)[:2]: decl_global(name, p)        # assigned in two main files
        elif where == 1:
            p = rng.pick(main_files); decl_global(name, p); decl_global(name, p)   # twice in one file
        elif where == 2:
            decl_global(name, rng.pick(lib_files))                                 # library only
        elif where == 3:
            decl_global(name, rng.pick(lib_files)); decl_global(name, rng.pick(main_files))
        else:
            decl_global(name, rng.pick(main_files))
    # modules: some files return a value
    for p in main_files + lib_files:
        if rng.chance(2, 3):
            if rng.chance(1, 2):
                lines[p].append("return { value = 1 }")
            else:
                lines[p] += ["local M = {}", "function M.run() end", "return M"]
            rel = p.split("/", 1)[1][:-4]
            modules[p] = rel.replace("/", ".")
    files = {p: "\n".join(L) + "\n" for p, L in lines.items()}
    files["main/.emmyrc.json"] = json.dumps({"workspace": {"library": ["../lib"]}})
    write_tree(base, files)
    return {"files": files, "types": types, "globals": {k: [list(x) for x in v] for k, v in globals_.items()}, "modules": modules}


def is_main(p):
    return p.startswith("main/")


def expected(spec):
    types = sorted((t["kind"], n) for n, t in spec["types"].items() if any(is_main(f) for f in t["files"]))
    globs = sorted(n for n, ds in spec["globals"].items() if any(is_main(p) for p, _ in ds))
    mods = sorted(n for p, n in spec["modules"].items() if is_main(p))
    return types, globs, mods


def model_requests(spec, rng):
    paths = sorted(p for p in spec["files"] if p.endswith(".lua"))
    fid = {p: i for i, p in enumerate(paths)}
    mains = ",".join(str(fid[p]) for p in paths if is_main(p)) or "-"
    allnames = sorted(set(spec["types"]) | set(spec["globals"]) | set(spec["modules"].values()), key=lambda s: s.encode())
    rank = {n: i for i, n in enumerate(allnames)}
    kind = {"class": 0, "enum": 1, "alias": 2}
    tl = [f"{rank[n]}:{kind[t['kind']]}:{'.'.join(str(fid[f]) for f in t['files'])}" for n, t in spec["types"].items()]
    tl += [f"{len(allnames) + 1}:5:{fid[paths[0]]}"]                      # a non-exportable kind in the map
    gl = [f"{rank[n]}:{fid[p]}:{line}:1" for n, ds in spec["globals"].items() for p, line in ds]
    ml = [f"{rank[spec['modules'][p]] if p in spec['modules'] else len(allnames) + 2 + i}:{fid[p]}:{1 if p in spec['modules'] else 0}"
          for i, p in enumerate(paths)]
    reqs = [f"order.export_types {mains} {';'.join(rng.shuffle(tl)) or '-'}",
            f"order.export_globals {mains} {';'.join(rng.shuffle(gl)) or '-'}",
            f"order.export_modules {mains} {';'.join(rng.shuffle(ml)) or '-'}"]
    return reqs, allnames


def run_case(rep, rng, w, nruns, spec=None):
    doc = os.path.join(BINS, "emmylua_doc_cli")
    base = workdir(f"C35_ws{w}")
    if spec is None:
        spec = gen_workspace(rng, base)
    else:
        write_tree(base, spec["files"])
    main = os.path.join(base, "main")
    outs = []
    for r in range(nruns):
        rc, out, err = run_proc([doc, main, "--output-format", "json", "--output", "stdout"], cwd=base, timeout=120)
        rep.evaluations += 1
        if rc != 0:
            rep.oracle_failure({"input": {"workspace": spec}, "class": None, "what": f"emmylua_doc_cli exited {rc}: {err[-300:]}"})
            return
        outs.append(out)
    inp = {"workspace": spec}
    rep.count("workspaces"); rep.count("files", len(spec["files"]) - 1)
    rep.count("declared.types", len(spec["types"])); rep.count("declared.globals", len(spec["globals"])); rep.count("declared.modules", len(spec["modules"]))
    if any(o != outs[0] for o in outs):
        k = next(i for i, o in enumerate(outs) if o != outs[0])
        a, b = outs[0].splitlines(), outs[k].splitlines()
        d = next((i for i, (x, y) in enumerate(zip(a, b)) if x != y), min(len(a), len(b)))
        rep.oracle_failure({"input": inp, "class": "export-not-byte-identical",
                            "what": f"run 0 and run {k} of emmylua_doc_cli differ at line {d}: {a[d:d+1]} vs {b[d:d+1]}"})
    try:
        j = json.loads(outs[0])
    except Exception as e:
        rep.oracle_failure({"input": inp, "class": None, "what": f"export is not JSON: {e}"}); return
    got_types = [(t["type"], t["name"]) for t in j["types"]]
    got_globs = [g["name"] for g in j["globals"]]
    got_mods = [m["name"] for m in j["modules"]]
    want_types, want_globs, want_mods = expected(spec)
    rep.nontrivial(["ws", spec["files"]])
    # ---- oracle: complete, exactly once, main only
    for label, got, want in (("type", got_types, want_types), ("global", got_globs, want_globs), ("module", got_mods, want_mods)):
        dup = sorted({x for x in got if got.count(x) > 1})
        if dup:
            rep.oracle_failure({"input": inp, "class": f"export-{label}-listed-twice", "what": f"{label} listed more than once: {dup}"})
        missing = [x for x in want if x not in got]
        extra = [x for x in got if x not in want]
        if missing:
            rep.oracle_failure({"input": inp, "class": f"export-{label}-missing", "what": f"{label} declared in the main workspace but not exported: {missing}"})
        if extra:
            rep.oracle_failure({"input": inp, "class": f"export-{label}-not-from-main", "what": f"{label} exported but not declared in the main workspace (library/std?): {extra}"})
    for t in j["types"]:
        for loc in t["loc"]:
            pass
    for g in j["globals"]:
        f = (g.get("loc") or {}).get("file", "")
        if f and not f.startswith(main):
            rep.oracle_failure({"input": inp, "class": "export-global-loc-outside-main", "what": f"global {g['name']} is located in {f}"})
    for m in j["modules"]:
        f = m.get("file") or ""
        if f and not f.startswith(main):
            rep.oracle_failure({"input": inp, "class": "export-module-outside-main", "what": f"module {m['name']} from {f}"})
    # ---- tie: the model's name sequences
    reqs, allnames = model_requests(spec, rng)
    resp = run_driver(reqs)
    def names_of(r, field=0):
        if not r.startswith("ok"): return None
        body = r[3:].strip()
        if body in ("", "-"): return []
        return [allnames[int(x.split("/")[field])] for x in body.split(",")]
    m_types, m_globs, m_mods = names_of(resp[0]), names_of(resp[1]), names_of(resp[2])
    diffs = []
    if m_types != [n for _, n in got_types]: diffs.append(f"types impl={[n for _, n in got_types]} model={m_types}")
    if m_globs != got_globs: diffs.append(f"globals impl={got_globs} model={m_globs}")
    if m_mods != got_mods: diffs.append(f"modules impl={got_mods} model={m_mods}")
    if diffs:
        rep.mismatch({"input": inp, "what": "; ".join(diffs), "requests": reqs})
    else:
        rep.traces_validated += 1
    if w < 2:
        rep.sample({"files": sorted(spec["files"]), "types": got_types, "globals": got_globs, "modules": got_mods, "runs": nruns,
                    "bytes": len(outs[0])})


def main():
    a = Args(sys.argv[1:])
    rep = Report()
    rep.rule = ("one evaluation = one fresh-process run of the real emmylua_doc_cli --output-format json on a generated workspace; "
                "distinct = distinct workspaces (file contents); non-trivial = every workspace (each declares types, globals and files)")
    rng = Rng(a.seed)
    if a.replay:
        r = json.load(open(a.replay)); inp = r.get("input") or {}
        if "workspace" in inp:
            run_case(rep, rng, 999, 6, inp["workspace"])
        rep.write(a.out); return
    n, runs = (150, 4) if a.thorough else (12, 3)
    for w in range(n):
        run_case(rep, rng, w, runs)
    rep.write(a.out)


if __name__ == "__main__":
    main()
