"""Sessions of C27 / C29 / C30 against the real `emmylua_ls` (hook H4 build), plus the model side through `vdriver`.

Texts carry a marker: the document of notification k is `local v_<k> = <k>`; a file on disk is `local d_<i> = 0`.
The analysed text of a uri is observed with textDocument/documentSymbol (marker of the first symbol), the
published diagnostics with the publishDiagnostics stream (the text `local v_k = undefined_g_k` has exactly
the diagnostics of marker k: the message names `undefined_g_k`)."""
import os, sys, json, time, random, shutil, re

sys.path.insert(0, os.path.dirname(os.path.abspath(__file__)))
from sched_lsp import Server, make_workspace, path_uri, run_driver, ROOT  # noqa: E402


# file names with URI-reserved characters and non-ASCII, and client-side spellings of their uris that differ from the
# server's own `file_path_to_uri` spelling (editors percent-encode `+ ( ) @ , ; = ! '` — VS Code/Neovim style —, some
# use lower-case hex, some leave every legal character raw)
SPECIAL_NAMES = ["c++ init", "vec(2d)", "pkg@2", "a,b;c=d", "it's!", "h#1", "na\u00efve-\u6587", "plain"]
SPELLINGS = ["full", "lower", "minimal"]
_UNRESERVED = set("abcdefghijklmnopqrstuvwxyzABCDEFGHIJKLMNOPQRSTUVWXYZ0123456789-._~/")


def spell_uri(path, mode):
    out = []
    for ch in path:
        if ch in _UNRESERVED or (mode == "minimal" and ch in "+()@,;=!'"):
            out.append(ch)
        else:
            hx = "".join("%%%02X" % b for b in ch.encode("utf-8"))
            out.append(hx.lower() if mode == "lower" else hx)
    return "file://" + "".join(out)


def special_name(r, i):
    return SPECIAL_NAMES[(r * 3 + i) % len(SPECIAL_NAMES)]


def text_of(k, diag=False):
    return f"local v_{k} = undefined_g_{k}\n" if diag else f"local v_{k} = {k}\n"


def disk_text(i):
    return f"local d_{i} = 0\n"


def observe_marker(srv, uri, timeout=30.0):
    """('v', k) / ('d', i) / None (not analysed) / 'timeout'"""
    r = srv.request("textDocument/documentSymbol", {"textDocument": {"uri": uri}}, timeout)
    if r is None:
        return "timeout"
    res = r.get("result")
    if not res:
        return None
    name = res[0].get("name", "")
    m = re.match(r"([vd])_(\d+)$", name)
    return (m.group(1), int(m.group(2))) if m else ("?", name)


def notif_msg(n, uris, version):
    k, u = n["k"], uris[n["u"]]
    version = n.get("v", version)
    if k == "o":
        return {"jsonrpc": "2.0", "method": "textDocument/didOpen", "params": {"textDocument": {
            "uri": u, "languageId": "lua", "version": version, "text": n["text"]}}}
    if k == "c":
        return {"jsonrpc": "2.0", "method": "textDocument/didChange", "params": {"textDocument": {"uri": u, "version": version},
                "contentChanges": [{"text": n["text"]}]}}
    if k == "x":
        return {"jsonrpc": "2.0", "method": "textDocument/didClose", "params": {"textDocument": {"uri": u}}}
    if k == "s":
        return {"jsonrpc": "2.0", "method": "textDocument/didSave", "params": {"textDocument": {"uri": u}}}
    raise ValueError(k)


def enc_notifs(ns):
    out = []
    for n in ns:
        if n["k"] in ("o", "c"):
            out.append(f"{n['k']}{n['u']}:{n['t']}")
        else:
            out.append(f"{n['k']}{n['u']}")
    return ",".join(out) or "-"


def expected_last_writer(ns, ndisk, nuris):
    """the property's own statement, computed directly: per uri the last open/change/close in message order"""
    exp = {}
    for u in range(nuris):
        last = None
        for n in ns:
            if n["u"] == u and n["k"] in ("o", "c", "x"):
                last = n
        if last is None or last["k"] == "x":
            exp[u] = ("d", u) if u < ndisk else None
        else:
            exp[u] = ("v", last["t"])
    return exp


def assign_versions(rng, ns, mode):
    """LSP document versions. `session`: what editors send — 1 at every didOpen (also after close + reopen), +1 (sometimes
    a gap) per didChange; `low-reopen`: like `session` but a reopen starts below the previous session's last version at an
    arbitrary number; `equal`: every notification carries the same version; `global`: one counter over the burst;
    `malformed`: arbitrary numbers that also go down within an open session."""
    cur = {}
    g = 0
    for x in ns:
        if x["k"] not in ("o", "c"):
            continue
        u = x["u"]
        g += 1
        if mode == "canonical":
            cur[u] = 1 if x["k"] == "o" else cur.get(u, 0) + 1
        elif mode == "session":
            cur[u] = 1 if x["k"] == "o" else cur.get(u, 0) + rng.choice([1, 1, 1, 2, 5])
        elif mode == "low-reopen":
            cur[u] = rng.randrange(0, 3) if x["k"] == "o" else cur.get(u, 0) + 1
        elif mode == "equal":
            cur[u] = 7
        elif mode == "global":
            cur[u] = g
        else:
            cur[u] = rng.randrange(-3, 12)
        x["v"] = cur[u]
    return ns


VERSION_MODES = ["session", "session", "session", "low-reopen", "equal", "global", "malformed"]


def gen_sessions_burst(rng, nuris):
    """open → changes → close → reopen → changes for one or two documents (on disk and editor-only), interleaved"""
    docs = rng.sample(range(nuris), rng.choice([1, 2, 2]))
    streams = []
    for u in docs:
        st = [{"k": "o", "u": u}] + [{"k": "c", "u": u} for _ in range(rng.randrange(1, 5))] + [{"k": "x", "u": u}]
        st += [{"k": "o", "u": u}] + [{"k": "c", "u": u} for _ in range(rng.randrange(0, 3))]
        if rng.random() < 0.25:
            st += [{"k": "x", "u": u}]
            if rng.random() < 0.5:
                st += [{"k": "o", "u": u}, {"k": "c", "u": u}]
        streams.append(st)
    ns = []
    while any(streams):
        st = rng.choice([x for x in streams if x])
        ns.append(st.pop(0))
    return ns


def canonical_burst(which, counter):
    """fixed bursts sent first in every session: open v1, change v2..v4, close, reopen v1, change v2 — for an on-disk
    document (0), an editor-only document (2), and both interleaved"""
    def stream(u):
        return [{"k": "o", "u": u}, {"k": "c", "u": u}, {"k": "c", "u": u}, {"k": "c", "u": u}, {"k": "x", "u": u},
                {"k": "o", "u": u}, {"k": "c", "u": u}]
    if which == 0:
        ns = stream(0)
    elif which == 1:
        ns = stream(2)
    else:
        a, b = stream(1), stream(3)
        ns = [x for pair in zip(a, b) for x in pair]
    for x in ns:
        if x["k"] in ("o", "c"):
            counter[0] += 1
            x["t"] = counter[0]
    assign_versions(None, ns, "canonical")
    for x in ns:
        x["vmode"] = "session"
    return ns


def gen_burst(rng, nuris, counter, long=False):
    n = rng.randrange(2, 12 if long else 8)
    ns = []
    shape = rng.random()
    reopen_shape = shape < 0.35
    if reopen_shape:
        ns = gen_sessions_burst(rng, nuris)
    elif shape < 0.55:   # the canonical race: open immediately followed by changes
        u = rng.randrange(nuris)
        ns.append({"k": "o", "u": u})
        for _ in range(rng.randrange(1, 4)):
            ns.append({"k": "c", "u": u})
        if rng.random() < 0.4:
            ns.append({"k": "x", "u": u})
            if rng.random() < 0.5:
                ns.append({"k": "o", "u": u})
    else:
        for _ in range(n):
            ns.append({"k": rng.choice("oocccxxs"), "u": rng.randrange(nuris)})
    for x in ns:
        if x["k"] in ("o", "c"):
            counter[0] += 1
            x["t"] = counter[0]
    mode = rng.choice(["session", "session", "session", "low-reopen"] if reopen_shape and rng.random() < 0.8 else VERSION_MODES)
    assign_versions(rng, ns, mode)
    for x in ns:
        x["vmode"] = mode
    return ns


# ------------------------------------------------------------------------------------------------ C27
def c27_session(rep, seed, sched_seed, bursts, long=False):
    rng = random.Random(seed * 1000003 + (sched_seed or 0))
    NDISK, NURIS = 2, 4
    files = {}
    fname = lambda b, i: f"b{b}_{special_name(b, i)}_f{i}.lua"
    for b in range(bursts):
        for i in range(NDISK):
            files[fname(b, i)] = disk_text(i)
    ws = make_workspace(files, emmyrc={"diagnostics": {"diagnosticInterval": 50}})
    srv = Server(ws, sched_seed=sched_seed, sched_max_ms=3)
    desc0 = {"kind": "session", "prop": "C27", "seed": seed, "sched_seed": sched_seed, "bursts": bursts}
    counter = [0]
    cases = []
    try:
        if srv.initialize() is None or not srv.wait_ready():
            rep.mismatch({"what": "server did not initialise", "input": desc0})
            return
        for b in range(bursts):
            uris = [spell_uri(os.path.join(ws, fname(b, i)), SPELLINGS[(b + i) % 3]) for i in range(NURIS)]
            rep.count("uri_spelling_" + SPELLINGS[b % 3])
            ns = canonical_burst(b, counter) if b < 3 else gen_burst(rng, NURIS, counter, long)
            for x in ns:
                if "t" in x:
                    x["text"] = text_of(x["t"])
            srv.send_many([notif_msg(x, uris, i + 1) for i, x in enumerate(ns)])
            # the probe request is taken by the main loop after the burst; spawned work may still be running
            srv.request("workspace/symbol", {"query": "zz_probe"}, 30.0)
            time.sleep(0.25)
            obs = {u: observe_marker(srv, uris[u]) for u in range(NURIS)}
            cases.append((b, ns, obs))
    finally:
        srv.close()
        shutil.rmtree(ws, ignore_errors=True)
    # model: sequential specification through the driver
    disk = ",".join(f"{i}={900 + i}" for i in range(NDISK))
    us = ",".join(str(u) for u in range(NURIS))
    outs = run_driver([f"sched.spec {disk} {us} {enc_notifs(ns)}" for _, ns, _ in cases])
    for (b, ns, obs), out in zip(cases, outs):
        rep.d["evaluations"] += 1
        desc = dict(desc0, burst=b, notifications=[{k: v for k, v in x.items() if k != "text"} for x in ns])
        exp = expected_last_writer(ns, NDISK, NURIS)
        # model prediction
        model = {}
        if out.startswith("ok "):
            for u, pair in enumerate(out[3:].split(",")):
                an = pair.split("/")[1]
                model[u] = None if an == "none" else (("d", int(an) - 900) if int(an) >= 900 else ("v", int(an)))
        else:
            rep.mismatch({"what": "driver error", "out": out, "input": desc})
            continue
        kinds = "".join(x["k"] for x in ns)
        rep.count("burst_len_%d" % min(len(ns), 12))
        rep.count("versions_" + (ns[0].get("vmode", "none") if ns else "none"))
        for u in range(len(exp)):
            ku = "".join(x["k"] for x in ns if x["u"] == u)
            if "xo" in ku:
                rep.count("close_then_reopen")
                vs = [x.get("v") for x in ns if x["u"] == u and "v" in x]
                if any(b <= a for a, b in zip(vs, vs[1:])):
                    rep.count("reopen_with_lower_or_equal_version")
        if "oc" in kinds:
            rep.count("open_then_change")
        if "x" in kinds:
            rep.count("with_close")
        for u in range(len(exp)):
            if obs[u] != model[u]:
                rep.mismatch({"what": f"uri {u}: analysed text observed {obs[u]} but the model's specification says {model[u]}",
                              "input": desc, "observed": str(obs), "model": out})
            if obs[u] != exp[u]:
                first = next((x for x in ns if x["u"] == u), None)
                cls = "open-then-change" if any(a["k"] == "o" and bb["k"] == "c" and a["u"] == bb["u"] == u for a, bb in zip(ns, ns[1:])) else "stale-document"
                rep.oracle_failure({"class": cls, "what": f"uri {u}: analysed with {obs[u]} after the burst {enc_notifs(ns)}; last notification in message order gives {exp[u]}",
                                    "input": desc})
        rep.sample({"burst": enc_notifs(ns), "versions": [x.get("v") for x in ns if "v" in x], "version_mode": ns[0].get("vmode") if ns else None,
                    "observed": {str(k): str(v) for k, v in obs.items()}})
        rep.d["_distinct"].add(enc_notifs([dict(x, t=0) for x in ns]) + "|" + (ns[0].get("vmode", "") if ns else ""))


def c27_model_search(rep, thorough):
    """exhaustive model exploration: every schedule of small notification lists under the REAL dispatch must end
    in the sequential result (agreement of the executable model with the theorem); if the real dispatch spawns a
    document notification the exploration yields the counter-schedule (a concrete failing input)."""
    lists = []
    alpha = ["o0:1", "c0:2", "x0", "s0", "o1:3", "c1:4"]
    import itertools
    maxlen = 4 if thorough else 3
    for L in range(1, maxlen + 1):
        for c in itertools.product(alpha, repeat=L):
            lists.append(",".join(c))
    if not thorough:
        lists = lists[::3]
    reqs = [f"sched.explore real 0=900 0,1 {l} 2000000" for l in lists]
    outs = run_driver(reqs)
    total = 0
    for l, o in zip(lists, outs):
        rep.d["evaluations"] += 1
        if o.startswith("ok all-equal"):
            total += int(o.split("schedules=")[1])
        elif o.startswith("ok counter"):
            rep.oracle_failure({"class": "spawned-document-notification",
                                "what": f"model of the extracted dispatch: notifications {l} can end in a state different from message order: {o}",
                                "input": {"kind": "schedule", "prop": "C27", "notifications": l, "result": o}})
            break
        else:
            rep.count("explore_fuel_exhausted")
    rep.count("model_lists_explored", len(lists))
    rep.count("model_schedules_explored", total)
    return len(lists)


def run_c27(a, rep):
    thorough = a["tier"] == "thorough"
    rep.d["rule"] = ("a case = one notification burst (2–25 didOpen/didChange/didClose/didSave over 2 on-disk and 2 not-on-disk "
                     "documents, incl. open→changes→close→reopen→changes streams of one or two interleaved documents; LSP versions as "
                     "editors send them (restart at 1 on reopen), low/equal/global/malformed) sent back to back to the real server, analysed text of every document observed afterwards via "
                     "documentSymbol; or one notification list whose schedules are all explored in the model. distinct non-trivial "
                     "= distinct burst shapes (kinds+uris) with at least two notifications + explored lists")
    rep.d["_distinct"] = set()
    if a["replay"]:
        rp = json.load(open(a["replay"]))
        inp = rp.get("input") or {}
        if inp.get("kind") == "schedule":
            out = run_driver([f"sched.explore real 0=900 0,1 {inp['notifications']} 2000000"])[0]
            rep.d["evaluations"] += 1
            if out.startswith("ok counter"):
                rep.oracle_failure({"class": "spawned-document-notification", "what": "replay: " + out, "input": inp})
            rep.d["notes"].append("replay: " + out)
        else:
            c27_session(rep, inp.get("seed", 1), inp.get("sched_seed"), inp.get("bursts", 8))
    else:
        sessions = [(None, 10), (a["seed"] * 10 + 1, 10)] if not thorough else \
            [(None, 25)] + [(a["seed"] * 10 + i, 25) for i in range(1, 6)]
        for ss, nb in sessions:
            c27_session(rep, a["seed"], ss, nb, thorough)
            rep.count("sessions")
        nl = c27_model_search(rep, thorough)
        rep.d["distinct_nontrivial"] = len(rep.d["_distinct"]) + nl
    del rep.d["_distinct"]
    rep.d["notes"].append("modelled: main loop order, inline vs spawned dispatch, the lock-protected sections of didOpen/didChange/didClose; "
                          "not exhibited: tokio's scheduler (the seeded H4 scheduling points only perturb it)")


def run(a, rep):
    if a["prop"] == "C27":
        run_c27(a, rep)
    elif a["prop"] == "C29":
        import sched_c29
        sched_c29.run(a, rep)
    elif a["prop"] == "C30":
        import sched_c30
        sched_c30.run(a, rep)
    else:
        raise SystemExit("unknown property " + str(a["prop"]))
