"""Shared runner library of the determinism/tools cluster (python runners with the vh_common::Report contract)."""
import os, sys, json, subprocess, shutil, tempfile, hashlib

ROOT = os.path.dirname(os.path.dirname(os.path.dirname(os.path.abspath(__file__))))
BINS = os.environ.get("VERIF_TOOLS_BINS", os.path.join(ROOT, "harness", "target-bins", "debug"))   # override: scratch builds of seeded trees
VH = os.environ.get("VERIF_TOOLS_VH", os.path.join(ROOT, "harness", "target", "debug", "vh-tools"))   # override: helper built against a seeded scratch tree
VDRIVER = os.environ.get("VDRIVER", os.path.join(ROOT, "lean", ".lake", "build", "bin", "vdriver"))
M64 = (1 << 64) - 1


class Rng:
    """SplitMix64, same stream as vh_common::Rng; every random choice derives from --seed"""
    def __init__(self, seed):
        self.s = ((seed * 0x9E3779B97F4A7C15) & M64) ^ 0xD1B54A32D192ED03
    def next(self):
        self.s = (self.s + 0x9E3779B97F4A7C15) & M64
        z = self.s
        z = ((z ^ (z >> 30)) * 0xBF58476D1CE4E5B9) & M64
        z = ((z ^ (z >> 27)) * 0x94D049BB133111EB) & M64
        return z ^ (z >> 31)
    def below(self, n):
        return 0 if n == 0 else self.next() % n
    def range(self, lo, hi):
        return lo + self.below(hi - lo + 1)
    def chance(self, num, den):
        return self.below(den) < num
    def pick(self, xs):
        return xs[self.below(len(xs))]
    def shuffle(self, xs):
        xs = list(xs)
        for i in range(len(xs) - 1, 0, -1):
            j = self.below(i + 1)
            xs[i], xs[j] = xs[j], xs[i]
        return xs
    def fork(self):
        r = Rng(0); r.s = self.next(); return r


class Args:
    def __init__(self, argv):
        self.prop, self.tier, self.seed, self.out, self.replay = "", "quick", 1, "/dev/stdout", None
        i = 0
        while i < len(argv):
            a = argv[i]
            if a == "--tier": self.tier = argv[i + 1]; i += 2
            elif a == "--seed": self.seed = int(argv[i + 1]); i += 2
            elif a == "--out": self.out = argv[i + 1]; i += 2
            elif a == "--replay": self.replay = argv[i + 1]; i += 2
            elif a.startswith("--"): i += 2
            else: self.prop = a; i += 1
    @property
    def thorough(self):
        return self.tier == "thorough"


class Report:
    def __init__(self):
        self.evaluations = 0
        self.distinct = set()
        self.rule = ""
        self.samples, self.mismatches, self.oracle_failures, self.notes = [], [], [], []
        self.distribution = {}
        self.traces_validated = 0
        self.extra = {}
    def count(self, key, n=1):
        self.distribution[key] = self.distribution.get(key, 0) + n
    def sample(self, v):
        if len(self.samples) < 5: self.samples.append(v)
    def nontrivial(self, canon):
        self.distinct.add(hashlib.sha1(json.dumps(canon, sort_keys=True).encode()).hexdigest())
    def mismatch(self, v):
        if len(self.mismatches) < 20: self.mismatches.append(v)
        self.count("mismatches_total")
    def oracle_failure(self, v):
        if len(self.oracle_failures) < 50: self.oracle_failures.append(v)
        self.count("oracle_failures_total")
    def write(self, path):
        v = {"evaluations": self.evaluations, "distinct_nontrivial": len(self.distinct), "rule": self.rule,
             "samples": self.samples, "mismatches": self.mismatches, "oracle_failures": self.oracle_failures,
             "distribution": self.distribution, "notes": self.notes,
             "traces_validated_against_impl": self.traces_validated, "extra": self.extra}
        s = json.dumps(v, indent=1, ensure_ascii=False)
        if path == "/dev/stdout": print(s)
        else: open(path, "w").write(s)


_PRIVATE = [None]


def private_driver():
    """a private copy of vdriver taken once per run (other agents' checks re-link the shared binary concurrently)"""
    import time
    if _PRIVATE[0] and os.path.exists(_PRIVATE[0]):
        return _PRIVATE[0]
    os.makedirs(os.path.join(ROOT, ".work"), exist_ok=True)
    dst = os.path.join(ROOT, ".work", f"vdriver.{os.getpid()}")
    for attempt in range(120):
        try:
            shutil.copy2(VDRIVER, dst)
            p = subprocess.run([dst], input="exit.allows none n\n", stdout=subprocess.PIPE, stderr=subprocess.PIPE, text=True, timeout=60)
            if p.returncode == 0 and p.stdout.strip() != "":
                _PRIVATE[0] = dst
                import atexit
                atexit.register(lambda: os.path.exists(dst) and os.remove(dst))
                return dst
        except (OSError, subprocess.SubprocessError):
            pass
        time.sleep(1.0)
    raise RuntimeError("model driver (vdriver) not available")


def run_driver(requests):
    """batch of request lines -> one response line each (the compiled Lean model)"""
    if not requests:
        return []
    p = subprocess.run([private_driver()], input="".join(r + "\n" for r in requests), stdout=subprocess.PIPE,
                       stderr=subprocess.PIPE, text=True, timeout=600)
    lines = p.stdout.splitlines()
    if len(lines) != len(requests):
        raise RuntimeError(f"driver answered {len(lines)} lines for {len(requests)} requests: {p.stderr[-300:]}")
    return lines


def run_proc(cmd, cwd=None, timeout=120, env=None):
    e = dict(os.environ)
    e.pop("RUST_LOG", None)
    if env: e.update(env)
    p = subprocess.run(cmd, cwd=cwd, stdout=subprocess.PIPE, stderr=subprocess.PIPE, timeout=timeout, env=e)
    return p.returncode, p.stdout.decode("utf-8", "replace"), p.stderr.decode("utf-8", "replace")


def workdir(name):
    d = os.path.join(ROOT, ".work", name)
    shutil.rmtree(d, ignore_errors=True)
    os.makedirs(d)
    return d


def write_tree(base, files):
    """files: {relative path: text}; the placeholder @BASE@ in a text stands for the absolute path of `base`
    (library roots must be configured as normalised absolute paths: a `../lib` entry is registered un-normalised
    and then matches no file, which silently turns the library files into unowned files of the main context)"""
    for rel, text in files.items():
        text = text.replace("@BASE@", os.path.abspath(base))
        p = os.path.join(base, rel)
        os.makedirs(os.path.dirname(p), exist_ok=True)
        with open(p, "w", encoding="utf-8", newline="") as f:
            f.write(text)
