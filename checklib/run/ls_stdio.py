#!/usr/bin/env python3
"""C24 runner: drives the real `emmylua_ls` binary over stdio with generated sessions.

  ls_stdio.py C24 --tier quick|thorough --seed N --out FILE [--replay FILE]

For every session
  * oracle (implementation side, independent of the model): after quiescence every request id that was
    sent while the server process had not been told to leave has exactly one response; no response carries
    an id that was never sent; unless the session ends it, the server still answers a final probe;
  * tie: the multiset (id, response kind) is compared with the Lean model (`vdriver`, op `proto.run`) run on
    the same abstract session; handler outcomes (slow/cancelled) and the point where the initialization task
    completes are not controllable from outside — they are taken from the observation when the model admits
    them (existential over the model's environment choices), everything else must agree exactly.
The in-process part (task wrapper with forced panics / slow handlers: `vh-ls C24`) is run as a child and its
report merged.
"""
import sys, os, json, subprocess, threading, time, tempfile, shutil, random
from concurrent.futures import ThreadPoolExecutor

ROOT = os.path.dirname(os.path.dirname(os.path.dirname(os.path.abspath(__file__))))
BIN = os.path.join(ROOT, "harness", "target-bins", "emmylua_ls-plain")
VDRIVER = os.environ.get("VDRIVER", os.path.join(ROOT, "lean", ".lake", "build", "bin", "vdriver"))
VH_LS = os.path.join(ROOT, "harness", "target", "debug", "vh-ls")

CODES = {-32601: "methodNotFound", -32602: "invalidParams", -32603: "internalError", -32800: "requestCanceled",
         -32002: "serverNotInitialized", -32600: "invalidRequest"}

LUA_TEXT = """---@class Animal
---@field name string
local Animal = {}

---@param n string
---@return Animal
function Animal.new(n)
  local self = { name = n }
  return self
end

local a = Animal.new("x")
print(a.name, #"é😀")
for i = 1, 3 do local c = i * 2 end
"""


def hexs(s):
    b = s.encode()
    return b.hex() if b else "-"


# ------------------------------------------------------------------ valid params per registered method
def valid_params(method, uri, rng):
    td = {"textDocument": {"uri": uri}}
    pos = {"line": rng.randrange(0, 16), "character": rng.randrange(0, 12)}
    p2 = {"line": pos["line"] + rng.randrange(0, 3), "character": rng.randrange(0, 12)}
    R = {"start": pos, "end": p2 if (p2["line"], p2["character"]) >= (pos["line"], pos["character"]) else pos}
    opts = {"tabSize": 4, "insertSpaces": True}
    item = {"name": "f", "kind": 12, "uri": uri, "range": R, "selectionRange": R}
    table = {
        "textDocument/hover": {**td, "position": pos},
        "textDocument/documentSymbol": td,
        "textDocument/foldingRange": td,
        "textDocument/documentColor": td,
        "textDocument/colorPresentation": {**td, "color": {"red": 1, "green": 0.5, "blue": 0, "alpha": 1}, "range": R},
        "textDocument/documentLink": td,
        "documentLink/resolve": {"range": R},
        "emmy/annotator": {"uri": uri},
        "emmy/gutter": {"uri": uri},
        "emmy/gutter/detail": {"data": "x"},
        "emmy/syntaxTree": {"uri": uri},
        "textDocument/selectionRange": {**td, "positions": [pos]},
        "textDocument/completion": {**td, "position": pos},
        "completionItem/resolve": {"label": "x"},
        "textDocument/inlayHint": {**td, "range": R},
        "inlayHint/resolve": {"position": pos, "label": "x"},
        "textDocument/definition": {**td, "position": pos},
        "textDocument/implementation": {**td, "position": pos},
        "textDocument/references": {**td, "position": pos, "context": {"includeDeclaration": True}},
        "textDocument/rename": {**td, "position": pos, "newName": "zz"},
        "textDocument/prepareRename": {**td, "position": pos},
        "textDocument/codeLens": td,
        "codeLens/resolve": {"range": R},
        "textDocument/signatureHelp": {**td, "position": pos},
        "textDocument/documentHighlight": {**td, "position": pos},
        "textDocument/semanticTokens/full": td,
        "workspace/executeCommand": {"command": "verif.unknown", "arguments": []},
        "textDocument/codeAction": {**td, "range": R, "context": {"diagnostics": []}},
        "textDocument/inlineValue": {**td, "range": R, "context": {"frameId": 1, "stoppedLocation": R}},
        "workspace/symbol": {"query": "Ani"},
        "textDocument/formatting": {**td, "options": opts},
        "textDocument/rangeFormatting": {**td, "range": R, "options": opts},
        "textDocument/onTypeFormatting": {**td, "position": pos, "ch": "\n", "options": opts},
        "textDocument/prepareCallHierarchy": {**td, "position": pos},
        "callHierarchy/incomingCalls": {"item": item},
        "callHierarchy/outgoingCalls": {"item": item},
        "textDocument/diagnostic": td,
        "workspace/diagnostic": {"previousResultIds": []},
    }
    return table[method]


NOTIFS_OK = {
    "textDocument/didSave": lambda uri: {"textDocument": {"uri": uri}},
    "$/setTrace": lambda uri: {"value": "off"},
    "workspace/didChangeWatchedFiles": lambda uri: {"changes": []},
    "textDocument/didChange": lambda uri: {"textDocument": {"uri": uri, "version": 2},
                                           "contentChanges": [{"text": LUA_TEXT + "\nlocal zz = 1\n"}]},
}
UNKNOWN_METHODS = ["foo/bar", "textDocument/hoverX", "$/unknown", "workspace/applyEdit", "textDocument/declaration", ""]
BAD_PARAMS = ["bad", 17, [1, 2], True, {"textDocument": 5}, {"position": "bad"}, {}]


def gen_session(rng, methods, long=False):
    """abstract session: list of dicts. kinds: req, notif, resp, wait_init, sleep"""
    ev = []
    nid = [1]

    def fresh():
        nid[0] += 1
        return nid[0]

    def rand_request(allow_shutdown=False):
        r = rng.random()
        i = fresh()
        if r < 0.5:
            return {"k": "req", "id": i, "method": rng.choice(methods), "p": "ok"}
        if r < 0.8:
            v = rng.choice(["wrong", "absent", "null"])
            return {"k": "req", "id": i, "method": rng.choice(methods), "p": v}
        return {"k": "req", "id": i, "method": rng.choice(UNKNOWN_METHODS), "p": rng.choice(["ok", "wrong", "absent"])}

    def rand_notif(ids):
        r = rng.random()
        if r < 0.45 and ids:
            which = rng.random()
            tgt = rng.choice(ids) if which < 0.8 else nid[0] + rng.randrange(1, 50)
            return {"k": "notif", "method": "$/cancelRequest", "p": "ok", "target": tgt}
        if r < 0.55:
            return {"k": "notif", "method": "$/cancelRequest", "p": rng.choice(["wrong", "absent"]), "target": 0}
        if r < 0.75:
            return {"k": "notif", "method": rng.choice(list(NOTIFS_OK)), "p": rng.choice(["ok", "ok", "wrong", "absent"]), "target": 0}
        if r < 0.9:
            return {"k": "notif", "method": rng.choice(["foo/note", "$/progress", "textDocument/willSave"]), "p": "ok", "target": 0}
        return {"k": "resp"}

    # --- before initialize
    for _ in range(rng.choice([0, 0, 1, 2, 3])):
        r = rng.random()
        if r < 0.5:
            ev.append(rand_request())
        elif r < 0.75:
            ev.append({"k": "req", "id": fresh(), "method": "initialize", "p": rng.choice(["wrong", "badcaps", "absent"])})
        else:
            ev.append({"k": "notif", "method": rng.choice(["initialized", "foo/note", "textDocument/didSave"]), "p": "ok", "target": 0})
    shape = rng.random()
    if shape < 0.04:   # the process is told to leave before initialize
        ev.append(rng.choice([{"k": "notif", "method": "exit", "p": "ok", "target": 0}, {"k": "resp"}]))
        ev.append(rand_request())
        return ev
    ev.append({"k": "req", "id": 1, "method": "initialize", "p": "ok"})
    ev.append({"k": "await", "id": 1})      # the client waits for the initialize result (protocol)
    if shape < 0.08:   # handshake violation: something else than `initialized`
        ev.append(rand_request())
        ev.append(rand_request())
        return ev
    ev.append({"k": "notif", "method": "initialized", "p": "ok", "target": 0})
    # --- while the initialization task runs (queued)
    ids = []
    for _ in range(rng.choice([0, 1, 2, 3, 5])):
        if rng.random() < 0.6:
            q = rand_request()
            ids.append(q["id"])
            ev.append(q)
            if rng.random() < 0.5:   # cancel a request that is still queued behind the initialization task
                ev.append({"k": "notif", "method": "$/cancelRequest", "p": "ok", "target": q["id"]})
        else:
            ev.append(rand_notif(ids))
    if shape < 0.13 and ids:  # shutdown while queued
        ev.append({"k": "req", "id": fresh(), "method": "shutdown", "p": "absent"})
        ev.append(rand_request())
        ev.append({"k": "notif", "method": "exit", "p": "ok", "target": 0})
        return ev
    probe = fresh()
    ev.append({"k": "req", "id": probe, "method": "textDocument/hover", "p": "ok"})
    ev.append({"k": "await", "id": probe})   # its response shows the initialization task is over
    ev.append({"k": "open"})
    n = rng.randrange(20, 40) if not long else rng.randrange(60, 120)
    for _ in range(n):
        r = rng.random()
        if r < 0.03:     # a second `initialize` while running is just an unknown method
            q = {"k": "req", "id": fresh(), "method": "initialize", "p": rng.choice(["ok", "wrong"])}
            ids.append(q["id"])
            ev.append(q)
        elif r < 0.62:
            q = rand_request()
            ids.append(q["id"])
            ev.append(q)
            if rng.random() < 0.25:   # cancel right behind the request
                ev.append({"k": "notif", "method": "$/cancelRequest", "p": "ok", "target": q["id"]})
        elif r < 0.95:
            ev.append(rand_notif(ids))
        else:
            ev.append({"k": "sleep", "ms": rng.choice([5, 20, 50])})
    end = rng.random()
    if end < 0.35:
        ev.append({"k": "req", "id": fresh(), "method": "shutdown", "p": rng.choice(["absent", "null", "wrong"])})
        for _ in range(rng.randrange(0, 4)):
            ev.append(rand_request() if rng.random() < 0.7 else rand_notif(ids))
        if rng.random() < 0.8:
            ev.append({"k": "notif", "method": "exit", "p": "ok", "target": 0})
            if rng.random() < 0.5:
                ev.append(rand_request())
    elif end < 0.45:
        ev.append({"k": "notif", "method": "exit", "p": "ok", "target": 0})  # exit without shutdown: ignored
        ev.append(rand_request())
    return ev


# ------------------------------------------------------------------ the client
class Client:
    def __init__(self, cwd, reply_delay=0.0):
        self.reply_delay = reply_delay
        env = dict(os.environ, RUST_BACKTRACE="0")
        self.p = subprocess.Popen([BIN], stdin=subprocess.PIPE, stdout=subprocess.PIPE, stderr=subprocess.DEVNULL, cwd=cwd, env=env)
        self.lock = threading.Lock()
        self.responses = []   # (id, kind)
        self.server_requests = 0
        self.notifications = 0
        self.last_rx = time.time()
        self.eof = False
        self.cv = threading.Condition()
        self.th = threading.Thread(target=self._reader, daemon=True)
        self.th.start()

    def _reader(self):
        f = self.p.stdout
        try:
            while True:
                n = None
                while True:
                    line = f.readline()
                    if not line:
                        raise EOFError
                    line = line.strip()
                    if not line:
                        break
                    k, v = line.split(b":", 1)
                    if k.lower() == b"content-length":
                        n = int(v.strip())
                body = f.read(n)
                m = json.loads(body)
                with self.cv:
                    self.last_rx = time.time()
                    if "method" in m and "id" in m:
                        self.server_requests += 1
                        reply = {"jsonrpc": "2.0", "id": m["id"], "result": [None] if m.get("method") == "workspace/configuration" else None}
                        if self.reply_delay > 0:
                            threading.Timer(self.reply_delay, self._send_raw, args=(reply,)).start()
                        else:
                            self._send_raw(reply)
                    elif "method" in m:
                        self.notifications += 1
                    else:
                        kind = "result" if "error" not in m else CODES.get(m["error"].get("code"), "error%s" % m["error"].get("code"))
                        self.responses.append((m.get("id"), kind))
                    self.cv.notify_all()
        except Exception:
            with self.cv:
                self.eof = True
                self.cv.notify_all()

    def _send_raw(self, m):
        b = json.dumps(m).encode()
        try:
            with self.lock:
                self.p.stdin.write(b"Content-Length: %d\r\n\r\n" % len(b) + b)
                self.p.stdin.flush()
            return True
        except Exception:
            return False

    def send(self, m):
        return self._send_raw(m)

    def wait_response(self, rid, timeout):
        end = time.time() + timeout
        with self.cv:
            while not any(i == rid for i, _ in self.responses):
                left = end - time.time()
                if left <= 0 or self.eof:
                    return any(i == rid for i, _ in self.responses)
                self.cv.wait(left)
        return True

    def quiesce(self, expected, timeout, settle):
        """wait until every expected id has a response (or timeout / EOF), then `settle` seconds without traffic"""
        end = time.time() + timeout
        with self.cv:
            while time.time() < end and not self.eof:
                got = {i for i, _ in self.responses}
                if expected <= got:
                    break
                self.cv.wait(0.05)
            end2 = time.time() + max(settle * 6, 3.0)
            while time.time() < end2 and not self.eof:
                if time.time() - self.last_rx >= settle:
                    break
                self.cv.wait(0.05)

    def close(self):
        try:
            self.p.stdin.close()
        except Exception:
            pass
        try:
            self.p.wait(timeout=5)
        except Exception:
            self.p.kill()
            self.p.wait()
        return self.p.returncode


def concrete(ev, uri, ws_uri, rng, slow_client=False):
    """abstract event -> JSON-RPC message (dict) or None"""
    k = ev["k"]
    if k == "req":
        m = {"jsonrpc": "2.0", "id": ev["id"], "method": ev["method"]}
        meth, p = ev["method"], ev["p"]
        if meth == "initialize":
            if p == "ok":
                caps = {"workspace": {"configuration": True}} if slow_client else {}
                m["params"] = {"processId": None, "rootUri": ws_uri, "capabilities": caps,
                               "workspaceFolders": [{"uri": ws_uri, "name": "ws"}]}
            elif p == "badcaps":
                m["params"] = {"processId": None, "rootUri": ws_uri, "capabilities": "bad"}
            elif p == "wrong":
                m["params"] = "bad"
            return m
        if p == "ok":
            if meth in ev.get("_methods", ()):
                m["params"] = valid_params(meth, uri, rng)
            else:
                m["params"] = {}
        elif p == "wrong":
            m["params"] = rng.choice(BAD_PARAMS)
        elif p == "null":
            m["params"] = None
        return m
    if k == "notif":
        m = {"jsonrpc": "2.0", "method": ev["method"]}
        meth, p = ev["method"], ev["p"]
        if meth == "$/cancelRequest":
            if p == "ok":
                m["params"] = {"id": ev["target"]}
            elif p == "wrong":
                m["params"] = {"id": {"x": 1}}
        elif p == "ok":
            m["params"] = NOTIFS_OK[meth](uri) if meth in NOTIFS_OK else {}
        elif p == "wrong":
            m["params"] = "bad"
        return m
    if k == "resp":
        return {"jsonrpc": "2.0", "id": 900000 + rng.randrange(1000), "result": None}
    return None


def pstate(ev, methods):
    """does the server's parameter type accept what `concrete` sends?  (label used by the model)"""
    if ev["k"] == "req":
        if ev["method"] == "initialize":
            return "o" if ev["p"] == "ok" else "b"
        return "o" if ev["p"] == "ok" else "b"
    if ev["k"] == "notif":
        return "o" if ev["p"] == "ok" else "b"
    return "o"


def run_session(sess, methods, seed, timeout):
    rng = random.Random(seed)
    tmp = tempfile.mkdtemp(prefix="vls")
    ws = os.path.join(tmp, "ws")
    os.makedirs(ws)
    with open(os.path.join(ws, "a.lua"), "w") as f:
        f.write(LUA_TEXT)
    ws_uri = "file://" + ws
    uri = ws_uri + "/a.lua"
    slow_client = seed % 3 == 0     # every third session: the client answers server requests late (long init window)
    c = Client(ws, reply_delay=0.4 if slow_client else 0.0)
    sent_ids = []
    notes = []
    try:
        for ev in sess:
            k = ev["k"]
            if k == "await":
                if not c.wait_response(ev["id"], timeout):
                    notes.append(f"await {ev['id']} timed out")
                continue
            if k == "sleep":
                time.sleep(ev["ms"] / 1000.0)
                continue
            if k == "open":
                c.send({"jsonrpc": "2.0", "method": "textDocument/didOpen", "params": {
                    "textDocument": {"uri": uri, "languageId": "lua", "version": 1, "text": LUA_TEXT}}})
                continue
            ev["_methods"] = methods
            m = concrete(ev, uri, ws_uri, rng, slow_client)
            del ev["_methods"]
            if k == "req":
                sent_ids.append(ev["id"])
            c.send(m)
        c.quiesce(set(sent_ids), timeout, 0.25)
        # liveness probe (only meaningful when the session did not end the server)
        probe_ok = None
        if not c.eof and c.p.poll() is None:
            c.send({"jsonrpc": "2.0", "id": 777777, "method": "verif/probe"})
            probe_ok = c.wait_response(777777, 5)
        with c.cv:
            responses = [(i, k) for i, k in c.responses if i != 777777]
            probe_kind = [k for i, k in c.responses if i == 777777]
        rc = None
        alive = c.p.poll() is None
    finally:
        rc = c.close()
        shutil.rmtree(tmp, ignore_errors=True)
    return {"responses": responses, "probe": probe_kind, "alive_at_end": alive, "rc": rc, "notes": notes,
            "server_requests": c.server_requests, "slow_client": slow_client}


# ------------------------------------------------------------------ oracle (independent of the Lean model)
def oracle_owed(sess):
    """ids owed a response by the property's statement: every request, except those sent after the client
    told the process to leave (`exit`; a response before initialize) or after the client
    itself broke the handshake (anything but `initialized` right after the initialize result)."""
    owed, phase = [], "pre"
    for ev in sess:
        k = ev["k"]
        if k in ("await", "sleep", "open"):
            continue
        if phase == "gone":
            continue
        if phase == "hand":
            if k == "notif" and ev["method"] == "initialized":
                phase = "run"
            else:
                phase = "gone"
            continue
        if k == "req":
            owed.append(ev["id"])
            if phase == "pre" and ev["method"] == "initialize" and ev["p"] == "ok":
                phase = "hand"
            elif phase == "run" and ev["method"] == "shutdown":
                phase = "down"
        elif k == "notif" and ev["method"] == "exit":
            phase = "gone"      # `exit` asks the process to leave; the transport reads nothing after it
        elif k == "resp" and phase == "pre":
            phase = "gone"
    return owed, phase


def classify(sess):
    """predicate name for known findings (none expected)"""
    return None


# ------------------------------------------------------------------ model side
def model_tokens(sess, methods, outcomes):
    """(tokens for proto.run without initDone, lowest and highest insertion index for `i`) — the initialization
    task completes somewhere between the handshake's `initialized` and the response to the probe request"""
    toks, lo, hi, init_ok = [], None, None, False
    awaits = 0
    for ev in sess:
        k = ev["k"]
        if k == "await":
            awaits += 1
            if awaits == 2 and lo is not None:
                hi = len(toks)
            continue
        if k == "sleep":
            continue
        if k == "open":
            toks.append("n:%s:o:0" % hexs("textDocument/didOpen"))
        elif k == "req":
            o = outcomes.get(ev["id"], "fn")
            toks.append("r:%d:%s:%s:%s" % (ev["id"], hexs(ev["method"]), pstate(ev, methods), o))
            if ev["method"] == "initialize" and ev["p"] == "ok" and not init_ok:
                init_ok = True
        elif k == "notif":
            toks.append("n:%s:%s:%d" % (hexs(ev["method"]), pstate(ev, methods), ev.get("target", 0)))
            if ev["method"] == "initialized" and init_ok and lo is None:
                lo = len(toks)
        elif k == "resp":
            toks.append("p")
    if lo is not None and hi is None:
        hi = len(toks)
    return toks, lo, hi


def model_lines(sess, methods, outcomes):
    toks, lo, hi = model_tokens(sess, methods, outcomes)
    if lo is None:
        return ["proto.run " + (",".join(toks) if toks else "-")]
    return ["proto.run " + ",".join(toks[:c] + ["i"] + toks[c:]) for c in range(lo, hi + 1)]


def vdriver(lines):
    # the driver executable is re-linked when another property's driver file changes: retry for a while
    last = None
    for _ in range(90):
        try:
            p = subprocess.run([VDRIVER], input="".join(l + "\n" for l in lines), stdout=subprocess.PIPE, text=True, timeout=600)
            res = p.stdout.splitlines()
            if len(res) == len(lines):
                return res
            last = f"driver answered {len(res)} lines for {len(lines)} requests"
        except (FileNotFoundError, PermissionError, OSError) as e:
            last = str(e)
        time.sleep(1)
    raise RuntimeError(last)


def parse_model(line):
    if not line.startswith("ok "):
        return None
    d = dict(kv.split("=", 1) for kv in line[3:].split(" "))
    out = sorted((int(x.split(":")[0]), x.split(":")[1]) for x in d["out"].split(",") if x)
    owed = [int(x) for x in d["owed"].split(",") if x]
    return {"phase": d["phase"], "out": out, "owed": owed}


def main():
    argv = sys.argv[1:]
    prop, tier, seed, outp, replay = "C24", "quick", 1, "/dev/stdout", None
    i = 0
    while i < len(argv):
        a = argv[i]
        if a == "--tier": tier = argv[i + 1]; i += 2
        elif a == "--seed": seed = int(argv[i + 1]); i += 2
        elif a == "--out": outp = argv[i + 1]; i += 2
        elif a == "--replay": replay = argv[i + 1]; i += 2
        elif a.startswith("--"): i += 2
        else: prop = a; i += 1
    thorough = tier == "thorough"
    rep = {"evaluations": 0, "distinct_nontrivial": 0, "rule": "", "samples": [], "mismatches": [], "oracle_failures": [],
           "distribution": {}, "notes": [], "traces_validated_against_impl": 0, "extra": {}}
    dist = rep["distribution"]

    def count(k, n=1):
        dist[k] = dist.get(k, 0) + n

    methods = parse_model_table()
    sessions = []
    if replay:
        r = json.load(open(replay))
        inp = r.get("input") or {}
        if inp.get("session"):
            sessions.append((inp["session"], inp.get("session_seed", 1)))
        elif inp.get("inproc"):
            pass
    if not sessions and not (replay and (json.load(open(replay)).get("input") or {}).get("inproc")):
        rng = random.Random(seed * 7919 + 13)
        n = 240 if thorough else 40
        for s in range(n):
            sessions.append((gen_session(rng, methods, long=thorough and s % 4 == 0), rng.randrange(1 << 30)))
        # one hand-written session covering every registered method with valid and with malformed params
        full = [{"k": "req", "id": 1, "method": "initialize", "p": "ok"}, {"k": "await", "id": 1},
                {"k": "notif", "method": "initialized", "p": "ok", "target": 0},
                {"k": "req", "id": 2, "method": "textDocument/hover", "p": "ok"}, {"k": "await", "id": 2}, {"k": "open"},
                {"k": "sleep", "ms": 300}]
        j = 10
        for m in methods:
            for p in ("ok", "wrong", "absent", "null"):
                full.append({"k": "req", "id": j, "method": m, "p": p}); j += 1
        sessions.insert(0, (full, 5))
        # requests and cancels that arrive while the initialization task runs (queued); seeds 3 and 6: slow client
        for sd in (3, 6, 7):
            w = [{"k": "req", "id": 1, "method": "initialize", "p": "ok"}, {"k": "await", "id": 1},
                 {"k": "notif", "method": "initialized", "p": "ok", "target": 0}]
            j = 10
            for m_, p_ in (("textDocument/hover", "ok"), ("textDocument/completion", "wrong"), ("foo/bar", "ok"),
                           ("textDocument/semanticTokens/full", "ok"), ("textDocument/documentSymbol", "null")):
                w.append({"k": "req", "id": j, "method": m_, "p": p_})
                w.append({"k": "notif", "method": "$/cancelRequest", "p": "ok", "target": j})
                j += 1
            w.append({"k": "notif", "method": "$/cancelRequest", "p": "ok", "target": 10})
            w += [{"k": "req", "id": 2, "method": "textDocument/hover", "p": "ok"}, {"k": "await", "id": 2},
                  {"k": "req", "id": 30, "method": "textDocument/hover", "p": "ok"}]
            sessions.insert(1, (w, sd))

    timeout = 40 if thorough else 25
    t0 = time.time()
    with ThreadPoolExecutor(max_workers=8 if not thorough else 12) as ex:
        results = list(ex.map(lambda sv: run_session(sv[0], methods, sv[1], timeout), sessions))
    rep["extra"]["stdio_wall_s"] = round(time.time() - t0, 1)

    # ---- oracle + tie per session
    distinct = set()
    req_lines, req_index = [], []
    for si, ((sess, sseed), obs) in enumerate(zip(sessions, results)):
        owed, end_phase = oracle_owed(sess)
        per = {}
        for i_, k in obs["responses"]:
            per.setdefault(i_, []).append(k)
        inp = {"session": sess, "session_seed": sseed}
        nreq = sum(1 for e in sess if e["k"] == "req")
        rep["evaluations"] += nreq
        count("sessions")
        count("requests_sent", nreq)
        count("server_to_client_requests_answered", obs["server_requests"])
        count("end_phase_" + end_phase)
        if obs.get("slow_client"):
            count("sessions_slow_client")
        # how much was really queued behind the initialization task (sent before the probe's await)
        seen_init = False
        for e in sess:
            if e["k"] == "await" and seen_init:
                break
            if seen_init and e["k"] == "req":
                count("requests_sent_in_init_window")
            if seen_init and e["k"] == "notif" and e["method"] == "$/cancelRequest":
                count("cancels_sent_in_init_window")
            if e["k"] == "notif" and e["method"] == "initialized":
                seen_init = True
        for e in sess:
            if e["k"] == "req":
                sig = (e["method"], e["p"])
                if sig not in distinct:
                    distinct.add(sig)
                count("req_params_" + e["p"])
            elif e["k"] == "notif":
                count("notif_" + ("cancel" if e["method"] == "$/cancelRequest" else "other"))
        for kinds in per.values():
            for k in kinds:
                count("resp_" + k)
        for n_ in obs["notes"]:
            rep["notes"].append(f"session {si}: {n_}")
        bad = None
        for rid in owed:
            got = per.get(rid, [])
            if len(got) != 1:
                ev = next(e for e in sess if e["k"] == "req" and e["id"] == rid)
                bad = {"what": f"request id {rid} ({ev['method']}, params {ev['p']}) received {len(got)} responses {got} "
                               f"after quiescence (timeout {timeout}s); expected exactly one", "id": rid}
                break
        if bad is None:
            sent = {e["id"] for e in sess if e["k"] == "req"}
            stray = [i_ for i_ in per if i_ not in sent]
            if stray:
                bad = {"what": f"responses for ids never sent: {stray[:5]}"}
        if bad is None:
            for rid, got in per.items():
                if len(got) > 1:
                    bad = {"what": f"request id {rid} received {len(got)} responses {got}"}
                    break
        if bad is None and end_phase in ("run",) and not (obs["alive_at_end"] and obs["probe"] == ["methodNotFound"]):
            bad = {"what": f"server no longer serving at the end of a session that never asked it to leave "
                           f"(alive={obs['alive_at_end']}, probe={obs['probe']}, rc={obs['rc']})"}
        if bad is not None:
            bad.update({"input": inp, "class": classify(sess)})
            rep["oracle_failures"].append(bad)
            count("oracle_failures_total")
        # tie: outcomes admitted by the observation
        outcomes = {}
        for rid, got in per.items():
            if got == ["requestCanceled"]:
                outcomes[rid] = "sn"
            elif got == ["internalError"]:
                outcomes[rid] = "fp"
        for ci, line in enumerate(model_lines(sess, methods, outcomes)):
            req_lines.append(line)
            req_index.append((si, ci))
        if si < 3:
            rep["samples"].append({"session_head": [e for e in sess if e["k"] != "await"][:8],
                                   "observed": sorted(obs["responses"])[:10]})
    answers = vdriver(req_lines) if req_lines else []
    by_session = {}
    for (si, cpos), line in zip(req_index, answers):
        by_session.setdefault(si, []).append((cpos, parse_model(line), line))
    for si, ((sess, sseed), obs) in enumerate(zip(sessions, results)):
        observed = sorted((i_, k) for i_, k in obs["responses"])
        cand = by_session.get(si, [])
        ok = any(m is not None and m["out"] == observed for _, m, _ in cand)
        rep["traces_validated_against_impl"] += 1 if ok else 0
        if not ok:
            best = cand[-1] if cand else (None, None, "no model answer")
            exp = best[1]["out"] if best[1] else best[2]
            diff = None
            if best[1]:
                diff = {"only_model": [x for x in exp if x not in observed][:6], "only_impl": [x for x in observed if x not in exp][:6]}
            rep["mismatches"].append({"input": {"session": sess, "session_seed": sseed}, "model": exp if not diff else None,
                                      "diff": diff, "what": "response multiset (id, kind) of the real server differs from the Proto model for every admissible completion point of the initialization task"})
            count("mismatches_total")
        else:
            # the model's owed ids must be the oracle's owed ids (two independent definitions of "received while alive")
            m = next(m for _, m, _ in cand if m is not None and m["out"] == observed)
            if sorted(m["owed"]) != sorted(oracle_owed(sess)[0]):
                rep["mismatches"].append({"input": {"session": sess, "session_seed": sseed},
                                          "what": f"model's answerable ids {m['owed']} differ from the oracle's owed ids {oracle_owed(sess)[0]}"})
                count("mismatches_total")
    rep["distinct_nontrivial"] = len(distinct)
    rep["rule"] = ("evaluations = requests sent to the real emmylua_ls over stdio (+ in-process wrapper cases); distinct = distinct "
                   "(method, params-variant) pairs among them (params variants: ok / wrong type / absent / null; unknown methods count "
                   "per name); a case is non-trivial because every request exercises dispatch + response accounting")

    # ---- in-process part (ServerContext::task with forced outcomes)
    if os.path.exists(VH_LS):
        sub_out = outp + ".inproc.json"
        cmd = [VH_LS, "C24", "--tier", tier, "--seed", str(seed), "--out", sub_out]
        if replay:
            cmd += ["--replay", replay]
        try:
            p = subprocess.run(cmd, stdout=subprocess.PIPE, stderr=subprocess.STDOUT, text=True, timeout=1200)
            if p.returncode == 0 and os.path.exists(sub_out):
                sub = json.load(open(sub_out))
                rep["evaluations"] += sub.get("evaluations", 0)
                rep["distinct_nontrivial"] += sub.get("distinct_nontrivial", 0)
                rep["mismatches"] += sub.get("mismatches", [])
                rep["oracle_failures"] += sub.get("oracle_failures", [])
                rep["traces_validated_against_impl"] += sub.get("traces_validated_against_impl", 0)
                for k, v in sub.get("distribution", {}).items():
                    count("inproc_" + k, v)
                rep["samples"] += sub.get("samples", [])[:2]
                rep["notes"] += sub.get("notes", [])
                os.remove(sub_out)
            else:
                rep["mismatches"].append({"what": "in-process part (vh-ls C24) failed: " + p.stdout[-600:], "input": None})
        except subprocess.TimeoutExpired:
            rep["mismatches"].append({"what": "in-process part (vh-ls C24) timed out", "input": None})
    else:
        rep["notes"].append("vh-ls binary not present: in-process wrapper part skipped")
    rep["samples"] = rep["samples"][:5]
    rep["mismatches"] = rep["mismatches"][:20]
    rep["oracle_failures"] = rep["oracle_failures"][:50]
    s = json.dumps(rep, indent=1)
    if outp == "/dev/stdout":
        print(s)
    else:
        open(outp, "w").write(s)


def parse_model_table():
    line = vdriver(["proto.table"])[0]
    assert line.startswith("ok "), line
    return line[3:].split(",")


if __name__ == "__main__":
    main()
