#!/usr/bin/env python3
"""C39 runner: drives the real `luafmt --write` binary (built from /repo's working tree) under
strace with injected faults and checks, after every faulted run,
  * oracle (implementation side, independent of the model): every Lua file of the work directory
    holds its complete original content or its complete formatted content;
  * correspondence (tie): the Lean `Fs` model (`vdriver`, op `fs.exec`), run on the file-modifying
    syscalls the faulted process really performed, predicts exactly the directory found on disk.

Faults: SIGKILL on entry of the k-th invocation of each file syscall (every syscall of the run); an error return injected
into the N-th call of each syscall class (ENOSPC/EIO/EACCES…, the call is not executed);
RLIMIT_FSIZE with SIGXFSZ ignored (EFBIG after a genuinely partial write) and with SIGXFSZ left
at its default (the kernel kills the process in the middle of the file).

CLI: fmt_crash.py C39 --tier quick|thorough --seed N --out FILE [--replay FILE]
Also imported by checklib/gen/fs_trace.py (shared strace parsing).
"""
import sys, os, re, json, subprocess, tempfile, shutil, random, fcntl, signal, resource

ROOT = os.path.dirname(os.path.dirname(os.path.dirname(os.path.abspath(__file__))))
BINS = os.path.join(ROOT, "harness", "target-bins")
# VERIF_LUAFMT: run against another build of the binary (used only to try seeded mutations by hand)
LUAFMT = os.environ.get("VERIF_LUAFMT") or os.path.join(BINS, "debug", "luafmt")
VDRIVER = os.environ.get("VDRIVER", os.path.join(ROOT, "lean", ".lake", "build", "bin", "vdriver"))
WORK = os.path.join(ROOT, ".work", "fmt_crash")

STRSIZE = 65536
# symlinks to files are not collected by the directory walk; they are passed to luafmt explicitly
EXTRA_ARGS = []
FILE_SYSCALLS = ["open", "openat", "creat", "write", "pwrite64", "writev", "fsync", "fdatasync", "close",
                 "rename", "renameat", "renameat2", "unlink", "unlinkat", "fchmod", "chmod", "fchmodat",
                 "ftruncate", "truncate"]
TRACE_SET = ",".join(FILE_SYSCALLS)


def build_luafmt(log=None):
    """cargo build the real binary from /repo's working tree (incremental; serialised by the cargo lock)"""
    if os.environ.get("VERIF_LUAFMT"):
        return
    os.makedirs(os.path.join(ROOT, ".locks"), exist_ok=True)
    with open(os.path.join(ROOT, ".locks", "cargo"), "w") as lk:
        fcntl.flock(lk, fcntl.LOCK_EX)
        env = dict(os.environ, CARGO_TARGET_DIR=BINS, CARGO_NET_OFFLINE="true")
        p = subprocess.run(["cargo", "build", "-q", "-p", "emmylua_formatter", "--bin", "luafmt", "--offline"],
                           cwd="/repo", env=env, stdout=subprocess.PIPE, stderr=subprocess.STDOUT, text=True)
    if log is not None:
        log.append(p.stdout[-2000:])
    if p.returncode != 0 or not os.path.exists(LUAFMT):
        raise RuntimeError("luafmt does not build: " + p.stdout[-1500:])


# ------------------------------------------------------------------ fixtures

FIXTURE_SMALL = {
    "a.lua": "local a=1\nlocal   b  =  2\n",
    "b.lua": "local function f( x,y )\n  return {x,y,\n x+y}\nend\nprint( f(1,2) )\n",     # has a second hard link
    "c.lua": "x = {1,2,\n3}\n",
    "d.lua": "local d = 4\n",          # already formatted: never written
    "e.lua": "",                        # empty
    "crlf.lua": "local  c=1\r\nlocal d =2\r\n",
    "ro.lua": "local r=  1\n",          # read-only file
    "rodir/in.lua": "local  q = 0\n",   # file in a read-only directory
    "data/real.txt": "local  s = 1\n",  # only reachable through the symlink link.lua
    "linked/x.lua": "local  x = 1\n",   # directory also reachable through the symlink dirlink
}
# file-system variety of the work directory: [op, path, argument]
EXTRAS_SMALL = [
    ["hardlink", "b.lua", "b.lua.orig"],
    ["symlink", "link.lua", "data/real.txt"],
    ["dirsymlink", "dirlink", "linked"],
    ["chmod", "ro.lua", 0o444],
    ["chmod", "rodir", 0o555],
]


def gen_lua(rng, n_stmts):
    names = ["alpha", "beta", "gamma", "delta", "eps", "zeta"]
    out = []
    for _ in range(n_stmts):
        k = rng.randrange(6)
        a, b = rng.choice(names), rng.choice(names)
        sp = " " * rng.randrange(0, 4)
        if k == 0:
            out.append(f"local {a}{sp}={sp}{rng.randrange(100)}")
        elif k == 1:
            out.append(f"local function {a}({sp}{b},{sp}x )\n{sp}return {b}+x\nend")
        elif k == 2:
            out.append(f"{a} = {{{sp}1,{sp}2,\n{sp}{b}=3 }}")
        elif k == 3:
            out.append(f"if {a}   then\n{sp}print({sp}'{b}' )\nend")
        elif k == 4:
            out.append(f"-- {a} {b}{sp}\n---@type integer\nlocal {b}{sp}={sp}0")
        else:
            out.append(f"for i=1,{rng.randrange(1, 9)} do {a}({sp}i{sp}) end")
    return "\n".join(out) + "\n"


def gen_fixture(rng, n_files, big=False):
    fx = {}
    for i in range(n_files):
        sub = "" if i % 3 else f"sub{i // 3}/"
        fx[f"{sub}f{i:02d}.lua"] = gen_lua(rng, rng.randrange(1, 8))
    fx["keep.lua"] = "local keep = 1\n"
    if big:
        fx["big.lua"] = gen_lua(rng, 300)      # several pages
    return fx


def materialise(fx, d, extras=()):
    if os.path.exists(d):
        for base, dirs, _ in os.walk(d):
            for x in dirs:
                if not os.path.islink(os.path.join(base, x)):
                    os.chmod(os.path.join(base, x), 0o755)
        shutil.rmtree(d)
    for name, text in fx.items():
        p = os.path.join(d, name)
        os.makedirs(os.path.dirname(p), exist_ok=True)
        with open(p, "wb") as f:
            f.write(text.encode())
    for op, path, arg in extras:
        p = os.path.join(d, path)
        if op == "hardlink":
            os.link(p, os.path.join(d, arg))
        elif op in ("symlink", "dirsymlink"):
            os.symlink(os.path.relpath(os.path.join(d, arg), os.path.dirname(p)), p)
        elif op == "chmod":
            os.chmod(p, arg)


def aliases_of(extras):
    """other hard-link name -> fixture file it shares its inode with"""
    return {arg: path for op, path, arg in extras if op == "hardlink"}


def links_of(d):
    """relative path -> link target for every symlink under d"""
    out = {}
    for base, dirs, files in os.walk(d):
        for f in dirs + files:
            p = os.path.join(base, f)
            if os.path.islink(p):
                out[os.path.relpath(p, d)] = os.readlink(p)
    return out


def listing(d):
    """relative path -> bytes for every regular file under d"""
    out = {}
    for base, _, files in os.walk(d):
        for f in files:
            p = os.path.join(base, f)
            if not os.path.islink(p):
                out[os.path.relpath(p, d)] = open(p, "rb").read()
    return out


def expected_new(fx):
    """formatted content per file, computed through the stdin/stdout path of the same binary (no file is written)"""
    out = {}
    for name, text in fx.items():
        p = subprocess.run([LUAFMT, "--stdin"], input=text.encode(), stdout=subprocess.PIPE, stderr=subprocess.PIPE)
        if p.returncode != 0:
            raise RuntimeError(f"luafmt --stdin failed on fixture {name}: {p.stderr[-300:]}")
        out[name] = p.stdout
    return out


# ------------------------------------------------------------------ strace

_STR = re.compile(r'"((?:\\x[0-9a-f]{2})*)"(\.\.\.)?')


def _unx(s):
    return bytes.fromhex(s.replace("\\x", ""))


def run_traced(workdir, trace_path, inject=None, fsize=None, ignore_xfsz=True, timeout=120, luafmt=None, strsize=65536):
    """run `luafmt --write <workdir>` under strace; returns (exit status of strace, stderr).
    The strace log goes through a pipe (a pipe is not subject to RLIMIT_FSIZE, which is set — for the
    fsize faults — on strace and inherited by the traced luafmt) and is then stored in trace_path."""
    import threading
    r, w = os.pipe()
    cmd = ["strace", "-f", "-xx", "-s", str(strsize), "-o", f"/dev/fd/{w}", "-e", "trace=" + TRACE_SET]
    if inject:
        cmd += ["-e", "inject=" + inject]
    cmd += [luafmt or LUAFMT, "--write", workdir] + [os.path.join(workdir, x) for x in EXTRA_ARGS]

    def pre():
        if fsize is not None:
            resource.setrlimit(resource.RLIMIT_FSIZE, (fsize, fsize))
            if ignore_xfsz:
                signal.signal(signal.SIGXFSZ, signal.SIG_IGN)

    chunks = []

    def reader():
        with os.fdopen(r, "rb") as f:
            chunks.append(f.read())

    t = threading.Thread(target=reader)
    t.start()
    try:
        p = subprocess.Popen(cmd, stdout=subprocess.PIPE, stderr=subprocess.PIPE, pass_fds=(w,), preexec_fn=pre)
    finally:
        os.close(w)
    try:
        _, err = p.communicate(timeout=timeout)
    except subprocess.TimeoutExpired:
        p.kill()
        _, err = p.communicate()
    t.join()
    with open(trace_path, "wb") as f:
        f.write(b"".join(chunks))
    return p.returncode, err.decode(errors="replace")


def parse_trace(trace_path, workdir):
    """strace log -> list of events on paths inside workdir, after the exec of luafmt.
    event = dict(sys, kind, path|a,b, data, ret (int|None for killed/unfinished), err, injected)"""
    workdir = os.path.realpath(workdir)
    events, fds, started = [], {}, False
    killed = None
    nsys = 0          # number of FILE_SYSCALLS made by luafmt (what `when=N` counts)
    for line in open(trace_path, errors="replace"):
        m = re.match(r"(\d+)\s+(.*)$", line.rstrip("\n"))
        if not m:
            continue
        rest = m.group(2)
        if rest.startswith("+++ killed by"):
            killed = rest.split()[3]
            continue
        if rest.startswith("+++") or rest.startswith("---"):
            continue
        sm = re.match(r"(\w+)\((.*)$", rest)
        if not sm:
            continue
        name, tail = sm.group(1), sm.group(2)
        if name == "execve":
            continue
        if name not in FILE_SYSCALLS:
            continue
        rm = re.search(r"\)\s+= (-?\d+|\?)(?: (E\w+))?(.*)$", tail)
        ret = None if (rm is None or rm.group(1) == "?") else int(rm.group(1))
        err = rm.group(2) if rm else None
        injected = bool(rm and "INJECTED" in rm.group(3))
        nsys += 1
        strs = [_unx(x.group(1)) for x in _STR.finditer(tail)]

        def inside(b):
            try:
                p = os.path.realpath(b.decode()) if os.path.isabs(b.decode()) else None
            except UnicodeDecodeError:
                return None
            if p and (p == workdir or p.startswith(workdir + os.sep)):
                return os.path.relpath(p, workdir)
            return None

        ev = {"sys": name, "ret": ret, "err": err, "injected": injected, "n": nsys}
        if name in ("open", "openat", "creat"):
            if not strs:
                continue
            rel = inside(strs[0])
            if rel is None or rel == ".":
                continue
            flags = tail
            writing = ("O_WRONLY" in flags or "O_RDWR" in flags or name == "creat")
            if not writing:
                continue
            ev.update(kind="creat" if ("O_TRUNC" in flags or name == "creat") else "openw", path=rel)
            if ret is not None and ret >= 0:
                fds[ret] = rel
            events.append(ev)
        elif name in ("write", "pwrite64", "writev", "fsync", "fdatasync", "close", "fchmod", "ftruncate"):
            fm = re.match(r"(\d+)", tail)
            if not fm or int(fm.group(1)) not in fds:
                continue
            fd = int(fm.group(1))
            ev.update(path=fds[fd])
            if name in ("write", "pwrite64"):
                data = strs[0] if strs else b""
                ev.update(kind="write", data=data)
            elif name == "writev":
                ev.update(kind="write", data=b"".join(strs))
            elif name in ("fsync", "fdatasync"):
                ev.update(kind="fsync")
            elif name == "close":
                ev.update(kind="close")
                if ret == 0 or ret is None:
                    del fds[fd]
            elif name == "fchmod":
                ev.update(kind="chmod")
            else:
                ev.update(kind="truncate")
            events.append(ev)
        elif name in ("rename", "renameat", "renameat2"):
            rels = [inside(s) for s in strs[:2]]
            if len(rels) == 2 and (rels[0] or rels[1]):
                ev.update(kind="rename", a=rels[0], b=rels[1])
                events.append(ev)
        elif name in ("unlink", "unlinkat"):
            rel = inside(strs[0]) if strs else None
            if rel:
                ev.update(kind="unlink", path=rel)
                events.append(ev)
        elif name in ("chmod", "fchmodat", "truncate"):
            rel = inside(strs[0]) if strs else None
            if rel:
                ev.update(kind="chmod" if name != "truncate" else "truncate", path=rel)
                events.append(ev)
    return {"events": events, "killed": killed, "nsys": nsys}


def effects(events, include_unfinished=False):
    """events -> model syscalls (kind, path[, data | b]) that took effect; consecutive writes to one path merged"""
    out = []
    for ev in events:
        k, ret = ev["kind"], ev["ret"]
        if ret is None and not include_unfinished:
            continue
        if ret is not None and ret < 0:
            continue
        if k == "write":
            data = ev["data"] if ret is None else ev["data"][:ret]
            if out and out[-1][0] == "write" and out[-1][1] == ev["path"]:
                out[-1] = ("write", ev["path"], out[-1][2] + data)
            else:
                out.append(("write", ev["path"], data))
        elif k == "rename":
            out.append(("rename", ev["a"], ev["b"]))
        elif k in ("creat", "fsync", "close", "chmod", "unlink"):
            out.append((k, ev["path"]))
        else:
            out.append(("other:" + k, ev.get("path")))
    return out


class Ids:
    """file names <-> numeric model paths (targets first, in sorted order; others as they appear)"""

    def __init__(self, names):
        self.id = {n: i for i, n in enumerate(sorted(names))}

    def of(self, name):
        if name not in self.id:
            self.id[name] = len(self.id)
        return self.id[name]

    def names(self):
        return {v: k for k, v in self.id.items()}


def hexb(b):
    return b.hex() if b else "-"


def enc_state(listing_, ids):
    items = sorted((ids.of(n), c) for n, c in listing_.items())
    return ",".join(f"{i}:{hexb(c)}" for i, c in items) or "_"


def enc_trace(effs, ids):
    code = {"creat": "c", "fsync": "f", "close": "x", "chmod": "m", "unlink": "u"}
    items = []
    for e in effs:
        if e[0] == "write":
            items.append(f"w:{ids.of(e[1])}:{hexb(e[2])}")
        elif e[0] == "rename":
            items.append(f"r:{ids.of(e[1])}:{ids.of(e[2])}")
        elif e[0] in code:
            items.append(f"{code[e[0]]}:{ids.of(e[1])}")
        else:
            items.append("unknown:" + e[0])
    return ",".join(items) or "_"


def run_driver(requests):
    p = subprocess.run([VDRIVER], input=("\n".join(requests) + "\n").encode(), stdout=subprocess.PIPE)
    lines = p.stdout.decode().splitlines()
    if len(lines) != len(requests):
        raise RuntimeError(f"driver answered {len(lines)} lines for {len(requests)} requests")
    return lines


# ------------------------------------------------------------------ the runs

class Report:
    def __init__(self):
        self.r = {"evaluations": 0, "distinct_nontrivial": 0, "rule": "", "samples": [], "mismatches": [],
                  "oracle_failures": [], "distribution": {}, "notes": [], "traces_validated_against_impl": 0, "extra": {}}

    def count(self, k, n=1):
        self.r["distribution"][k] = self.r["distribution"].get(k, 0) + n


def classify(fault):
    return None


def check_run(rep, fx, new, fixture_name, fault, workdir, trace_path, rc, seen, pending, extras=(), links0=None,
              collected=None):
    """oracle + queue the correspondence request for one finished (faulted) run"""
    after = listing(workdir)
    tr = parse_trace(trace_path, workdir)
    rep.r["evaluations"] += 1
    aliases = aliases_of(extras)
    # --- oracle: every original path (including the other names of hard-linked files) holds complete old or
    #     complete new content
    bad = []
    n_new = n_old = 0
    for name in list(fx) + list(aliases):
        src = aliases.get(name, name)
        old = fx[src]
        cur = after.get(name)
        if cur == new[src]:
            if name in fx:
                n_new += 1
        elif cur == old.encode():
            if name in fx:
                n_old += 1
        else:
            bad.append({"file": name, "len_on_disk": None if cur is None else len(cur), "len_old": len(old),
                        "len_new": len(new[src]),
                        "on_disk_is_prefix_of_new": cur is not None and new[src].startswith(cur)})
    # symlinks of the work directory stay symlinks to the same targets
    if links0 is not None and links_of(workdir) != links0:
        bad.append({"file": "symlinks", "len_on_disk": None, "len_old": 0, "len_new": 0, "on_disk_is_prefix_of_new": False,
                    "links_before": links0, "links_after": links_of(workdir)})
    changed_files = sum(1 for n in fx if new[n] != fx[n].encode())
    fired = tr["killed"] is not None or any(e["injected"] or (e["err"] is not None) for e in tr["events"])
    rep.count("fault_fired" if fired else "fault_not_reached")
    if tr["killed"]:
        rep.count("killed_by_" + tr["killed"])
    for e in tr["events"]:
        if e["err"]:
            rep.count("errno_" + e["err"])
    leftovers = [n for n in after if n not in fx and n not in aliases]
    # exit status: a run that was not killed and left a file that needs formatting unformatted must not exit 0
    unwritten = [n for n in (collected or []) if after.get(n) != new[n]]
    if tr["killed"] is None and unwritten and rc == 0:
        rep.r["oracle_failures"].append({
            "input": {"fixture": fixture_name, "files": fx, "extras": list(extras), "fault": fault},
            "what": f"after {fault} luafmt exited 0 although {unwritten[0]} (and {len(unwritten) - 1} more) was not rewritten",
            "class": classify(fault)})
    if leftovers:
        rep.count("runs_leaving_a_temp_file")
    touched = len(tr["events"]) > 0
    key = (fixture_name, json.dumps(fault, sort_keys=True))
    if fired and touched and key not in seen:
        seen.add(key)
        rep.r["distinct_nontrivial"] += 1
    if 0 < n_new < changed_files:
        rep.count("stopped_midway(some files new, some old)")
    if bad:
        rep.r["oracle_failures"].append({
            "input": {"fixture": fixture_name, "files": fx, "extras": list(extras), "fault": fault},
            "what": f"after {fault} the file {bad[0]['file']} holds neither its original nor its formatted content "
                    f"({bad[0]['len_on_disk']} bytes on disk, old {bad[0]['len_old']}, new {bad[0]['len_new']})",
            "class": classify(fault), "files": bad})
    # --- correspondence: model on the syscalls that took effect == directory on disk
    ids = Ids(list(fx.keys()) + list(aliases))
    s0_files = {n: t.encode() for n, t in fx.items()}
    s0_files.update({a: fx[src].encode() for a, src in aliases.items()})
    s0 = enc_state(s0_files, ids)
    cands = [effects(tr["events"], False)]
    if any(e["ret"] is None for e in tr["events"]):
        cands.append(effects(tr["events"], True))
    reqs = [f"fs.exec {s0} {enc_trace(c, ids)}" for c in cands]
    pending.append({"reqs": reqs, "disk": after, "ids": ids, "fault": fault, "fixture": fixture_name, "files": fx, "extras": list(extras),
                    "trace_len": len(tr["events"])})
    if len(rep.r["samples"]) < 4 and fired and touched:
        rep.r["samples"].append({"fixture": fixture_name, "fault": fault, "exit": rc, "killed_by": tr["killed"],
                                 "file_syscalls_in_workdir": [
                                     f"{e['sys']}({e.get('path') or (str(e.get('a')) + ' -> ' + str(e.get('b')))}) = {e['ret']}"
                                     + (f" {e['err']}" if e["err"] else "") for e in tr["events"]][-12:],
                                 "files_new": n_new, "files_old": n_old, "temp_left": leftovers})
    return tr


def flush_correspondence(rep, pending):
    reqs = [r for p in pending for r in p["reqs"]]
    if not reqs:
        return
    answers = run_driver(reqs)
    i = 0
    for p in pending:
        got = answers[i:i + len(p["reqs"])]
        i += len(p["reqs"])
        want = "ok " + enc_state(p["disk"], p["ids"])
        if want in got:
            rep.r["traces_validated_against_impl"] += 1
        else:
            if len(rep.r["mismatches"]) < 20:
                rep.r["mismatches"].append({"input": {"fixture": p["fixture"], "files": p["files"], "extras": p["extras"], "fault": p["fault"]},
                                            "model": got, "impl": want, "names": p["ids"].names(),
                                            "tie": "correspondence fs.exec (Fs model on the observed syscalls vs directory on disk)"})
            rep.count("mismatches_total")
    pending.clear()


def fault_plan(base, tier, rng, kills_only=False):
    """faults derived from the baseline trace of the fixture"""
    plan = []
    counts = {}
    for e in base["all_names"]:
        counts[e] = counts.get(e, 0) + 1
    # (syscall name, k) of the calls that touch the write path inside the work directory; a kill on entry of any
    # other call (reads, directory walks) leaves the same state as the kill on entry of the next of these
    write_path = set()
    for ev in base["events"]:
        k = sum(1 for x in base["all_names"][:ev["n"]] if x == ev["sys"])
        write_path.add((ev["sys"], k))
    every = tier == "thorough"
    # kill on entry of a file syscall (the call itself is not executed); strace counts `when=` per syscall,
    # so the crash points are enumerated as (syscall, k-th invocation)
    for sysname in sorted(counts):
        for k in range(1, counts[sysname] + 1):
            if every or (sysname, k) in write_path:
                plan.append({"kind": "kill", "syscall": sysname, "when": k})
    if kills_only:
        return plan
    errs = {"openat": ["ENOSPC", "EACCES"], "write": ["ENOSPC", "EIO"], "fsync": ["EIO"], "fchmod": ["EPERM"],
            "close": ["EIO"], "rename": ["EACCES", "ENOSPC"], "unlink": ["EACCES"]}
    for sysname, es in errs.items():
        for k in range(1, counts.get(sysname, 0) + 1):
            if not every and (sysname, k) not in write_path:
                continue
            for er in es[:1]:
                plan.append({"kind": "error", "syscall": sysname, "errno": er, "when": k})
    return plan


def all_syscall_names(trace_path):
    names = []
    for line in open(trace_path, errors="replace"):
        m = re.match(r"\d+\s+(\w+)\(", line)
        if m and m.group(1) in FILE_SYSCALLS:
            names.append(m.group(1))
    return names


def run_fixture(rep, fixture_name, fx, tier, rng, seen, replay_fault=None, light=False, extras=()):
    os.makedirs(WORK, exist_ok=True)
    new = expected_new(fx)
    # strace must print whole write buffers (it truncates strings at -s); keep it small, strace pre-allocates 4x that
    global STRSIZE
    STRSIZE = max(4096, max(len(v) for v in new.values()) + 64)
    wd = os.path.join(WORK, "wd")
    trp = os.path.join(WORK, "trace.txt")
    pending = []
    # baseline
    global EXTRA_ARGS
    EXTRA_ARGS = [path for op, path, arg in extras if op == "symlink"]
    materialise(fx, wd, extras)
    links0 = links_of(wd)
    rc, err = run_traced(wd, trp, strsize=STRSIZE)
    base = parse_trace(trp, wd)
    base["all_names"] = all_syscall_names(trp)
    check_run(rep, fx, new, fixture_name, {"kind": "none"}, wd, trp, rc, seen, pending, extras, links0)
    after = listing(wd)
    for name in fx:
        if after.get(name) != new[name]:
            rep.count("baseline_files_luafmt_did_not_format(not collected)")
            rep.r["notes"].append(f"baseline: {fixture_name}/{name} is not formatted by an unfaulted --write (rc={rc}) — not collected by luafmt")
    for op, path, arg in extras:
        rep.count("fixture_" + op)
    # the files luafmt rewrites in an unfaulted run (a file only reachable through a symlink may not be collected)
    collected = [n for n in fx if new[n] != fx[n].encode() and after.get(n) == new[n]]
    rep.count("fixture_files_ge_8KiB", sum(1 for n in collected if len(new[n]) >= 8192))
    rep.count("fixture_files_lt_8KiB", sum(1 for n in collected if len(new[n]) < 8192))
    faults = [replay_fault] if replay_fault else fault_plan(base, tier, rng, kills_only=light)
    if not replay_fault:
        sizes = sorted({len(v) for v in new.values()})
        top = max(sizes) + 2
        if tier == "thorough" and top <= 400:
            limits = list(range(0, top))
        else:
            limits = sorted(set([0, 1, 7] + [s - 1 for s in sizes if s > 0] + sizes
                                + [rng.randrange(0, top) for _ in range(3 if tier == "quick" else 25)]
                                + ([4096, 4097, 8192] if tier == "thorough" else [])))
            if light:
                limits = sorted(set([sizes[0] // 2, 8192, (8192 + sizes[-1]) // 2, sizes[-1] - 1] + [rng.randrange(0, top) for _ in range(3)]))
        for l in limits:
            faults.append({"kind": "fsize", "limit": l, "sigxfsz": "ignored"})
            faults.append({"kind": "fsize", "limit": l, "sigxfsz": "default"})
    for fault in faults:
        materialise(fx, wd, extras)
        if fault["kind"] == "none":
            rc, _ = run_traced(wd, trp, strsize=STRSIZE)
        elif fault["kind"] == "kill":
            rc, _ = run_traced(wd, trp, inject=f"{fault['syscall']}:signal=KILL:when={fault['when']}", strsize=STRSIZE)
        elif fault["kind"] == "error":
            rc, _ = run_traced(wd, trp, inject=f"{fault['syscall']}:error={fault['errno']}:when={fault['when']}", strsize=STRSIZE)
        else:
            rc, _ = run_traced(wd, trp, fsize=fault["limit"], ignore_xfsz=(fault["sigxfsz"] == "ignored"), strsize=STRSIZE)
        rep.count("fault_" + fault["kind"])
        check_run(rep, fx, new, fixture_name, fault, wd, trp, rc, seen, pending, extras, links0, collected)
        if len(pending) >= 200:
            flush_correspondence(rep, pending)
    flush_correspondence(rep, pending)
    rep.r["extra"].setdefault("fixtures", {})[fixture_name] = {
        "files": len(fx), "files_needing_change": sum(1 for n in fx if new[n] != fx[n].encode()),
        "file_syscalls_in_baseline": base["nsys"], "faults": len(faults)}


def main():
    argv = sys.argv[1:]
    prop, tier, seed, out, replay = argv[0], "quick", 1, "/dev/stdout", None
    i = 1
    while i < len(argv):
        if argv[i] == "--tier": tier = argv[i + 1]
        elif argv[i] == "--seed": seed = int(argv[i + 1])
        elif argv[i] == "--out": out = argv[i + 1]
        elif argv[i] == "--replay": replay = argv[i + 1]
        i += 2
    if prop != "C39":
        print("fmt_crash.py: unknown property " + prop, file=sys.stderr)
        sys.exit(2)
    rng = random.Random(seed)
    rep = Report()
    global VDRIVER
    os.makedirs(WORK, exist_ok=True)
    private = os.path.join(WORK, "vdriver")
    for _ in range(50):        # another check may be relinking the shared driver right now
        try:
            shutil.copy2(VDRIVER, private)
            break
        except OSError:
            import time
            time.sleep(0.5)
    VDRIVER = private
    build_luafmt()
    seen = set()
    if replay:
        v = json.load(open(replay))
        inp = v["input"]
        run_fixture(rep, inp.get("fixture", "replay"), inp["files"], tier, rng, seen, replay_fault=inp["fault"],
                    extras=[tuple(x) for x in inp.get("extras", [])])
    else:
        run_fixture(rep, "small", FIXTURE_SMALL, tier, rng, seen, extras=EXTRAS_SMALL)
        if tier == "thorough":
            run_fixture(rep, "gen20", gen_fixture(rng, 20, big=True), tier, rng, seen,
                        extras=[["hardlink", "big.lua", "big.lua.orig"], ["hardlink", "f01.lua", "f01.lua.orig"]])
            run_fixture(rep, "gen6", gen_fixture(rng, 6), tier, rng, seen, extras=[["hardlink", "f02.lua", "snapshot.f02"]])
        else:
            run_fixture(rep, "gen3", gen_fixture(rng, 3, big=True), tier, rng, seen, light=True,
                        extras=[["hardlink", "big.lua", "big.lua.orig"], ["hardlink", "f01.lua", "f01.lua.orig"]])
    rep.r["rule"] = ("one case = one run of the real `luafmt --write <dir> [<symlinked files>]` on a fresh copy of a fixture directory "
                     "(hand-written fixture with file-system variety: a file with a second hard link, a file reached only through a "
                     "symlink, a symlinked directory, a read-only file, a file in a read-only directory, CRLF, empty, already "
                     "formatted; seeded generated directories with sub-directories, hard links and a file >= 8 KiB) with one "
                     "injected fault: SIGKILL on entry of every file syscall of the run (k-th invocation of each syscall name), an errno injected into the "
                     "K-th call of each of openat/write/fsync/fchmod/close/rename/unlink, RLIMIT_FSIZE = L with SIGXFSZ ignored "
                     "(EFBIG after a partial write) or default (killed mid-file); a case is non-trivial when the fault actually fired "
                     "and the process had already issued a file syscall inside the work directory; distinct by (fixture, fault). "
                     "Oracle per run: every pre-existing path incl. the other hard-link name holds complete old or complete new "
                     "content, symlinks stay symlinks, and a run that was not killed exits non-zero when a file was not rewritten")
    shutil.rmtree(WORK, ignore_errors=True)
    with open(out, "w") as f:
        json.dump(rep.r, f, indent=1, ensure_ascii=False)


if __name__ == "__main__":
    main()
