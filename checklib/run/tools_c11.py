#!/usr/bin/env python3
"""C11 runner: analysis results do not depend on hash seeds.

Part A (tie): the real `FileDependencyRelation::get_best_analysis_order` (public through
`LuaDependencyIndex::get_file_dependencies`) on generated dependency graphs (cycles, self loops, metas,
dependencies outside the list, shuffled input order) vs the Lean model `order.best`.
Part B (tie): the real `update_files_by_uri` on fresh analyses (every std HashSet instance has fresh keys):
the returned vector (= the vector handed to `update_index`) vs the model `order.batch`.
Part C (oracle, fresh processes = fresh hash seeds): generated small workspaces (conflicting global
assignments, partial classes, aliases, enums, requires, cycles, meta files) checked N times by the real
`emmylua_check --output-format json` plus once in-process through the library API: the sorted
diagnostics keyed by path must be identical in every run (messages compared modulo the listing order of
members in rendered types: as token multisets).
"""
import os, sys, json, re
sys.path.insert(0, os.path.dirname(os.path.abspath(__file__)))
from tools_lib import *


# ---------------------------------------------------------------- part A: best analysis order
def gen_graph(rng):
    n = rng.pick([0, 1, 2, 2, 3, 3, 4, 5, 6, 8, 12])
    universe = rng.shuffle(range(1, 40))[: n + rng.below(3)]
    ids = universe[:n]
    metas = [v for v in universe if rng.chance(1, 4)]
    deps = []
    dens = rng.pick([0, 1, 2, 3])
    for v in rng.shuffle(universe):
        if rng.chance(1, 3) and dens == 0:
            continue
        ds = [d for d in universe if rng.below(6) < dens and (d != v or rng.chance(1, 5))]
        if ds or rng.chance(1, 3):
            deps.append([v, rng.shuffle(ds)])
    return {"ids": ids, "metas": metas, "deps": deps}


def lst(xs):
    return ",".join(str(x) for x in xs) if xs else "-"


def deps_arg(deps):
    return ";".join(f"{v}:{','.join(str(d) for d in ds)}" for v, ds in deps) if deps else "-"


def part_a(rep, rng, n):
    cases = [gen_graph(rng) for _ in range(n)]
    cases[:0] = [
        {"ids": [1, 2], "metas": [], "deps": [[1, [2]]]},
        {"ids": [1, 2, 3, 4], "metas": [], "deps": [[1, [2]], [2, [1]]]},
        {"ids": [4, 3, 2, 1], "metas": [2, 4], "deps": []},
        {"ids": [3, 1, 2], "metas": [], "deps": [[1, [1]]]},
    ]
    d = workdir("C11_order")
    cp = os.path.join(d, "cases.json")
    json.dump({"cases": cases}, open(cp, "w"))
    rc, out, err = run_proc([VH, "order", cp], timeout=600)
    if rc != 0:
        raise RuntimeError(f"vh-tools order failed: {err[-300:]}")
    real = json.loads(out.strip().splitlines()[-1])["results"]
    model = run_driver([f"order.best {lst(c['ids'])} {lst(c['metas'])} {deps_arg(c['deps'])}" for c in cases])
    for c, r, m in zip(cases, real, model):
        rep.evaluations += 1
        rep.count(f"order.n.{len(c['ids'])}")
        inside = {v: [x for x in ds if x in c["ids"]] for v, ds in c["deps"]}
        cyc = len(r) > 0 and any(True for _ in [0]) and has_cycle(c["ids"], inside)
        rep.count("order.cyclic" if cyc else "order.acyclic")
        if len(c["ids"]) >= 2:
            rep.nontrivial(["A", c])
        want = "ok " + lst(r)
        if m != want:
            rep.mismatch({"input": c, "what": f"get_best_analysis_order impl={r} model={m}"})
        else:
            rep.traces_validated += 1
        # oracle on the implementation: a permutation of the input; every emitted file after its in-list
        # dependencies unless it is on / behind a cycle
        if sorted(r) != sorted(c["ids"]):
            rep.oracle_failure({"input": {"part": "A", "case": c}, "class": None, "what": f"order {r} is not a permutation of {c['ids']}"})
        elif not cyc:
            pos = {v: i for i, v in enumerate(r)}
            for v, ds in inside.items():
                if v in pos:
                    for x in ds:
                        if pos[x] > pos[v]:
                            rep.oracle_failure({"input": {"part": "A", "case": c}, "class": None,
                                                "what": f"file {v} analysed before its dependency {x}: {r}"})
        # same graph, input list permuted: acyclic graphs must give the same order (tie-break determinism)
    rep.sample({"part": "A", "case": cases[4], "order": real[4]})


def has_cycle(ids, inside):
    color = {}
    def dfs(v):
        color[v] = 1
        for x in inside.get(v, []):
            if color.get(x) == 1: return True
            if color.get(x) is None and dfs(x): return True
        color[v] = 2
        return False
    return any(color.get(v) is None and dfs(v) for v in ids)


# ---------------------------------------------------------------- part B: batch order
def part_b(rep, rng, n):
    cases = []
    for _ in range(n):
        k = rng.range(1, 24)
        names = rng.shuffle(range(60))[:k]
        # some uris repeated, some removed (text null)
        ops = [{"name": f"f{x}", "text": None if rng.chance(1, 8) else f"local v{x} = {x}"} for x in names]
        if rng.chance(1, 3):
            ops += [{"name": f"f{rng.pick(names)}", "text": "return 1"}]
        pre = rng.range(0, 5)
        cases.append({"pre": pre, "ops": ops})
    d = workdir("C11_batch")
    cp = os.path.join(d, "cases.json")
    json.dump({"cases": cases}, open(cp, "w"))
    rc, out, err = run_proc([VH, "batch", cp], timeout=600)
    if rc != 0:
        raise RuntimeError(f"vh-tools batch failed: {err[-300:]}")
    real = json.loads(out.strip().splitlines()[-1])["results"]
    # the model sorts whatever iteration order the set had: feed it the updated ids in a shuffled order
    reqs = []
    for c, r in zip(cases, real):
        reqs.append(f"order.batch {lst(rng.shuffle(r['updated_set']))}")
    model = run_driver(reqs)
    for c, r, m in zip(cases, real, model):
        rep.evaluations += 1
        rep.count("batch.files", len(r["returned"]))
        if len(r["returned"]) >= 2:
            rep.nontrivial(["B", c])
        if m != "ok " + lst(r["returned"]):
            rep.mismatch({"input": c, "what": f"update_files_by_uri returned {r['returned']} model={m}"})
        else:
            rep.traces_validated += 1
        if r["returned"] != sorted(r["returned"]) or sorted(r["returned"]) != sorted(r["updated_set"]):
            rep.oracle_failure({"input": {"part": "B", "case": c}, "class": "batch-order-hash-dependent",
                                "what": f"update_files_by_uri hands the pipelines the ids in hash order {r['returned']}"})


# ---------------------------------------------------------------- part C: fresh processes on generated workspaces
def gen_workspace(rng, base):
    nf = rng.range(3, 7)
    names = [f"m{i}" for i in range(nf)]
    bodies = {n: [] for n in names}
    def put(n, text): bodies[n].append(text)
    # conflicting global assignments
    for g in range(rng.range(1, 3)):
        vals = rng.shuffle(["1", '"s"', "true", "{}", "1.5", "function() end"])
        for n in rng.shuffle(names)[: rng.range(2, min(4, nf))]:
            put(n, f"G{g} = {vals.pop()}\n")
        put(rng.pick(names), f"local use_g{g} = G{g}\nprint(use_g{g})\n")
    # a global table built up across files, its rendered type shows up in messages at a misuse site
    for t in range(rng.range(1, 2)):
        owner = rng.shuffle(names)
        put(owner[0], f"T{t} = {{}}\nT{t}.field{t} = 1\n")
        put(owner[1], f"function T{t}.method{t}() end\nprint(T{t}.field{t}, T{t}.nofield)\n")
        if nf > 2:
            put(owner[2], f"T{t}.other{t} = 's'\n")
        put(rng.pick(names), f"---@type boolean\nlocal xt{t} = T{t}\nprint(xt{t})\n---@param n integer\nlocal function ft{t}(n) return n end\nft{t}(T{t})\n")
    # the `X = X or {}` idiom: every file (re)declares the same global table and adds members
    for t in range(rng.range(1, 2)):
        for n in rng.shuffle(names)[: rng.range(2, nf)]:
            put(n, f"S{t} = S{t} or {{}}\nS{t}.f_{n} = 1\nfunction S{t}.m_{n}() end\n")
        put(rng.pick(names), f"---@type boolean\nlocal xs{t} = S{t}\nprint(xs{t})\nprint(S{t}.f_m0, S{t}.f_m1, S{t}.nofield)\n")
    # conflicting annotated globals
    if rng.chance(2, 3):
        a, b, c = (rng.shuffle(names) * 2)[:3]
        put(a, "---@type integer\nAG = 1\n")
        put(b, "---@type string\nAG = 's'\n")
        put(c, "---@type boolean\nlocal xa = AG\nprint(xa)\nlocal ua = AG:upper()\nprint(ua)\n")
    # annotated global vs assignments elsewhere
    if rng.chance(2, 3):
        a, b = rng.shuffle(names)[:2]
        put(a, "---@type string\nTypedG = 'x'\n")
        put(b, "TypedG = 1\n")
    # partial classes split across files
    for c in range(rng.range(1, 2)):
        parts = rng.shuffle(names)[: rng.range(2, min(3, nf))]
        for i, n in enumerate(parts):
            put(n, f"---@class (partial) P{c}\n---@field f{i} {'number' if i % 2 == 0 else 'string'}\nlocal P{c}_{i} = {{}}\nfunction P{c}_{i}:m{i}() return self.f{i} end\n")
        put(rng.pick(names), f"---@type P{c}\nlocal p{c}\nprint(p{c}.f0, p{c}.f1, p{c}.nope)\nlocal s{c}_ = p{c}.f0\n---@type boolean\nlocal bb{c} = p{c}.f1\nprint(bb{c}, s{c}_)\n")
    # duplicate (non-partial) class / alias / enum definitions in several files
    if rng.chance(2, 3):
        a, b = rng.shuffle(names)[:2]
        put(a, "---@class Dup\n---@field a number\nlocal Dup = {}\nprint(Dup)\n")
        put(b, "---@class Dup\n---@field b string\nlocal Dup2 = {}\nprint(Dup2)\n")
    if rng.chance(2, 3):
        a, b = rng.shuffle(names)[:2]
        put(a, "---@alias Al string|number\n")
        put(b, "---@alias Al boolean\n---@type Al\nlocal al = {}\nprint(al)\n")
    if rng.chance(1, 2):
        a, b = rng.shuffle(names)[:2]
        put(a, "---@enum En\nlocal En = { A = 1, B = 2 }\nprint(En)\n")
        put(b, "---@type En\nlocal e = 3\nprint(e)\n---@param x En\nlocal function fe(x) return x end\nfe('no')\n")
    # requires, with a cycle and module return types used across files
    order = rng.shuffle(names)
    for i, n in enumerate(order):
        if rng.chance(2, 3):
            t = order[(i + 1) % nf]
            put(n, f"local r_{t} = require('{t}')\nprint(r_{t}.value + 1, r_{t}.missing)\n")
    for n in names:
        kind = rng.below(3)
        if kind == 0:
            bodies[n].append(f"return {{ value = '{n}' }}\n")
        elif kind == 1:
            bodies[n].append(f"local M = {{}}\nM.value = {rng.below(9)}\nreturn M\n")
    files = {}
    for n in names:
        body = "".join(bodies[n])
        if rng.chance(1, 5):
            body = "---@meta\n" + body
        files[f"main/{n}.lua"] = body
    files["lib/libdef.lua"] = "---@class LibT\n---@field z number\nLibGlobal = 1\n"
    # a require cycle whose two members both (re)declare and extend the same global table (the lua pipeline's
    # cycle tail decides which member is analysed first)
    user = rng.pick(names)
    files["main/cyc_a.lua"] = ("local other = require('cyc_b')\nCy = Cy or {}\nCy.from_a = 1\nfunction Cy.fa() return other end\n"
                               "return { a = 1 }\n")
    files["main/cyc_b.lua"] = ("local other = require('cyc_a')\nCy = Cy or {}\nCy.from_b = 's'\nfunction Cy.fb() return other end\n"
                               "return { b = 2 }\n")
    if rng.chance(1, 2):
        files["main/cyc_c.lua"] = "local a = require('cyc_a')\nCy = Cy or {}\nCy.from_c = true\nlocal self_ = require('cyc_c')\nreturn { a, self_ }\n"
    def prepend(name, text):      # before any `return`, after a `---@meta` line
        body = files[f"main/{name}.lua"]
        if body.startswith("---@meta\n"):
            files[f"main/{name}.lua"] = "---@meta\n" + text + body[len("---@meta\n"):]
        else:
            files[f"main/{name}.lua"] = text + body
    prepend(user, "---@type boolean\nlocal xcy = Cy\nprint(xcy, Cy.from_a, Cy.from_b, Cy.nofield)\n---@param n integer\nlocal function fcy(n) return n end\nfcy(Cy)\n")
    # two (or three) library workspaces with interacting definitions (context order = library workspace id)
    # library roots are configured in shuffled order, so which root gets the lower workspace id varies
    def libfile(i, ty, val, extra=""):
        return (f"LibTab = LibTab or {{}}\nLibTab.m{i} = {val}\n---@class (partial) LibC\n---@field p{i} {ty}\n"
                f"---@type {ty}\nLG = {val}\nfunction LF() return {val} end\n{extra}return {{ v{i} = {val} }}\n")
    cross = ("local r1 = require('la')\nlocal r3 = require('lc')\nReqL1 = r1\nReqL3 = r3\n---@type LibC\nlocal lcc\n"
             "FieldL1 = lcc.p1\nFieldL3 = lcc.p3\n")
    files["lib1/la.lua"] = libfile(1, "string", "'s'")
    files["lib2/lb.lua"] = libfile(2, "integer", "1", cross)      # lib2 uses what lib1 / lib3 declare
    libs = ["@BASE@/lib", "@BASE@/lib1", "@BASE@/lib2"]
    if rng.chance(2, 3):
        files["lib3/lc.lua"] = libfile(3, "boolean", "true")
        libs.append("@BASE@/lib3")
    user2 = rng.pick(names)
    prepend(user2, "---@type boolean\nlocal xlt = LibTab\nprint(xlt, LibTab.m1, LibTab.m2, LibTab.none_)\n"
                   "---@type table\nlocal xlg = LG\nprint(xlg)\n---@type LibC\nlocal lc\n---@type table\nlocal xp = lc.p1\nprint(xp, lc.p2, lc.p9)\n"
                   "---@type table\nlocal xr1 = ReqL1\n---@type table\nlocal xr3 = ReqL3\n---@type table\nlocal xf1 = FieldL1\n---@type table\nlocal xf3 = FieldL3\n"
                   "---@type table\nlocal xlf = LF()\nprint(xr1, xr3, xf1, xf3, xlf)\n"
                   "---@param n integer\nlocal function flt(n) return n end\nflt(LibTab)\nflt(LG)\n")
    files["main/.emmyrc.json"] = json.dumps({"workspace": {"library": rng.shuffle(libs)}})
    write_tree(base, files)
    return {"files": files}


def tokens(msg):
    return tuple(sorted(re.findall(r"[A-Za-z0-9_]+|[^\sA-Za-z0-9_]", msg or "")))


def canon_report(entries, main):
    """[(relative path, [(severity, code, line, col, endline, endcol, message-token-multiset)] sorted)] sorted"""
    out = {}
    for path, ds in entries:
        rel = os.path.relpath(path, main)
        lst_ = out.setdefault(rel, [])
        for d in ds or []:
            r = d["range"]
            lst_.append([d.get("severity"), str(d.get("code")), r["start"]["line"], r["start"]["character"],
                         r["end"]["line"], r["end"]["character"], list(tokens(d.get("message")))])
    return [[k, sorted(v)] for k, v in sorted(out.items())]


def part_c(rep, rng, nws, nruns):
    check = os.path.join(BINS, "emmylua_check")
    for w in range(nws):
        base = workdir(f"C11_ws{w}")
        spec = gen_workspace(rng, base)
        main = os.path.join(base, "main")
        runs = []
        for r in range(nruns):
            rc, out, err = run_proc([check, main, "--output-format", "json"], cwd=base, timeout=120)
            rep.evaluations += 1
            if rc not in (0, 1):
                rep.oracle_failure({"input": {"part": "C", "workspace": spec}, "class": None, "what": f"emmylua_check exited {rc}: {err[-300:]}"})
                continue
            try:
                repj = json.loads(out) if out.strip() else []
            except Exception as e:
                rep.oracle_failure({"input": {"part": "C", "workspace": spec}, "class": None, "what": f"json report not parseable: {e}"}); continue
            runs.append((rc, canon_report([(e["file"], e["diagnostics"]) for e in repj], main)))
        rc, out, err = run_proc([VH, "diag", main], timeout=120)
        rep.evaluations += 1
        if rc == 0:
            ref = json.loads(out.strip().splitlines()[-1])["files"]
            runs.append((None, canon_report(list(ref.items()), main)))
        ndiag = sum(len(v) for _, v in runs[0][1]) if runs else 0
        rep.count("proc.workspaces"); rep.count("proc.diagnostics_per_run", ndiag)
        rep.count("proc.files", sum(1 for f in spec["files"] if f.startswith("main/") and f.endswith(".lua")))
        rep.count("proc.library_roots", len({f.split("/")[0] for f in spec["files"] if f.startswith("lib")}))
        if ndiag > 0:
            rep.nontrivial(["C", spec["files"]])
        distinct = []
        for rc_, c in runs:
            if c not in distinct:
                distinct.append(c)
        codes = {rc_ for rc_, _ in runs if rc_ is not None}
        if len(distinct) > 1 or len(codes) > 1:
            a, b = distinct[0], distinct[1] if len(distinct) > 1 else distinct[0]
            da = {(f, json.dumps(d)) for f, ds in a for d in ds}
            db = {(f, json.dumps(d)) for f, ds in b for d in ds}
            only_a = sorted(da - db)[:3]; only_b = sorted(db - da)[:3]
            rep.oracle_failure({"input": {"part": "C", "workspace": spec}, "class": "fresh-process-results-differ",
                                "what": f"{len(distinct)} different diagnostic sets over {len(runs)} runs with fresh hash seeds (exit codes {sorted(codes)}); e.g. only in one run: {only_a} / only in another: {only_b}"})
            rep.count("proc.workspaces_nondeterministic")
        else:
            rep.traces_validated += 1
        if w < 2 and runs:
            rep.sample({"part": "C", "files": sorted(spec["files"]), "runs": len(runs),
                        "diagnostics": [[f, [d[:4] for d in ds][:4]] for f, ds in runs[0][1]][:4]})


def main():
    a = Args(sys.argv[1:])
    rep = Report()
    rep.rule = ("one evaluation = one call of the real get_best_analysis_order (A) / update_files_by_uri (B) or one "
                "fresh-process run of emmylua_check on a generated workspace (C); distinct = distinct canonical inputs; "
                "non-trivial = at least 2 files in the list (A, B) / at least one diagnostic reported (C)")
    rng = Rng(a.seed)
    if a.replay:
        r = json.load(open(a.replay))
        inp = r.get("input") or {}
        if inp.get("part") == "C":
            base = workdir("C11_replay_ws")
            write_tree(base, inp["workspace"]["files"])
            rep.notes.append("replay: workspace re-created under .work/C11_replay_ws; running 12 fresh processes")
            part_c_replay(rep, base, inp["workspace"])
        rep.write(a.out); return
    part_a(rep, rng.fork(), 20000 if a.thorough else 1500)
    part_b(rep, rng.fork(), 2000 if a.thorough else 150)
    part_c(rep, rng.fork(), 40 if a.thorough else 8, 10 if a.thorough else 5)
    rep.write(a.out)


def part_c_replay(rep, base, spec):
    check = os.path.join(BINS, "emmylua_check")
    main_ = os.path.join(base, "main")
    seen = []
    for _ in range(12):
        rc, out, err = run_proc([check, main_, "--output-format", "json"], cwd=base)
        rep.evaluations += 1
        c = canon_report([(e["file"], e["diagnostics"]) for e in (json.loads(out) if out.strip() else [])], main_)
        if c not in seen: seen.append(c)
    if len(seen) > 1:
        rep.oracle_failure({"input": {"part": "C", "workspace": spec}, "class": "fresh-process-results-differ",
                            "what": f"{len(seen)} different diagnostic sets over 12 runs"})


if __name__ == "__main__":
    main()
