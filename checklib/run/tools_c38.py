#!/usr/bin/env python3
"""C38 runner: concurrent read-only queries are race-free.

Static part: the field graph extracted by checklib/gen/tools_autotrait.py (this run) is re-derived here in
python (independently of the Lean model) — every component of EmmyLuaAnalysis must be Send + Sync from its
fields alone, without any `unsafe impl`; the python verdicts are also diffed against the Lean model's
(`C38_*` theorems are checked by `check`; here the extractor's own derivation must agree with the lists
the hook H6 lets rustc check: positive assertions derivable, negative ones not). That vh-tools was built
with `emmylua_code_analysis/verif` means rustc accepted every H6 assertion on this tree.
Dynamic part (oracle): generated cross-file workspaces are loaded once into an Arc<EmmyLuaAnalysis>;
T threads query every file (diagnose_file + semantic info of every name token) simultaneously for R rounds;
every answer must equal the sequential answer.
"""
import os, sys, json, re
sys.path.insert(0, os.path.dirname(os.path.abspath(__file__)))
sys.path.insert(0, os.path.join(os.path.dirname(os.path.dirname(os.path.abspath(__file__))), "gen"))
from tools_lib import *
import tools_c11
import tools_autotrait as at


def static_part(rep):
    g, nodes, unsafe_impls, defs = at.build("/repo")
    order = [at.key_name(k, g) for k in g.order]
    rounds, sol = at.py_rounds(order, nodes)
    pos, neg = at.hook_assertions("/repo")
    base = {}
    for i, k in enumerate(g.order):
        base.setdefault(k[0], []).append(i)
    rep.count("static.nodes", len(order)); rep.count("static.fields", sum(len(n["fields"]) for n in nodes))
    rep.count("static.rounds", rounds)
    # reachability from EmmyLuaAnalysis only (node 0), not through the per-query roots
    reach, todo = set(), [0]
    def succ(t):
        if t[0] == "app": return [t[1]]
        if t[0] == "leaf": return []
        out = []
        for a in t[1]: out += succ(a)
        return out
    while todo:
        i = todo.pop()
        if i in reach: continue
        reach.add(i)
        for f in nodes[i]["fields"]: todo += succ(f)
    rep.count("static.reachable_from_analysis", len(reach))
    for i in sorted(reach):
        rep.evaluations += 1
        rep.nontrivial(["node", order[i], str(nodes[i]["fields"])])
        if not (sol[i][0] and sol[i][1]):
            # which field breaks it
            culprit = [at.lean_term(f) for f in nodes[i]["fields"] if not all(at.py_eval(f, sol))][:2]
            rep.oracle_failure({"input": {"type": order[i], "files": nodes[i]["files"]},
                                "class": "component-send-sync-only-by-unsafe-impl",
                                "what": f"{order[i]} (held by EmmyLuaAnalysis) is not Send + Sync by derivation from its fields (send={sol[i][0]}, sync={sol[i][1]}); offending field terms: {culprit}"})
    # manual unsafe impls on types the shared analysis holds
    for u in unsafe_impls:
        ids = [i for i in base.get(u["type"], []) if i in reach]
        rep.count("static.unsafe_impls_in_source")
        if ids:
            rep.oracle_failure({"input": {"type": u["type"], "file": u["file"]}, "class": "unchecked-send-sync-assertion-on-held-type",
                                "what": f"`unsafe impl {u['trait']} for {u['type']}` ({u['file']}) on a type the shared analysis holds"})
    # the hook's lists vs the derivation (rustc accepted them: vh-tools was built with the feature)
    for t in pos:
        for n in at.outer_names(t):
            for i in base.get(n, []):
                rep.evaluations += 1
                if not (sol[i][0] and sol[i][1]):
                    rep.mismatch({"input": {"type": order[i]}, "what": "rustc (hook H6) says Send + Sync, the derivation model says no"})
                else:
                    rep.traces_validated += 1
    for t in neg:
        for n in at.outer_names(t):
            for i in base.get(n, []):
                rep.evaluations += 1
                if sol[i][0] or sol[i][1]:
                    rep.mismatch({"input": {"type": order[i]}, "what": "rustc (hook H6) says neither Send nor Sync, the derivation model disagrees"})
                else:
                    rep.traces_validated += 1
    # shared mutable state reachable from &EmmyLuaAnalysis (the Lean theorem C38_shared_mutable_allowed is the bridge;
    # here the same list is evaluated against the allow-list text of Props/C38.lean as the implementation-side oracle)
    shared = at.shared_mutable(nodes)
    rep.count("static.shared_mutable_state", len(shared))
    props = open(os.path.join(ROOT, "lean", "EmmyVerif", "Props", "C38.lean")).read()
    m_allow = re.search(r"def allowedSharedMutable : List String := \[(.*?)\]", props, re.S)
    allowed = set(json.loads("[" + m_allow.group(1) + "]")) if m_allow else set()
    for x in shared:
        rep.evaluations += 1
        if x not in allowed:
            rep.oracle_failure({"input": {"shared_state": x}, "class": "unreviewed-shared-mutable-state",
                                "what": f"shared mutable state reachable from concurrent read-only queries and not in the justified allow-list: {x}"})
    rep.sample({"part": "static", "nodes": len(order), "rounds": rounds, "shared_mutable_state": shared,
                "not_thread_safe_by_derivation": [order[i] for i, v in enumerate(sol) if not (v[0] and v[1])][:12],
                "unsafe_impls": [f"{u['trait']} for {u['type']}" for u in unsafe_impls]})


TEMPLATE_TYPES = """---@class Cfg
---@field name string
---@field port integer
---@field on boolean
---@field tags string[]

---@class Point
---@field x number
---@field y number

---@alias Mode "fast"|"slow"
"""

TEMPLATE_PIECES = [
    "---@type Cfg\nlocal cfg{k} = {{ name = 1, port = \"80\", on = \"yes\", tags = {{ 1, 2 }} }}\nprint(cfg{k}.nofield)\n",
    "---@type Cfg[]\nlocal list{k} = {{ {{ name = true, port = 1.5, on = 0 }}, {{ name = \"ok\", port = \"x\", on = 1 }} }}\nprint(list{k})\n",
    "---@type Point\nlocal pt{k} = {{ x = \"a\", y = {{}} }}\nprint(pt{k}.z)\n",
    "---@type table<string, integer>\nlocal map{k} = {{ a = \"x\", b = true, c = 3 }}\nprint(map{k})\n",
    "local unused{k} = 1\nlocal unused_b{k} = {{}}\n",
    "print(undefined_one{k}, undefined_two{k})\n",
    "---@param n integer\n---@param s string\nlocal function f{k}(n, s) return n, s end\nf{k}(\"a\", 2)\nf{k}({{}}, {{}})\n",
    "---@type string\nlocal s{k} = 1\n---@type Mode\nlocal m{k} = \"medium\"\nprint(s{k}, m{k})\n",
    "---@deprecated\nlocal function old{k}() end\nold{k}()\n",
    "---@type Point\nlocal q{k} = {{ x = 1, y = 2 }}\nq{k}.w = 3\nprint(q{k}.x + \"s\")\n",
]


def gen_template_workspace(rng, base):
    """N byte-identical files generated from one template (typed table literals whose fields violate the declared type at
    the same offsets in every copy, unused locals, undefined globals, param mismatches, …) + near-identical variants"""
    pieces = rng.shuffle(TEMPLATE_PIECES)[: rng.range(5, len(TEMPLATE_PIECES))]
    if not any("cfg" in p for p in pieces):
        pieces.insert(0, TEMPLATE_PIECES[0])
    body = "".join(p.format(k=i) for i, p in enumerate(pieces))
    n = rng.range(8, 14)
    files = {"main/types.lua": TEMPLATE_TYPES}
    for i in range(n):
        files[f"main/copy{i:02d}.lua"] = body
    # near-identical: same prefix (same offsets for the first literals), differences further down / in values
    files["main/near_tail.lua"] = body + "local tail_only = undefined_tail\nprint(tail_only)\n"
    files["main/near_value.lua"] = body.replace("port = \"80\"", "port = \"81\"").replace("name = 1", "name = 2")
    files["main/near_fixed.lua"] = body.replace("name = 1, port = \"80\", on = \"yes\", tags = { 1, 2 }",
                                                "name = \"\", port = 8080, on = true,  tags = { \"\" }")
    files["main/shifted.lua"] = "-- one more line\n" + body
    files["main/.emmyrc.json"] = json.dumps({"diagnostics": {"enables": ["undefined-field", "inject-field"]}})
    write_tree(base, files)
    return {"files": files, "template": True}


def dynamic_part(rep, rng, nws, threads, rounds):
    for w in range(nws):
        base = workdir(f"C38_ws{w}")
        template = (w % 2 == 0)
        spec = gen_template_workspace(rng, base) if template else tools_c11.gen_workspace(rng, base)
        main = os.path.join(base, "main")
        rc, out, err = run_proc([VH, "conc", main, str(threads), str(rounds)], timeout=600)
        if rc != 0:
            rep.oracle_failure({"input": {"part": "dynamic", "workspace": spec, "threads": threads, "rounds": rounds}, "class": None,
                                "what": f"concurrent query run died (exit {rc}): {err[-400:]}"})
            continue
        r = json.loads(out.strip().splitlines()[-1])
        rep.evaluations += r["file_queries"]
        rep.count("dynamic.workspaces"); rep.count("dynamic.file_queries", r["file_queries"])
        rep.count("dynamic.answer_lines_per_pass", r["answer_lines"]); rep.count("dynamic.files", r["files"])
        rep.count("dynamic.template_workspaces" if template else "dynamic.crossfile_workspaces")
        rep.count("dynamic.sequential_diagnostics", r["sequential_diagnostics"])
        rep.count("dynamic.lockstep_diagnostics_seen", r["lockstep_diagnostics_seen"])
        for c, k in r["diagnostic_codes"].items():
            rep.count(f"dynamic.code.{c}", k)
        if r["lockstep_diagnostics_seen"] != r["lockstep_diagnostics_expected"]:
            rep.oracle_failure({"input": {"part": "dynamic", "workspace": spec, "threads": threads, "rounds": rounds}, "class": None,
                                "what": f"concurrent diagnose_file calls returned {r['lockstep_diagnostics_seen']} diagnostics in total, sequential calls {r['lockstep_diagnostics_expected']}"})
        if template and (r["sequential_diagnostics"] < 10 * r["files"] // 2 or len(r["diagnostic_codes"]) < 4):
            rep.notes.append(f"template workspace {w} is weak: {r['sequential_diagnostics']} diagnostics, codes {sorted(r['diagnostic_codes'])}")
        if r["answer_lines"] > r["files"]:
            rep.nontrivial(["dyn", spec["files"], threads, rounds])
        if r["failures"]:
            rep.oracle_failure({"input": {"part": "dynamic", "workspace": spec, "threads": threads, "rounds": rounds}, "class": None,
                                "what": f"{r.get('failure_count', len(r['failures']))} concurrent answers differ from the sequential ones, e.g. {json.dumps(r['failures'][0])[:500]}"})
        else:
            rep.traces_validated += r["file_queries"]
        if w == 0:
            rep.sample({"part": "dynamic", "files": sorted(spec["files"]), "threads": threads, "rounds": rounds,
                        "file_queries": r["file_queries"], "answer_lines": r["answer_lines"]})


def main():
    a = Args(sys.argv[1:])
    rep = Report()
    rep.rule = ("static: one evaluation = one type of the extracted field graph reachable from EmmyLuaAnalysis (distinct by name+fields, "
                "all non-trivial) or one H6 assertion compared with the derivation; dynamic: one evaluation = one file queried "
                "(diagnostics + semantic info of every name token) by one thread while the other threads query too; non-trivial = workspace with answers")
    rng = Rng(a.seed)
    static_part(rep)
    if a.replay:
        r = json.load(open(a.replay)); inp = r.get("input") or {}
        if inp.get("part") == "dynamic":
            base = workdir("C38_replay_ws"); write_tree(base, inp["workspace"]["files"])
            rc, out, err = run_proc([VH, "conc", os.path.join(base, "main"), str(inp.get("threads", 8)), str(inp.get("rounds", 8))], timeout=600)
            res = json.loads(out.strip().splitlines()[-1]) if rc == 0 else {"failures": [{"died": err[-300:]}]}
            if res["failures"]:
                rep.oracle_failure({"input": inp, "class": None, "what": f"replay: {json.dumps(res['failures'][0])[:400]}"})
        rep.write(a.out); return
    if a.thorough:
        dynamic_part(rep, rng.fork(), 80, 16, 6)
    else:
        dynamic_part(rep, rng.fork(), 10, 10, 4)
    rep.write(a.out)


if __name__ == "__main__":
    main()
