#!/usr/bin/env python3
"""T-src extractor for C27: which notifications `dispatch_notification!` handles inline (`sync:` block, awaited by
the main loop before the next message is taken) and which are `tokio::spawn`ed (`async:` block).
Reads the macro *invocation* in crates/emmylua_ls/src/handlers/notification_handler.rs and checks that the macro
definition still awaits the sync handlers in place and spawns the async ones.
Output: lean/EmmyVerif/Gen/SchedDispatch.lean"""
import os, re, json, sys

SRC = "crates/emmylua_ls/src/handlers/notification_handler.rs"


def strip_comments(s):
    s = re.sub(r"/\*.*?\*/", "", s, flags=re.S)
    return re.sub(r"//.*", "", s)


def block(s, start):
    """text of the {...} block starting at s[start] == '{'"""
    d = 0
    for i in range(start, len(s)):
        if s[i] == "{":
            d += 1
        elif s[i] == "}":
            d -= 1
            if d == 0:
                return s[start + 1:i], i
    raise RuntimeError("unbalanced braces")


def extract(repo):
    s = strip_comments(open(os.path.join(repo, SRC), encoding="utf-8").read())
    m = re.search(r"macro_rules!\s*dispatch_notification\s*\{", s)
    if not m:
        raise RuntimeError("dispatch_notification! macro not found")
    mdef, mend = block(s, m.end() - 1)
    # definition: the sync arm awaits the handler directly, the async arm wraps it in tokio::spawn
    sync_arm = re.search(r"\$sync_handler\s*\(\s*snapshot\s*,\s*params\s*\)\s*\.await", mdef)
    async_arm = re.search(r"tokio::spawn\s*\(\s*async\s+move\s*\{\s*\$async_handler\s*\(\s*snapshot\s*,\s*params\s*\)\s*\.await", mdef)
    if not sync_arm or not async_arm:
        raise RuntimeError("dispatch_notification! no longer awaits sync handlers in place / spawns async handlers")
    if "tokio::spawn" in mdef[:sync_arm.start()].split("$(")[-1]:
        raise RuntimeError("sync arm of dispatch_notification! is wrapped in a spawn")
    inv = re.search(r"dispatch_notification!\s*\(", s[mend:])
    if not inv:
        raise RuntimeError("dispatch_notification! invocation not found")
    body = s[mend + inv.end():]
    ms = re.search(r"\bsync\s*:\s*\{", body)
    ma = re.search(r"\basync\s*:\s*\{", body)
    if not ms or not ma:
        raise RuntimeError("sync:/async: blocks not found in the invocation")
    sb, _ = block(body, ms.end() - 1)
    ab, _ = block(body, ma.end() - 1)
    pair = re.compile(r"([A-Za-z_]\w*)\s*=>\s*([A-Za-z_]\w*)")
    return {"sync": pair.findall(sb), "async": pair.findall(ab)}


TD = "crates/emmylua_ls/src/handlers/text_document/text_document_handler.rs"
WM = "crates/emmylua_ls/src/context/workspace_manager.rs"


def fn_body(s, name):
    m = re.search(r"\bfn\s+" + name + r"\b([^{;]*)\{", s)
    if not m:
        raise RuntimeError(f"fn {name} not found")
    body, _ = block(s, m.end() - 1)
    return m.group(1), body


def extract_versions(repo):
    """C27 quantifies over notification sequences, not over LSP version numbers: the model's handlers have no
    version-dependent behaviour. Check the source agrees:
      * the three document handlers never read a `version` (no identifier containing `version` except the
        workspace-diagnostic `update_workspace_version`, no `.version`);
      * `sync_open_file` / `close_open_file` take no version, return nothing and are unconditional (no `if`, `match`,
        `return`, `?`), and the only `*version*` name they touch is `open_file_state_version` (the C29 counter);
      * the handlers call them as plain statements (never inside a condition)."""
    td = strip_comments(open(os.path.join(repo, TD), encoding="utf-8").read())
    wm = strip_comments(open(os.path.join(repo, WM), encoding="utf-8").read())
    reads_version = []
    for h in ("on_did_open_text_document", "on_did_change_text_document", "on_did_close_document"):
        _, b = fn_body(td, h)
        names = set(re.findall(r"\b\w*[vV]ersion\w*\b", b)) - {"update_workspace_version"}
        if names:
            reads_version.append(f"{h}: {sorted(names)}")
        if re.search(r"\b(if|while|match)\b[^;{]*\b(sync_open_file|close_open_file)\s*\(", b) or \
                re.search(r"=\s*[\w\.]*\b(sync_open_file|close_open_file)\s*\(", b):
            reads_version.append(f"{h}: result of sync_open_file/close_open_file is used")
    conditional = []
    for f in ("sync_open_file", "close_open_file"):
        sig, b = fn_body(wm, f)
        if "->" in sig or re.search(r"\bversion\b", sig):
            conditional.append(f"{f}: signature `{' '.join(sig.split())}`")
        if re.search(r"\b(if|match|return|while|for)\b|\?", b):
            conditional.append(f"{f}: body is not straight-line")
        names = set(re.findall(r"\b\w*[vV]ersion\w*\b", b)) - {"open_file_state_version"}
        if names:
            conditional.append(f"{f}: touches {sorted(names)}")
    return {"handlers_read_version": reads_version, "sync_close_conditional": conditional}


def generate(root, repo, log):
    d = extract(repo)
    v = extract_versions(repo)
    d["versions"] = v
    q = lambda xs: "[" + ", ".join('"%s"' % x for x in xs) + "]"
    text = "\n".join([
        "/-! GENERATED by checklib/gen/sched_dispatch.py from " + SRC + " on every run — do not edit. -/",
        "namespace Gen", "",
        "/-- notifications handled inline by the main loop (`sync:` block of `dispatch_notification!`) -/",
        "def syncNotifications : List String := " + q([a for a, _ in d["sync"]]), "",
        "/-- notifications whose handler is `tokio::spawn`ed (`async:` block) -/",
        "def asyncNotifications : List String := " + q([a for a, _ in d["async"]]), "",
        "/-- handler fn per notification -/",
        "def notificationHandlers : List (String × String) := [" + ", ".join('("%s", "%s")' % p for p in d["sync"] + d["async"]) + "]",
        "",
        "/-- the document handlers read an LSP `version` / `sync_open_file`·`close_open_file` are conditional or version-aware -/",
        "def docHandlersReadVersion : Bool := " + ("true" if v["handlers_read_version"] else "false"),
        "def syncOpenFileConditional : Bool := " + ("true" if v["sync_close_conditional"] else "false"),
        "", "end Gen", ""])
    out = os.path.join(root, "lean", "EmmyVerif", "Gen", "SchedDispatch.lean")
    os.makedirs(os.path.dirname(out), exist_ok=True)
    if not os.path.exists(out) or open(out).read() != text:
        open(out, "w").write(text)
    os.makedirs(os.path.join(root, ".work"), exist_ok=True)
    json.dump(d, open(os.path.join(root, ".work", "sched_dispatch.json"), "w"))
    log.append(f"sched_dispatch: sync={[a for a, _ in d['sync']]} async={[a for a, _ in d['async']]}")
    return {"sync": [a for a, _ in d["sync"]], "async": [a for a, _ in d["async"]], "versions": v}


if __name__ == "__main__":
    print(extract(sys.argv[1] if len(sys.argv) > 1 else "/repo"))
    print(extract_versions(sys.argv[1] if len(sys.argv) > 1 else "/repo"))
