"""T-exec generator for C03: builds the `vh-syntax` harness against /repo's working tree and lets it evaluate the
real operator tables (`LuaOpKind::to_unary_operator` / `to_binary_operator` over every `LuaTokenKind`,
`BinaryOperator::get_priority` = `PRIORITY[op]`, `UNARY_PRIORITY`) and `LexerConfig::new(level).support(f)` for
every level x feature; writes lean/EmmyVerif/Gen/ClimbTable.lean and FeaturesTable.lean.
T-src part: the local constant `TERNARY_LEFT` of `parse_sub_expr` and the variant counts of the enums are read
from the Rust text and cross-checked against what the execution enumerated."""
import os, re, subprocess, fcntl


def _variants(src, enum_name):
    m = re.search(r"pub enum " + enum_name + r"\s*\{(.*?)\n\}", src, re.S)
    if not m:
        raise RuntimeError(f"enum {enum_name} not found")
    body = re.sub(r"//.*", "", m.group(1))
    return [v for v in re.findall(r"^\s*([A-Za-z_][A-Za-z0-9_]*)\s*(?:=\s*\d+\s*)?,", body, re.M)]


def generate(root, repo, log):
    kind = os.path.join(repo, "crates/emmylua_parser/src/kind")
    expr_rs = open(os.path.join(repo, "crates/emmylua_parser/src/grammar/lua/expr.rs")).read()
    m = re.search(r"const\s+TERNARY_LEFT\s*:\s*i32\s*=\s*(-?\d+)\s*;", expr_rs)
    if not m:
        raise RuntimeError("TERNARY_LEFT not found in grammar/lua/expr.rs")
    ternary_left = int(m.group(1))
    counts = {
        "LuaTokenKind": len(_variants(open(os.path.join(kind, "lua_token_kind.rs")).read(), "LuaTokenKind")),
        "BinaryOperator": len(_variants(open(os.path.join(kind, "lua_operator_kind.rs")).read(), "BinaryOperator")),
        "UnaryOperator": len(_variants(open(os.path.join(kind, "lua_operator_kind.rs")).read(), "UnaryOperator")),
        "LuaFeatures": len(_variants(open(os.path.join(kind, "lua_features.rs")).read(), "LuaFeatures")),
        "LuaLanguageLevel": len(_variants(open(os.path.join(kind, "lua_language_level.rs")).read(), "LuaLanguageLevel")),
    }
    # T-src: every word `name_to_kind` matches on
    lexer_rs = open(os.path.join(repo, "crates/emmylua_parser/src/lexer/lua_lexer.rs")).read()
    m = re.search(r"fn name_to_kind\(.*?\n    \}\n", lexer_rs, re.S)
    if not m:
        raise RuntimeError("name_to_kind not found in lexer/lua_lexer.rs")
    words = []
    for w in re.findall(r'"([A-Za-z_]+)"\s*(?:\|\s*"[A-Za-z_]+"\s*)*(?:if[^=]*)?=>', m.group(0)):
        if w not in words:
            words.append(w)
    for w in re.findall(r'\|\s*"([A-Za-z_]+)"', m.group(0)):
        if w not in words:
            words.append(w)
    if len(words) < 20:
        raise RuntimeError(f"only {len(words)} keyword strings found in name_to_kind")
    harness = os.path.join(root, "harness")
    lock = open(os.path.join(root, ".locks", "cargo"), "w")
    fcntl.flock(lock, fcntl.LOCK_EX)
    try:
        p = subprocess.run(["cargo", "build", "-q", "-p", "vh-syntax"], cwd=harness, stdout=subprocess.PIPE,
                           stderr=subprocess.STDOUT, text=True, env=dict(os.environ, CARGO_NET_OFFLINE="true"))
    finally:
        fcntl.flock(lock, fcntl.LOCK_UN)
        lock.close()
    log.append(p.stdout[-3000:])
    if p.returncode != 0:
        raise RuntimeError("vh-syntax does not build against /repo: " + p.stdout[-800:])
    gen_dir = os.path.join(root, "lean", "EmmyVerif", "Gen")
    os.makedirs(gen_dir, exist_ok=True)
    p = subprocess.run([os.path.join(harness, "target", "debug", "vh-syntax"), "gen-tables", gen_dir, str(ternary_left), ",".join(words)],
                       stdout=subprocess.PIPE, stderr=subprocess.STDOUT, text=True)
    if p.returncode != 0:
        raise RuntimeError("vh-syntax gen-tables failed: " + p.stdout[-800:])
    changed = []
    texts = {}
    for name in ("ClimbTable.lean", "FeaturesTable.lean", "FeaturesKeywords.lean"):
        new = os.path.join(gen_dir, name + ".new")
        s = open(new).read()
        os.remove(new)
        texts[name] = s
        dst = os.path.join(gen_dir, name)
        if not os.path.exists(dst) or open(dst).read() != s:
            open(dst, "w").write(s)
            changed.append(name)

    def ctor_count(text, ind):
        m = re.search(r"inductive " + ind + r"\n(.*?)\n  deriving", text, re.S)
        return len(re.findall(r"\|\s*\S+", m.group(1)))
    got = {
        "LuaTokenKind": ctor_count(texts["ClimbTable.lean"], "Tok"),
        "BinaryOperator": ctor_count(texts["ClimbTable.lean"], "BinOp"),
        "UnaryOperator": ctor_count(texts["ClimbTable.lean"], "UnOp"),
        "LuaFeatures": ctor_count(texts["FeaturesTable.lean"], "Feature"),
        "LuaLanguageLevel": ctor_count(texts["FeaturesTable.lean"], "Level"),
    }
    if got != counts:
        raise RuntimeError(f"enumeration by execution {got} disagrees with the enum declarations in the source {counts}")
    return {"tables": ["Gen/ClimbTable.lean", "Gen/FeaturesTable.lean", "Gen/FeaturesKeywords.lean"], "rewritten": changed,
            "keyword_words": words,
            "ternary_left": ternary_left, "enum_variants": counts,
            "rows": {"token_kinds": got["LuaTokenKind"], "binary_operators": got["BinaryOperator"],
                     "level_x_feature": got["LuaLanguageLevel"] * got["LuaFeatures"]}}
