"""Shared helpers of the determinism/tools cluster generators / pre-steps / runners."""
import os, subprocess, fcntl, json

def locked(root, name):
    class L:
        def __enter__(s):
            p = os.path.join(root, ".locks", name)
            os.makedirs(os.path.dirname(p), exist_ok=True)
            s.f = open(p, "w"); fcntl.flock(s.f, fcntl.LOCK_EX)
        def __exit__(s, *a):
            fcntl.flock(s.f, fcntl.LOCK_UN); s.f.close()
    return L()

def build_vh_tools(root, log):
    """cargo build the in-process helper (against /repo's working tree); returns its path"""
    env = dict(os.environ); env["CARGO_NET_OFFLINE"] = "true"
    with locked(root, "cargo"):
        p = subprocess.run(["cargo", "build", "-q", "-p", "vh-tools"], cwd=os.path.join(root, "harness"),
                           stdout=subprocess.PIPE, stderr=subprocess.STDOUT, text=True, env=env, timeout=3000)
    log.append(p.stdout[-3000:])
    if p.returncode != 0:
        errs = [l for l in p.stdout.splitlines() if "error" in l][:6]
        raise RuntimeError("vh-tools does not build against /repo: " + " | ".join(errs))
    return os.path.join(root, "harness", "target", "debug", "vh-tools")

def write_if_changed(path, s):
    os.makedirs(os.path.dirname(path), exist_ok=True)
    if not os.path.exists(path) or open(path).read() != s:
        open(path, "w").write(s)
