"""T-src generator for C38: extracts the field graph of `EmmyLuaAnalysis` (every struct / enum / type alias
reachable through field types, across emmylua_code_analysis and emmylua_parser) from the Rust source text and
writes lean/EmmyVerif/Gen/AutoTraitGraph.lean. Also extracts every manual `unsafe impl Send/Sync` and the
assertion list of hook H6 (src/verif_send_sync.rs), and cross-checks the hook's completeness.

Types outside the two crates are resolved through LEAVES (std / third-party leaf and container table with
their auto-trait rules). An unknown type name makes the generator fail (= tie broken) naming the type.
"""
import os, re, sys, json
sys.path.insert(0, os.path.dirname(os.path.abspath(__file__)))
from tools_common import write_if_changed

CRATES = ["crates/emmylua_code_analysis/src", "crates/emmylua_parser/src"]
ROOT_TYPE = "EmmyLuaAnalysis"
NEGATIVE_ROOTS = ["SemanticModel", "LuaChunk", "LuaSyntaxNode"]

# ---- leaf / container table: name -> rule
#  both   : Send iff all args Send, Sync iff all args Sync (owning containers, tuples, Option, Box<T>, …)
#  ss     : Send + Sync unconditionally (plain data; type arguments, if any, are not stored)
#  arc    : Send iff T: Send+Sync ; Sync iff T: Send+Sync
#  mutex  : Send iff T: Send ; Sync iff T: Send
#  rwlock : Send iff T: Send ; Sync iff T: Send+Sync
#  cell   : Send iff T: Send ; never Sync          (Cell, RefCell, UnsafeCell, OnceCell)
#  none   : neither Send nor Sync                   (Rc, raw pointers, rowan cursor nodes)
#  phantom: like `both` (PhantomData<T> is Send/Sync iff T is)
LEAVES = {
    # primitives and plain std data
    **{k: "ss" for k in """bool char str u8 u16 u32 u64 u128 usize i8 i16 i32 i64 i128 isize f32 f64 String PathBuf Path
        OsString Duration Instant SystemTime AtomicBool AtomicUsize AtomicU32 AtomicU64 AtomicI64 Ordering TypeId
        NonZeroU32 NonZeroUsize Infallible""".split()},
    # std containers
    **{k: "both" for k in """Vec VecDeque Option Result Box HashMap HashSet BTreeMap BTreeSet BinaryHeap Range
        RangeInclusive Cow Reverse IndexMap IndexSet SmallVec""".split()},
    "PhantomData": "phantom",
    "Arc": "arc", "Weak": "arc",
    "ArcIntern": "arc",         # internment::ArcIntern<T>: Send/Sync iff T: Send + Sync
    "FlagSet": "ss",            # flagset::FlagSet<F>: the flag bits (an integer), no F value stored
    "Mutex": "mutex", "RwLock": "rwlock", "OnceLock": "rwlock", "LazyLock": "rwlock",
    "Cell": "cell", "RefCell": "cell", "UnsafeCell": "cell", "OnceCell": "cell",
    "Rc": "none",
    # third-party leaves (verified against their sources: plain data or Arc-based)
    "SmolStr": "ss",            # smol_str: inline bytes or Arc<str>
    "TextRange": "ss", "TextSize": "ss",   # text-size: u32 pairs
    "GreenNode": "ss", "GreenToken": "ss", # rowan green tree: ThinArc with unsafe impl Send+Sync in rowan
    "NodeCache": "ss",          # rowan::NodeCache: hash tables of green elements
    "SyntaxNode": "none", "SyntaxToken": "none", "SyntaxElement": "none", "SyntaxNodeChildren": "none",  # rowan cursor: Rc-like, !Send
    "NodeOrToken": "both",
    "Regex": "ss", "Uri": "ss", "Url": "ss", "Value": "ss", "Number": "ss", "Map": "both",
    "InternalString": "ss", "Glob": "ss", "GlobSet": "ss", "GlobMatcher": "ss", "WildMatch": "ss",
    "DiagnosticSeverity": "ss", "DiagnosticTag": "ss", "Diagnostic": "ss", "Position": "ss", "LspRange": "ss",
    "NumberOrString": "ss", "Location": "ss", "Encoding": "ss", "Schema": "ss", "RootSchema": "ss",
    "CancellationToken": "ss", "Ordered": "both", "OrderedFloat": "both", "NotNan": "both",
    "InlineString": "ss", "CompactString": "ss", "Locale": "ss",
}

KW = {"pub", "crate", "super", "self", "in"}


def strip_comments(src):
    out, i, n = [], 0, len(src)
    while i < n:
        c = src[i]
        if src.startswith("//", i):
            j = src.find("\n", i); j = n if j < 0 else j
            i = j; continue
        if src.startswith("/*", i):
            depth, i = 1, i + 2
            while i < n and depth:
                if src.startswith("/*", i): depth += 1; i += 2
                elif src.startswith("*/", i): depth -= 1; i += 2
                else: i += 1
            continue
        if c == '"':
            j = i + 1
            while j < n and src[j] != '"':
                j += 2 if src[j] == "\\" else 1
            out.append('""'); i = j + 1; continue
        if c == "r" and re.match(r'r#*"', src[i:i + 6]):
            m = re.match(r'r(#*)"', src[i:])
            end = src.find('"' + m.group(1), i + len(m.group(0)))
            out.append('""'); i = (end + 1 + len(m.group(1))) if end >= 0 else n; continue
        if c == "'" and re.match(r"'(\\.|[^\\'])'", src[i:i + 4]):
            m = re.match(r"'(\\.|[^\\'])'", src[i:])
            out.append("' '"); i += len(m.group(0)); continue
        out.append(c); i += 1
    return "".join(out)


def match_close(s, i, open_c, close_c):
    depth = 0
    while i < len(s):
        if s[i] == open_c: depth += 1
        elif s[i] == close_c:
            depth -= 1
            if depth == 0: return i
        i += 1
    raise ValueError("unbalanced")


def split_top(s, sep=","):
    parts, depth, cur = [], 0, []
    i = 0
    while i < len(s):
        c = s[i]
        if c in "<([{": depth += 1
        elif c in ">)]}":
            if c == ">" and i > 0 and s[i - 1] == "-": pass   # `->`
            else: depth -= 1
        if c == sep and depth == 0:
            parts.append("".join(cur)); cur = []
        else:
            cur.append(c)
        i += 1
    if "".join(cur).strip(): parts.append("".join(cur))
    return [p.strip() for p in parts if p.strip()]


def strip_attrs(s):
    out, i = [], 0
    while i < len(s):
        if s[i] == "#" and i + 1 < len(s) and s[i + 1] == "[":
            i = match_close(s, i + 1, "[", "]") + 1; continue
        out.append(s[i]); i += 1
    return "".join(out)


# ---------------------------------------------------------------- type expressions
def parse_type(t):
    """-> nested tuples: ('path', name, [args]) | ('tuple', [..]) | ('ref', T) | ('slice', T) | ('fn',) |
    ('dyn', text) | ('ptr',) | ('never',)"""
    t = t.strip()
    if t.startswith("&"):
        t2 = re.sub(r"^&\s*('\w+\s*)?(mut\s+)?", "", t)
        return ("ref", parse_type(t2))
    if t.startswith("*const") or t.startswith("*mut"):
        return ("ptr",)
    if t == "!": return ("never",)
    if t.startswith("("):
        end = match_close(t, 0, "(", ")")
        if end == len(t) - 1:
            return ("tuple", [parse_type(x) for x in split_top(t[1:-1])])
    if t.startswith("["):
        inner = t[1:match_close(t, 0, "[", "]")]
        return ("slice", parse_type(split_top(inner, ";")[0]))
    if re.match(r"^(unsafe\s+)?(extern\s+\"\"\s+)?fn\s*\(", t) or re.match(r"^for\s*<", t):
        return ("fn",)
    if t.startswith("dyn ") or t.startswith("impl "):
        return ("dyn", t)
    # path with optional generics on the last segment
    m = re.match(r"^([\w:]+?)(?:::)?\s*(<.*>)?$", t, re.S)
    if not m:
        raise ValueError(f"cannot parse type `{t}`")
    path, gen = m.group(1), m.group(2)
    name = path.split("::")[-1]
    args = []
    if gen:
        for a in split_top(gen[1:-1]):
            if a.startswith("'"): continue            # lifetime
            if re.match(r"^\w+\s*=", a): a = a.split("=", 1)[1]   # assoc type binding
            if re.match(r"^\d+$", a): continue        # const generic
            args.append(parse_type(a))
    return ("path", name, args)


# ---------------------------------------------------------------- definitions
INTERIOR = {"Mutex", "RwLock", "OnceLock", "LazyLock", "Cell", "RefCell", "UnsafeCell", "OnceCell", "Lazy", "DashMap", "DashSet",
            "ArcSwap", "ArcSwapOption", "SegQueue", "ArrayQueue", "ShardedLock", "ReentrantMutex", "FairMutex", "Condvar", "Once"}
STATICS = []


def is_interior(name):
    return name in INTERIOR or name.startswith("Atomic")


def interior_kinds(t):
    """interior-mutability type constructors mentioned anywhere in a parsed type"""
    out = set()
    if t[0] == "path":
        if is_interior(t[1]): out.add(t[1])
        for a in t[2]: out |= interior_kinds(a)
    elif t[0] in ("ref", "slice"):
        out |= interior_kinds(t[1])
    elif t[0] == "tuple":
        for a in t[1]: out |= interior_kinds(a)
    elif t[0] == "dyn":
        out |= {n for n in re.findall(r"\w+", t[1]) if is_interior(n)}
    return out


def find_defs(src, origin, defs, unsafe_impls):
    src = strip_attrs(strip_comments(src))
    for m in re.finditer(r"\bstatic\s+(mut\s+)?([A-Z_][A-Z0-9_]*)\s*:\s*([^=;]+)[=;]", src):
        kinds = sorted({n for n in re.findall(r"\w+", m.group(3)) if is_interior(n)})
        if m.group(1): kinds = ["static mut"] + kinds
        if kinds:
            STATICS.append(f"static {origin}::{m.group(2)}: {'+'.join(kinds)}")
    for m in re.finditer(r"\bthread_local!", src):
        STATICS.append(f"thread_local in {origin}")
    for m in re.finditer(r"unsafe\s+impl\s*(<[^{]*?>)?\s*(Send|Sync)\s+for\s+([\w:]+)", src):
        unsafe_impls.append({"trait": m.group(2), "type": m.group(3).split("::")[-1], "file": origin})
    for m in re.finditer(r"\b(struct|enum|union)\s+(\w+)\s*", src):
        kind, name = m.group(1), m.group(2)
        i = m.end()
        generics = []
        if i < len(src) and src[i] == "<":
            j = i; depth = 0
            while True:
                if src[j] == "<": depth += 1
                elif src[j] == ">" and src[j - 1] != "-":
                    depth -= 1
                    if depth == 0: break
                j += 1
            for g in split_top(src[i + 1:j]):
                if g.startswith("'") or g.startswith("const "): continue
                generics.append(re.match(r"\w+", g).group(0))
            i = j + 1
        # skip where clause
        rest = src[i:]
        mw = re.match(r"\s*(where[^{;(]*)?", rest)
        i += mw.end()
        if i >= len(src): continue
        fields, labels = [], []
        if src[i] == "{":
            end = match_close(src, i, "{", "}")
            body = src[i + 1:end]
            if kind == "enum":
                for v in split_top(body):
                    mv = re.match(r"^(\w+)\s*(.*)$", v, re.S)
                    if not mv: continue
                    tail = mv.group(2).strip()
                    if tail.startswith("("):
                        inner = tail[1:match_close(tail, 0, "(", ")")]
                        for j, x in enumerate(split_top(inner)):
                            fields.append(re.sub(r"^pub(\([^)]*\))?\s+", "", x)); labels.append(f"{mv.group(1)}.{j}")
                    elif tail.startswith("{"):
                        inner = tail[1:match_close(tail, 0, "{", "}")]
                        for x in split_top(inner):
                            if ":" in x:
                                fields.append(x.split(":", 1)[1].strip()); labels.append(f"{mv.group(1)}.{x.split(':', 1)[0].strip()}")
            else:
                for f in split_top(body):
                    f = re.sub(r"^pub(\s*\([^)]*\))?\s+", "", f)
                    if ":" in f:
                        fields.append(f.split(":", 1)[1].strip()); labels.append(f.split(":", 1)[0].strip())
        elif src[i] == "(":
            end = match_close(src, i, "(", ")")
            fields = [re.sub(r"^pub(\s*\([^)]*\))?\s+", "", x) for x in split_top(src[i + 1:end])]
            labels = [str(j) for j in range(len(fields))]
        elif src[i] == ";":
            fields = []
        else:
            continue
        defs.setdefault(name, []).append({"kind": kind, "generics": generics, "fields": fields, "labels": labels, "file": origin})
    for m in re.finditer(r"\btype\s+(\w+)\s*(<[^=]*>)?\s*=\s*([^;]+);", src):
        name, gen, rhs = m.group(1), m.group(2), m.group(3)
        if name in ("Err", "Error", "Output", "Item", "Target", "Language", "Kind"):   # associated types in impls
            continue
        generics = [re.match(r"\w+", g).group(0) for g in split_top(gen[1:-1]) if not g.startswith("'")] if gen else []
        defs.setdefault(name, []).append({"kind": "alias", "generics": generics, "fields": [rhs.strip()], "labels": ["="], "file": origin})


def load_defs(repo):
    defs, unsafe_impls = {}, []
    del STATICS[:]
    for crate in CRATES:
        base = os.path.join(repo, crate)
        for d, dirs, files in os.walk(base):
            dirs[:] = [x for x in dirs if x not in ("test", "tests")]
            for f in files:
                if not f.endswith(".rs") or f.startswith("test") or f.endswith("_test.rs") or f.endswith("_tests.rs"):
                    continue
                p = os.path.join(d, f)
                src = open(p, encoding="utf-8").read()
                src = re.sub(r"#\[cfg\(test\)\]\s*mod\s+\w+\s*\{", "mod __cfg_test {", src)
                # drop cfg(test) modules
                while True:
                    k = src.find("mod __cfg_test {")
                    if k < 0: break
                    e = match_close(src, src.index("{", k), "{", "}")
                    src = src[:k] + src[e + 1:]
                try:
                    find_defs(src, os.path.relpath(p, repo), defs, unsafe_impls)
                except Exception as e:
                    raise RuntimeError(f"cannot parse definitions in {p}: {e}")
    return defs, unsafe_impls


# ---------------------------------------------------------------- graph
class Graph:
    """nodes are *instantiated* types (name, argument terms): generic definitions are monomorphised at
    their use sites, the way rustc checks auto traits on concrete types"""
    def __init__(self, defs):
        self.defs = defs
        self.ids, self.order = {}, []
        self.unknown = set()

    def node(self, name, args=()):
        key = (name, tuple(args))
        if key not in self.ids:
            self.ids[key] = len(self.order); self.order.append(key)
        return self.ids[key]

    def term(self, t, env):
        k = t[0]
        if k == "ref":   return ("ref", (self.term(t[1], env),))
        if k == "tuple": return ("both", tuple(self.term(x, env) for x in t[1]))
        if k == "slice": return ("both", (self.term(t[1], env),))
        if k == "fn":    return ("leaf", True, True)
        if k == "never": return ("leaf", True, True)
        if k == "ptr":   return ("leaf", False, False)
        if k == "dyn":
            txt = t[1]
            return ("leaf", bool(re.search(r"\bSend\b", txt)), bool(re.search(r"\bSync\b", txt)))
        name = t[1]
        if name in env: return env[name]
        if name not in self.defs and LEAVES.get(name) == "ss": return ("leaf", True, True)
        if name not in self.defs and LEAVES.get(name) == "none": return ("leaf", False, False)
        args = tuple(self.term(a, env) for a in t[2])
        if name in self.defs:
            return ("app", self.node(name, args))
        rule = LEAVES.get(name)
        if rule is None:
            self.unknown.add(name); return ("leaf", False, False)
        if rule in ("both", "phantom"): return ("both", args)
        return (rule, args)


def key_name(key, g):
    name, args = key
    def show(t):
        if t[0] == "app": return key_name(g.order[t[1]], g)
        if t[0] == "leaf": return "_"
        return t[0] + "<" + ",".join(show(a) for a in t[1]) + ">"
    return name if not args else name + "<" + ",".join(show(a) for a in args) + ">"


def build(repo):
    defs, unsafe_impls = load_defs(repo)
    g = Graph(defs)
    roots = [ROOT_TYPE] + [n for n in NEGATIVE_ROOTS if n in defs]
    for r in roots:
        if r not in defs:
            raise RuntimeError(f"root type {r} not found in the source")
        g.node(r)
    nodes = []
    i = 0
    while i < len(g.order):
        name, args = g.order[i]
        fields, interior = [], []
        for d in defs[name]:
            env = {p: (args[j] if j < len(args) else ("leaf", True, True)) for j, p in enumerate(d["generics"])}
            env["Self"] = ("app", i)
            for f, lab in zip(d["fields"], d["labels"]):
                try:
                    pt = parse_type(f)
                    fields.append(g.term(pt, env))
                except ValueError as e:
                    raise RuntimeError(f"{name} ({d['file']}): {e}")
                for kind in sorted(interior_kinds(pt)):
                    interior.append(f"{name}.{lab}: {kind}")
                # an interior-mutable type passed as a generic argument of this instantiation
                for pn, pv in env.items():
                    if pn != "Self" and re.search(r"\b" + re.escape(pn) + r"\b", f) and pv[0] in ("mutex", "rwlock", "cell"):
                        interior.append(f"{name}.{lab}: {pv[0]} (through parameter {pn})")
        nodes.append({"fields": fields, "files": sorted({d["file"] for d in defs[name]}), "interior": sorted(set(interior))})
        i += 1
        if len(g.order) > 5000:
            raise RuntimeError("instantiation does not terminate (polymorphic recursion?)")
    if g.unknown:
        raise RuntimeError("types not defined in the crates and not in the leaf table: " + ", ".join(sorted(g.unknown)))
    return g, nodes, unsafe_impls, defs


def lean_term(t):
    k = t[0]
    if k == "leaf": return f"T.leaf {'true' if t[1] else 'false'} {'true' if t[2] else 'false'}"
    if k == "app": return f"T.app {t[1]} (L [])"
    ctor = {"both": "both", "ref": "ref", "arc": "arc", "mutex": "mutex", "rwlock": "rwlock", "cell": "cell"}[k]
    return f"T.{ctor} (L [{', '.join(lean_term(a) for a in t[1])}])"


def py_eval(t, A):
    k = t[0]
    if k == "leaf": return (t[1], t[2])
    def allargs(args):
        s, y = True, True
        for a in args:
            x = py_eval(a, A); s, y = s and x[0], y and x[1]
        return s, y
    if k == "app":
        return A[t[1]]
    a = allargs(t[1])
    if k == "both": return a
    if k == "ref": return (a[1], a[1])
    if k == "arc": return (a[0] and a[1], a[0] and a[1])
    if k == "mutex": return (a[0], a[0])
    if k == "rwlock": return (a[0], a[0] and a[1])
    if k == "cell": return (a[0], False)
    raise ValueError(k)


def py_rounds(order, nodes):
    """number of rounds the iteration from the top needs to become stable (only the fuel given to the Lean
    model; Lean re-computes the iteration and checks the fixpoint itself)"""
    A = [(True, True)] * len(order)
    for k in range(2 * len(order) + 2):
        B = []
        for i, n in enumerate(order):
            s, y = True, True
            for f in nodes[i]["fields"]:
                x = py_eval(f, A); s, y = s and x[0], y and x[1]
            B.append((s, y))
        if B == A:
            return k, A
        A = B
    raise RuntimeError("no fixpoint")


def reachable_from_root(nodes):
    reach, todo = set(), [0]
    def succ(t):
        if t[0] == "app": return [t[1]]
        if t[0] == "leaf": return []
        out = []
        for a in t[1]: out += succ(a)
        return out
    while todo:
        i = todo.pop()
        if i in reach: continue
        reach.add(i)
        for f in nodes[i]["fields"]: todo += succ(f)
    return reach


def shared_mutable(nodes):
    reach = reachable_from_root(nodes)
    out = set(STATICS)
    for i in reach:
        out |= set(nodes[i]["interior"])
    return sorted(out)


def hook_assertions(repo):
    p = os.path.join(repo, "crates/emmylua_code_analysis/src/verif_send_sync.rs")
    if not os.path.exists(p):
        raise RuntimeError("hook H6 (src/verif_send_sync.rs) missing")
    src = strip_comments(open(p).read())
    pos = [parse_type(m.group(1)) for m in re.finditer(r"assert_send_sync::<(.+?)>\(\);", src)]
    neg = [parse_type(m.group(1)) for m in re.finditer(r"assert_not_send_not_sync!\(\s*\w+\s*,\s*(.+?)\s*\);", src)]
    return pos, neg


def outer_names(t):
    """names of the defined types a field type mentions (through std containers)"""
    if t[0] == "path":
        out = {t[1]}
        for a in t[2]: out |= outer_names(a)
        return out
    if t[0] in ("ref", "slice"): return outer_names(t[1])
    if t[0] == "tuple":
        out = set()
        for a in t[1]: out |= outer_names(a)
        return out
    return set()


def generate(root, repo, log):
    g, nodes, unsafe_impls, defs = build(repo)
    order = [key_name(k, g) for k in g.order]
    base = [k[0] for k in g.order]
    ids_by_base = {}
    for i, b in enumerate(base):
        ids_by_base.setdefault(b, []).append(i)
    pos, neg = hook_assertions(repo)
    asserted = set()
    for t in pos: asserted |= outer_names(t)
    # completeness of the hook: every field type of the component structs must be asserted
    missing = []
    for owner in ("EmmyLuaAnalysis", "LuaCompilation", "DbIndex", "Vfs"):
        for d in defs.get(owner, []):
            for f in d["fields"]:
                for n in outer_names(parse_type(f)):
                    if n in defs and n not in asserted and n not in ("FileId", "FileContent"):
                        missing.append(f"{owner}.{n}")
    if missing:
        raise RuntimeError("hook H6 does not assert the component types: " + ", ".join(sorted(set(missing))))
    comp = sorted({i for n in asserted for i in ids_by_base.get(n, [])})
    negs = sorted({i for t in neg for n in outer_names(t) for i in ids_by_base.get(n, [])})
    reach_unsafe = [u for u in unsafe_impls if u["type"] in ids_by_base]
    rounds, pysol = py_rounds(order, nodes)
    shared = shared_mutable(nodes)
    out = ["import EmmyVerif.Model.AutoTrait",
           "/-! GENERATED by checklib/gen/tools_autotrait.py on every run from the Rust source text:",
           "the field graph of `EmmyLuaAnalysis` (every struct/enum/alias reachable through field types in",
           "emmylua_code_analysis and emmylua_parser), manual `unsafe impl Send/Sync` are NOT used. -/",
           "namespace Gen.AutoTraitGraph", "open AutoTrait", "",
           "def names : List String := [" + ", ".join(f'"{n}"' for n in order) + "]", "",
           "def graph : Graph := ["]
    rows = []
    for i, n in enumerate(order):
        rows.append(f"  /- {i} {n} -/ [" + ", ".join(lean_term(t) for t in nodes[i]["fields"]) + "]")
    out.append(",\n".join(rows))
    out += ["]", "",
            f"/-- `{ROOT_TYPE}` -/", "def root : Nat := 0", "",
            "/-- rounds after which the iteration from the top is stable (fuel only: the fixpoint is re-checked in Lean) -/",
            f"def rounds : Nat := {rounds}", "",
            "/-- the component types hook H6 asserts `Send + Sync` with rustc -/",
            f"def components : List Nat := [{', '.join(map(str, comp))}]", "",
            "/-- the types hook H6 asserts to be neither `Send` nor `Sync` -/",
            f"def notThreadSafe : List Nat := [{', '.join(map(str, negs))}]", "",
            "/-- types of the graph carrying a manual `unsafe impl Send/Sync` in the source (the derivation ignores them) -/",
            "def unsafeImpls : List Nat := [" + ", ".join(str(i) for i in sorted({i for u in reach_unsafe for i in ids_by_base[u["type"]]})) + "]", "",
            "/-- shared mutable state: every interior-mutability field (Mutex / RwLock / Atomic* / Cell / RefCell / OnceLock / …)",
            "of a type reachable from `EmmyLuaAnalysis` (so reachable from `&EmmyLuaAnalysis` / `&LuaDiagnostic`), and every",
            "`static` with interior mutability, `static mut` or `thread_local!` of the two crates (test modules excluded) -/",
            "def sharedMutable : List String := [" + ", ".join(json.dumps(x) for x in shared) + "]", "",
            "end Gen.AutoTraitGraph", ""]
    write_if_changed(os.path.join(root, "lean", "EmmyVerif", "Gen", "AutoTraitGraph.lean"), "\n".join(out))
    not_ss = [order[i] for i, v in enumerate(pysol) if not (v[0] and v[1])]
    info = {"generator": "tools_autotrait", "nodes": len(order), "rounds": rounds, "shared_mutable_state": shared, "not_send_sync_by_derivation": not_ss, "fields": sum(len(n["fields"]) for n in nodes),
            "components_asserted_by_hook": len(comp), "negative_assertions": len(negs),
            "unsafe_impls_in_graph": sorted({f"{u['trait']} for {u['type']} ({u['file']})" for u in reach_unsafe}),
            "unsafe_impls_all": sorted({f"{u['trait']} for {u['type']} ({u['file']})" for u in unsafe_impls})}
    os.makedirs(os.path.join(root, ".work"), exist_ok=True)
    json.dump({"order": order, "info": info}, open(os.path.join(root, ".work", "C38_graph.json"), "w"), indent=1)
    return info


if __name__ == "__main__":
    print(json.dumps(generate(sys.argv[1] if len(sys.argv) > 1 else "/verif", "/repo", []), indent=1))
