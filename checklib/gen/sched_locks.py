#!/usr/bin/env python3
"""T-src extractor for C28: every async lock acquisition site of crates/emmylua_ls/src.

For each `.read().await` / `.write().await` / `.lock().await` it determines
  * the lock object (from the receiver expression: analysis, workspace_manager, diagnostic_tokens, ...),
  * the mode,
  * the set of locks that MAY be held when control reaches the site: guards bound by `let` in an
    enclosing block and not yet `drop`ped (a `drop` inside a nested block only hides the guard until that
    block ends: the other branch may still hold it), temporaries of the current statement, plus
    everything any caller may hold at a call of the enclosing fn (context-insensitive fixed point over
    the awaited calls of lock-acquiring fns). `tokio::spawn(async move { … })` starts a new task: nothing
    is held at its start.
It also emits one representative acquire/release path per fn / spawned block (`lockPrograms`, all
branches in textual order, loop bodies once, awaited callees inlined) for the model search.

Output: lean/EmmyVerif/Gen/LockSites.lean (+ a JSON copy in .work/lock_sites.json for the runner).
The extractor is cross-validated on every run by the H4 lock trace of real sessions (checklib/run/sched_c28.py):
every observed acquisition must be a listed site (file:line) and its observed held set must be inside
the site's may-held set.
"""
import os, re, json, sys

# global order on lock OBJECTS (rank = index). Any order for which `sites_ok` checks is fine; this one is
# "reload_lock < analysis < workspace_manager < the small token/registry mutexes".
RANK = ["reload_lock", "analysis", "workspace_manager", "diagnostic_tokens",
        "workspace_diagnostic_token", "cancellations", "response_manager"]
RECEIVER_LOCK = {n: n for n in RANK}
MODE = {"read": "r", "write": "w", "lock": "w"}

ACQ_RE = re.compile(r"\.\s*(read|write|lock)\s*\(\s*\)\s*\.\s*await\b")
SPAWN_RE = re.compile(r"\bspawn\s*\(\s*async\s+(?:move\s*)?\{")
DROP_RE = re.compile(r"\bdrop\s*\(\s*([A-Za-z_]\w*)\s*\)")
FN_RE = re.compile(r"\bfn\s+([A-Za-z_]\w*)")
AWAIT_RE = re.compile(r"\.\s*await\b")
SELECT_RE = re.compile(r"\bselect!\s*\{")


def last_call_name(expr):
    """name of the call the expression ends with (`a.b(c).d(e)` -> `d`), else None"""
    e = expr.rstrip()
    if e.endswith("?"):
        e = e[:-1].rstrip()
    if not e.endswith(")"):
        return None
    depth = 0
    for j in range(len(e) - 1, -1, -1):
        if e[j] == ")":
            depth += 1
        elif e[j] == "(":
            depth -= 1
            if depth == 0:
                m = re.search(r"([A-Za-z_][\w:]*)\s*(?:::\s*<[^<>]*>\s*)?$", e[:j])
                return m.group(1).split("::")[-1] if m else None
    return None


EXTERNAL_AWAITS = ("recv", "send", "sleep", "sleep_until", "yield_now", "timeout", "cancelled", "spawn", "spawn_blocking", "join_all")


def classify_await(expr):
    """(kind, bounded) of the expression whose value is awaited (text up to the `.await`)"""
    name = last_call_name(expr) or ""
    if name == "recv":
        return "channelRecv", False
    if name == "send":
        return "channelSend", False
    if name in ("sleep", "yield_now", "sleep_until"):
        return "timer", True
    if name == "timeout":
        return "timer", True
    if name == "cancelled":
        return "cancel", False
    if name in ("spawn", "spawn_blocking", "join_all"):
        return "join", False
    return "other", False


def classify_select(body):
    bounded = bool(re.search(r"\bsleep\s*\(", body))
    if re.search(r"\breceiver\b", body):
        return "clientResponse", bounded
    if bounded:
        return "timer", True
    if re.search(r"\bcancelled\s*\(", body):
        return "cancel", False
    return "other", False


def blank(src):
    """blank comments, string and char literals (keeping length and newlines)"""
    out = list(src)
    i, n = 0, len(src)

    def fill(a, b):
        for k in range(a, b):
            if out[k] != "\n":
                out[k] = " "
    while i < n:
        c = src[i]
        if src.startswith("//", i):
            j = src.find("\n", i)
            j = n if j < 0 else j
            fill(i, j); i = j
        elif src.startswith("/*", i):
            depth, j = 1, i + 2
            while j < n and depth:
                if src.startswith("/*", j):
                    depth += 1; j += 2
                elif src.startswith("*/", j):
                    depth -= 1; j += 2
                else:
                    j += 1
            fill(i, j); i = j
        elif c == '"':
            j = i + 1
            while j < n and src[j] != '"':
                j += 2 if src[j] == "\\" else 1
            fill(i + 1, j); i = j + 1
        elif c == "r" and re.match(r'r#*"', src[i:]) and (i == 0 or not (src[i - 1].isalnum() or src[i - 1] == "_")):
            m = re.match(r'r(#*)"', src[i:])
            end = src.find('"' + m.group(1), i + len(m.group(0)))
            end = n if end < 0 else end + 1 + len(m.group(1))
            fill(i, end); i = end
        elif c == "'":
            m = re.match(r"'(\\.|[^\\'])'", src[i:])
            if m:
                fill(i + 1, i + len(m.group(0)) - 1); i += len(m.group(0))
            else:
                i += 1  # lifetime
        else:
            i += 1
    return "".join(out)


def match_close(s, i, open_c="{", close_c="}"):
    depth = 0
    for j in range(i, len(s)):
        if s[j] == open_c:
            depth += 1
        elif s[j] == close_c:
            depth -= 1
            if depth == 0:
                return j
    return len(s) - 1


def strip_test_modules(s):
    out = s
    for m in list(re.finditer(r"#\[cfg\((?:all\()?test[^\]]*\]\s*(?:pub\s+)?mod\s+\w+\s*\{", s)):
        a = m.end() - 1
        b = match_close(s, a)
        out = out[:m.start()] + re.sub(r"[^\n]", " ", out[m.start():b + 1]) + out[b + 1:]
    return out


class Fn:
    def __init__(self, name, file, body_start, body_end, src):
        self.name, self.file, self.a, self.b, self.src = name, file, body_start, body_end, src
        self.awaits = []    # non-lock awaits: dict(line, kind, bounded, lex, in_spawn, root, after_spawn_of)
        self.sites = []     # dict(line, lock, mode, lex: set, in_spawn: bool)
        self.calls = []     # dict(callee, lex: set, in_spawn: bool, line)
        self.events = {}    # root key -> list of events ("acq", lock, mode, line) | ("rel", lock) | ("call", name)


def line_of(src, pos):
    return src.count("\n", 0, pos) + 1


def collect_fns(repo):
    base = os.path.join(repo, "crates", "emmylua_ls", "src")
    fns = []
    files = []
    for d, _, fs in os.walk(base):
        for f in sorted(fs):
            p = os.path.join(d, f)
            rel = os.path.relpath(p, repo)
            if not f.endswith(".rs") or "/tests" in rel or rel.endswith("tests.rs") or "/verif" in rel:
                continue
            files.append((rel, p))
    for rel, p in sorted(files):
        raw = open(p, encoding="utf-8").read()
        s = strip_test_modules(blank(raw))
        pos = 0
        while True:
            m = FN_RE.search(s, pos)
            if not m:
                break
            # find the body `{` (skip `fn` declarations without body, e.g. in traits)
            j = m.end()
            depth = 0
            body = None
            while j < len(s):
                c = s[j]
                if c in "([<":
                    depth += 1 if c != "<" else 0
                elif c in ")]":
                    depth -= 1
                elif c == ";" and depth == 0:
                    break
                elif c == "{" and depth == 0:
                    body = j
                    break
                j += 1
            if body is None:
                pos = m.end()
                continue
            end = match_close(s, body)
            fns.append(Fn(m.group(1), rel, body, end, s))
            pos = body + 1  # nested fns are found as well (their sites are attributed to the inner fn only)
    return fns


def receiver_lock(s, pos, fn):
    """lock name from the expression ending right before `pos` (the `.` of `.read()`)"""
    tail = s[max(0, pos - 200):pos]
    m = re.search(r"([A-Za-z_]\w*)\s*(?:\(\s*\))?\s*$", tail)
    if not m:
        raise RuntimeError(f"{fn.file}:{line_of(s, pos)}: cannot read the receiver of a lock acquisition")
    name = m.group(1)
    if name not in RECEIVER_LOCK:
        raise RuntimeError(f"{fn.file}:{line_of(s, pos)}: unknown lock object `{name}` (extend RANK in sched_locks.py)")
    return RECEIVER_LOCK[name]


def scan_fn(fn, acquiring, inner_ranges):
    """linear scan of one fn body. `acquiring` = names of fns known to acquire locks (for call sites).
    `inner_ranges` = bodies of nested fns to skip."""
    s = fn.src
    fn.sites, fn.calls, fn.events, fn.awaits = [], [], {}, []
    call_re = re.compile(r"\b(" + "|".join(sorted(map(re.escape, acquiring))) + r")\s*\(") if acquiring else None
    spawn_opens = {m.end() - 1 for m in SPAWN_RE.finditer(s, fn.a, fn.b)}
    # scopes: dict(kind, guards: [guard], hidden: [guard], root: key)
    root_key = fn.name
    fn.events[root_key] = []
    scopes = [dict(kind="fn", guards=[], hidden=[], root=root_key)]
    temps = []  # (guard, depth)
    spawn_n = 0

    def cur_root():
        return scopes[-1]["root"]

    def in_spawn():
        return any(sc["kind"] == "spawn" for sc in scopes)

    def held_now():
        hs = []
        for sc in reversed(scopes):
            for g in sc["guards"]:
                if g["live"] and not g.get("hid"):
                    hs.append(g["lock"])
            if sc["kind"] == "spawn":
                break
        for g, _ in temps:
            if g["live"]:
                hs.append(g["lock"])
        return hs

    def release(g):
        if g["live"]:
            g["live"] = False
            if not g.get("hid") and not g.get("rel_emitted"):
                fn.events[g["root"]].append(("rel", g["lock"]))

    i = fn.a + 1
    while i < fn.b:
        if any(a <= i <= b for a, b in inner_ranges):
            i = [b for a, b in inner_ranges if a <= i <= b][0] + 1
            continue
        c = s[i]
        if c == "{":
            if i in spawn_opens:
                spawn_n += 1
                key = f"{fn.name}@spawn{spawn_n}"
                fn.events[cur_root()].append(("spawn", key))
                fn.events[key] = []
                scopes.append(dict(kind="spawn", guards=[], hidden=[], root=key, saved_temps=temps))
                temps = []
            else:
                scopes.append(dict(kind="block", guards=[], hidden=[], root=cur_root()))
            i += 1
            continue
        if c == "}":
            sc = scopes.pop()
            depth = len(scopes)
            for g, d in list(temps):
                if d > depth:
                    release(g); temps.remove((g, d))
            for g in reversed(sc["guards"]):
                release(g)
            for g in sc["hidden"]:
                # dropped on the path through this block only: the other path may still hold it
                if g.get("hid"):
                    g["hid"] = False
            if sc["kind"] == "spawn":
                temps = sc["saved_temps"]
            i += 1
            continue
        if c == ";":
            depth = len(scopes)
            for g, d in list(temps):
                if d >= depth:
                    release(g); temps.remove((g, d))
            i += 1
            continue
        m = ACQ_RE.match(s, i)
        if m:
            lock = receiver_lock(s, i, fn)
            mode = MODE[m.group(1)]
            line = line_of(s, m.start(1))
            lex = sorted(set(held_now()))
            fn.sites.append(dict(line=line, lock=lock, mode=mode, lex=lex, in_spawn=in_spawn(), root=cur_root()))
            fn.events[cur_root()].append(("acq", lock, mode, line))
            # bound by `let`? (statement = text since the previous ; { })
            st = max(s.rfind(";", fn.a, i), s.rfind("{", fn.a, i), s.rfind("}", fn.a, i)) + 1
            stmt = s[st:i]
            after = s[m.end():m.end() + 40]
            lm = re.match(r"\s*let\s+(?:mut\s+)?([A-Za-z_]\w*)\s*(?::[^=]+)?=\s*[\w\s\.\(\)]*$", stmt)
            g = dict(lock=lock, live=True, root=cur_root(), var=None)
            if lm and re.match(r"\s*;", after):
                g["var"] = lm.group(1)
                scopes[-1]["guards"].append(g)
            else:
                temps.append((g, len(scopes)))
            i = m.end()
            continue
        m = AWAIT_RE.match(s, i) if c == "." else None
        if m:
            expr = s[max(fn.a, i - 800):i]   # only the call the expression ends with matters (matched backwards)
            # an awaited call of a (possibly) lock/await-relevant fn of this crate is followed into the callee instead
            callee = last_call_name(expr)
            if not (callee in acquiring and callee not in EXTERNAL_AWAITS):
                kind, bounded = classify_await(expr)
                fn.awaits.append(dict(line=line_of(s, i), kind=kind, bounded=bounded, lex=sorted(set(held_now())),
                                      in_spawn=in_spawn(), root=cur_root(), expr=" ".join(expr.split())[-60:]))
            i = m.end()
            continue
        m = SELECT_RE.match(s, i) if s.startswith("select!", i) and not (s[i - 1].isalnum() or s[i - 1] == "_") else None
        if m:
            close = match_close(s, m.end() - 1)
            kind, bounded = classify_select(s[m.end():close])
            fn.awaits.append(dict(line=line_of(s, i), kind=kind, bounded=bounded, lex=sorted(set(held_now())),
                                  in_spawn=in_spawn(), root=cur_root(), expr="select!"))
            i = m.end() - 1   # continue into the macro body as a block
            continue
        m = DROP_RE.match(s, i) if s.startswith("drop", i) and not (s[i - 1].isalnum() or s[i - 1] == "_") else None
        if m:
            var = m.group(1)
            done = False
            for k in range(len(scopes) - 1, -1, -1):
                for g in reversed(scopes[k]["guards"]):
                    if g["var"] == var and g["live"] and not g.get("hid"):
                        if k == len(scopes) - 1:
                            release(g)
                        else:
                            if not g.get("rel_emitted"):
                                fn.events[g["root"]].append(("rel", g["lock"]))
                            g["hid"] = True
                            g["rel_emitted"] = True
                            scopes[-1]["hidden"].append(g)
                        done = True
                        break
                if done or scopes[k]["kind"] == "spawn":
                    break
            i = m.end()
            continue
        if call_re and (s[i].isalpha() or s[i] == "_") and not (s[i - 1].isalnum() or s[i - 1] == "_"):
            m = call_re.match(s, i)
            if m and not re.search(r"\bfn\s+$", s[max(0, i - 8):i]):
                close = match_close(s, m.end() - 1, "(", ")")
                if re.match(r"\s*\.\s*await\b", s[close + 1:close + 40]):
                    args = s[m.end():close]
                    bctx = "time_cancel_token(" in args or (
                        re.search(r"\bcancel_token\b", args) is not None
                        and re.search(r"let\s+cancel_token\s*=\s*time_cancel_token\s*\(", s[fn.a:i]) is not None)
                    fn.calls.append(dict(callee=m.group(1), lex=sorted(set(held_now())), in_spawn=in_spawn(),
                                         line=line_of(s, i), root=cur_root(), bounded_ctx=bctx))
                    fn.events[cur_root()].append(("call", m.group(1)))
                i = m.end()
                continue
        i += 1
    for g, _ in temps:
        release(g)
    for g in reversed(scopes[0]["guards"]):
        release(g)


def extract(repo):
    fns = collect_fns(repo)
    # nested fn bodies (skip when scanning the outer fn)
    inner = {id(f): [(g.a, g.b) for g in fns if g.file == f.file and g is not f and f.a < g.a and g.b < f.b] for f in fns}
    # `acquiring` = fns whose own task acquires a lock or awaits something (directly or through awaited callees)
    acquiring = set()
    while True:
        for f in fns:
            scan_fn(f, acquiring, inner[id(f)])
        new = set(acquiring)
        for f in fns:
            if (any(not st["in_spawn"] for st in f.sites) or any(not c["in_spawn"] for c in f.calls)
                    or any(not w["in_spawn"] for w in f.awaits)) and f.name not in EXTERNAL_AWAITS:
                new.add(f.name)
        if new == acquiring:
            break
        acquiring = new
    by_name = {}
    for f in fns:
        by_name.setdefault(f.name, []).append(f)
    # entry-held fixed point, kept apart for call chains that pass a time-bounded cancellation token down
    entry = {f.name: {False: set(), True: set()} for f in fns}
    reached = {f.name: {False: False, True: False} for f in fns}
    changed = True
    while changed:
        changed = False
        for f in fns:
            for c in f.calls:
                ctxs = [(False, set())] if c["in_spawn"] else [(b, entry[f.name][b]) for b in (False, True) if b is False or reached[f.name][True]]
                for b, inherited in ctxs:
                    tb = b or c["bounded_ctx"]
                    add = set(c["lex"]) | inherited
                    if not reached[c["callee"]][tb] and tb:
                        reached[c["callee"]][tb] = True
                        changed = True
                    if not add <= entry[c["callee"]][tb]:
                        entry[c["callee"]][tb] |= add
                        changed = True
    entry_all = {n: e[False] | e[True] for n, e in entry.items()}
    sites = []
    for f in fns:
        for st in f.sites:
            may = set(st["lex"]) | (set() if st["in_spawn"] else entry_all[f.name])
            sites.append(dict(fn=st["root"], file=f.file, line=st["line"], lock=st["lock"], mode=st["mode"],
                              held=sorted(may, key=RANK.index)))
    sites.sort(key=lambda x: (x["file"], x["line"]))

    # representative programs (callees inlined, cycle-guarded)
    def inline(evs, stack):
        out = []
        for e in evs:
            if e[0] == "call":
                for g in by_name.get(e[1], []):
                    if g.name in stack:
                        continue
                    out += inline(g.events[g.name], stack + [g.name])
            else:
                out.append(e)
        return out

    def locks_of(evs, stack):
        return sorted({e[1] for e in inline(evs, stack) if e[0] == "acq"}, key=RANK.index)
    programs = []
    for f in fns:
        for key, evs in f.events.items():
            p = [e for e in inline(evs, [f.name]) if e[0] in ("acq", "rel")]
            if any(e[0] == "acq" for e in p):
                name = key if len(by_name.get(f.name, [])) == 1 else f"{os.path.basename(os.path.dirname(f.file))}::{key}"
                programs.append(dict(name=name, file=f.file, acts=[list(e[:3]) for e in p]))
    programs.sort(key=lambda x: x["name"])

    # non-lock awaits with their held sets; `needs` = locks the awaited party may still request
    awaits, n_unheld = [], 0
    for f in fns:
        for w in f.awaits:
            if w["kind"] == "channelRecv":
                # drains a channel fed by the tasks this fn spawns: they may need whatever their blocks acquire
                kids = [k for k in f.events if k.startswith(f.name + "@spawn")]
                needs = sorted({l for k in kids for l in locks_of(f.events[k], [f.name])}, key=RANK.index) if kids else list(RANK)
            elif w["kind"] == "channelSend" and w["in_spawn"]:
                # waits for the receiver = the spawning fn, from the spawn on
                parent = next((k for k, evs in f.events.items() if ("spawn", w["root"]) in evs), None)
                if parent is None:
                    needs = list(RANK)
                else:
                    evs = f.events[parent]
                    needs = locks_of(evs[evs.index(("spawn", w["root"])) + 1:], [f.name])
            elif w["kind"] == "timer":
                needs = []
            else:
                needs = list(RANK)   # client / cancellation / unknown party: may need anything
            ctxs = [(set(w["lex"]) | (set() if w["in_spawn"] else entry[f.name][False]), w["bounded"])]
            if not w["in_spawn"] and reached[f.name][True]:
                ctxs.append((set(w["lex"]) | entry[f.name][True], True))
            for held, bounded in ctxs:
                if not held:
                    n_unheld += 1
                    continue
                awaits.append(dict(fn=w["root"], file=f.file, line=w["line"], kind=w["kind"], expr=w["expr"],
                                   held=sorted(held, key=RANK.index), needs=needs, bounded=bool(bounded)))
    awaits.sort(key=lambda x: (x["file"], x["line"], x["bounded"]))
    return dict(rank=RANK, sites=sites, programs=programs, awaits=awaits, awaits_without_lock=n_unheld,
                entry_held={k: sorted(v) for k, v in entry_all.items() if v})


def await_allowed(a, rk):
    return (not a["held"]) or a["bounded"] or all(rk[h] < rk[l] for l in a["needs"] for h in a["held"])


def lean_str(s):
    return '"' + s.replace("\\", "\\\\").replace('"', '\\"') + '"'


def to_lean(data):
    rk = {n: i for i, n in enumerate(data["rank"])}
    L = ["import EmmyVerif.Model.Locks",
         "/-! GENERATED by checklib/gen/sched_locks.py from /repo/crates/emmylua_ls/src on every run — do not edit. -/",
         "namespace Gen", "open Locks", "",
         "/-- lock objects in rank order (rank = index) -/",
         "def lockRank : List String := [" + ", ".join(lean_str(n) for n in data["rank"]) + "]", "",
         "/-- every async acquisition site with its may-held set -/",
         "def lockSites : List Site := ["]
    rows = []
    for s in data["sites"]:
        rows.append("  { fn := %s, file := %s, line := %d, lock := %d, mode := .%s, held := [%s] }" % (
            lean_str(s["fn"]), lean_str(s["file"]), s["line"], rk[s["lock"]], s["mode"],
            ", ".join(str(rk[h]) for h in s["held"])))
    L.append(",\n".join(rows) + "]")
    L += ["", "/-- one representative acquire/release path per fn / spawned block (callees inlined) -/",
          "def lockPrograms : List (String × Prog) := ["]
    rows = []
    for p in data["programs"]:
        acts = []
        for a in p["acts"]:
            if a[0] == "acq":
                acts.append(f".acq {rk[a[1]]} .{a[2]}")
            else:
                acts.append(f".rel {rk[a[1]]}")
        rows.append("  (%s, [%s])" % (lean_str(p["name"]), ", ".join(acts)))
    L.append(",\n".join(rows) + "]")
    L += ["", "/-- every `.await` / `select!` inside a guard scope that is not itself a lock acquisition -/",
          "def lockAwaits : List AwaitSite := ["]
    rows = []
    for a in data["awaits"]:
        rows.append("  { fn := %s, file := %s, line := %d, kind := .%s, held := [%s], needs := [%s], bounded := %s }" % (
            lean_str(a["fn"]), lean_str(a["file"]), a["line"], a["kind"], ", ".join(str(rk[h]) for h in a["held"]),
            ", ".join(str(rk[l]) for l in a["needs"]), "true" if a["bounded"] else "false"))
    L.append(",\n".join(rows) + "]")
    L += ["", "end Gen", ""]
    return "\n".join(L)


def generate(root, repo, log):
    data = extract(repo)
    out = os.path.join(root, "lean", "EmmyVerif", "Gen", "LockSites.lean")
    os.makedirs(os.path.dirname(out), exist_ok=True)
    text = to_lean(data)
    if not os.path.exists(out) or open(out).read() != text:
        open(out, "w").write(text)
    os.makedirs(os.path.join(root, ".work"), exist_ok=True)
    json.dump(data, open(os.path.join(root, ".work", "lock_sites.json"), "w"), indent=1)
    rk = {n: i for i, n in enumerate(data["rank"])}
    bad = [s for s in data["sites"] if any(rk[h] >= rk[s["lock"]] for h in s["held"])]
    bad_aw = [a for a in data["awaits"] if not await_allowed(a, rk)]
    log.append(f"sched_locks: {len(data['sites'])} sites, {len(data['programs'])} programs, {len(bad)} out of order; "
               f"{len(data['awaits'])} awaits under a lock, {len(bad_aw)} not allowed")
    return {"lock_sites": len(data["sites"]), "lock_programs": len(data["programs"]),
            "awaits_under_lock": len(data["awaits"]), "awaits_without_lock": data["awaits_without_lock"],
            "awaits_not_allowed": [f"{a['file']}:{a['line']} {a['fn']} {a['kind']} `{a['expr']}` held={a['held']} needs={a['needs']}" for a in bad_aw],
            "sites_out_of_order": [f"{s['file']}:{s['line']} {s['fn']} {s['lock']}.{s['mode']} held={s['held']}" for s in bad],
            "rank": data["rank"]}


if __name__ == "__main__":
    d = extract(sys.argv[1] if len(sys.argv) > 1 else "/repo")
    rk = {n: i for i, n in enumerate(d["rank"])}
    for s in d["sites"]:
        flag = "  <-- OUT OF ORDER" if any(rk[h] >= rk[s["lock"]] for h in s["held"]) else ""
        print(f"{s['file']}:{s['line']} [{s['fn']}] {s['lock']}.{s['mode']} held={s['held']}{flag}")
    print(len(d["sites"]), "sites")
    for p in d["programs"]:
        print(p["name"], " ".join(f"{a[0]}:{a[1]}" + (f".{a[2]}" if a[0] == "acq" else "") for a in p["acts"]))
    print("entry-held:", d["entry_held"])
    print("awaits without a lock held:", d["awaits_without_lock"])
    for a in d["awaits"]:
        print(f"AWAIT {a['file'].replace('crates/emmylua_ls/src/', '')}:{a['line']} [{a['fn']}] {a['kind']} `{a['expr']}` held={a['held']} needs={a['needs']} "
              f"bounded={a['bounded']}" + ("" if await_allowed(a, rk) else "  <-- NOT ALLOWED"))
