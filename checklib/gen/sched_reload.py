#!/usr/bin/env python3
"""T-src extractor for C29: the mechanisms `reload_converges` rests on, read from
crates/emmylua_ls/src/context/workspace_manager.rs (+ reload_workspace_files in emmylua_code_analysis/src/lib.rs):
  * bumpOnSync / bumpOnClose: every fn of `impl WorkspaceManager` that mutates `open_file_texts`
    (insert / remove / clear / retain / =) also bumps `open_file_state_version`; sync_open_file and close_open_file do;
  * syncLoop: `apply_workspace_reload` awaits `sync_reloaded_open_files` after `init_analysis`; that fn is a `loop`
    that takes `workspace_open_files_snapshot()` under `workspace_manager().read()`, returns when
    `next.version == applied.version`, otherwise applies and sets `applied_snapshot = next_snapshot`;
  * snapshotAtomic: `workspace_open_files_snapshot` returns version and files from one `&self`;
  * prefersOpenText: `reload_workspace_files` updates the open files (snapshot text) after the disk files and skips
    disk files that are open.
Output: lean/EmmyVerif/Gen/SchedReloadCfg.lean"""
import os, re, sys
sys.path.insert(0, os.path.dirname(os.path.abspath(__file__)))
from sched_locks import blank, match_close

WM = "crates/emmylua_ls/src/context/workspace_manager.rs"
LIB = "crates/emmylua_code_analysis/src/lib.rs"
TD = "crates/emmylua_ls/src/handlers/text_document/text_document_handler.rs"


def fns(s):
    out = {}
    for m in re.finditer(r"\bfn\s+([A-Za-z_]\w*)", s):
        j = s.find("{", m.end())
        k = s.find(";", m.end())
        if j < 0 or (0 <= k < j and s[m.end():k].count("(") == s[m.end():k].count(")")):
            continue
        out[m.group(1)] = s[j:match_close(s, j) + 1]
    return out


def extract(repo):
    s = blank(open(os.path.join(repo, WM), encoding="utf-8").read())
    f = fns(s)
    mut = re.compile(r"open_file_texts\s*(\.\s*(insert|remove|clear|retain|drain|extend)\s*\(|=[^=])")
    bump = re.compile(r"open_file_state_version\s*=\s*self\s*\.\s*open_file_state_version\s*\.\s*wrapping_add\s*\(\s*1\s*\)")
    mutators = {n: bool(bump.search(b)) for n, b in f.items() if mut.search(b) and n != "new"}
    all_bump = all(mutators.values()) and bool(mutators)
    bump_sync = all_bump and mutators.get("sync_open_file", False)
    bump_close = all_bump and mutators.get("close_open_file", False)
    ar = f.get("apply_workspace_reload", "")
    i1, i2 = ar.find("init_analysis"), ar.find("sync_reloaded_open_files")
    loop = f.get("sync_reloaded_open_files", "")
    sync_loop = bool(0 <= i1 < i2 and re.search(r"sync_reloaded_open_files\s*\([^;]*\)\s*\.await", ar)
                     and re.search(r"\bloop\s*\{", loop)
                     and re.search(r"workspace_manager\s*\(\s*\)\s*\.\s*read\s*\(\s*\)\s*\.\s*await", loop)
                     and re.search(r"workspace_open_files_snapshot\s*\(\s*\)", loop)
                     and re.search(r"next_snapshot\s*\.\s*version\s*==\s*applied_snapshot\s*\.\s*version", loop)
                     and re.search(r"applied_snapshot\s*=\s*next_snapshot\s*;", loop)
                     and re.search(r"apply_open_file_sync\s*\(", loop))
    snap = f.get("workspace_open_files_snapshot", "")
    snapshot_atomic = bool(re.search(r"version\s*:\s*self\s*\.\s*open_file_state_version", snap)
                           and re.search(r"files\s*:\s*self\s*\.\s*workspace_open_files\s*\(\s*\)", snap))
    lib = blank(open(os.path.join(repo, LIB), encoding="utf-8").read())
    rw = fns(lib).get("reload_workspace_files", "")
    a, b = rw.find("update_files_by_path"), rw.find("update_files_by_uri")
    prefers = bool(0 <= a < b and re.search(r"!\s*open_paths\s*\.\s*contains", rw[a:b]) and "open_files" in rw[b:b + 200])
    # the handlers record the editor text unconditionally, before any `should_process` test, and ask the membership
    # question in the same critical section (so the reload's snapshot contains every open document whatever its
    # membership was when it was opened)
    td = blank(open(os.path.join(repo, TD), encoding="utf-8").read())
    tdf = fns(td)
    sync_first, member_with_sync = True, True
    for h in ("on_did_open_text_document", "on_did_change_text_document"):
        b = tdf.get(h, "")
        i_sync = b.find("sync_open_file(")
        i_test = min([i for i in (b.find("should_process {"), b.find("!should_process"), b.find("if should_process")) if i >= 0] or [len(b)])
        before = b[:i_sync] if i_sync >= 0 else b
        ok = i_sync >= 0 and i_sync < i_test and not re.search(r"\breturn\b", before)
        # `?` before the call is only allowed on the malformed-params exit `content_changes.first()?`
        ok = ok and not re.search(r"\?", before.replace("content_changes.first()?", ""))
        # the call is not inside an `if` / `match` / closure: its enclosing block is a bare or `let … = {` block of the fn body
        depth, j, opener = 0, i_sync, None
        while j > 0:
            j -= 1
            if b[j] == "}":
                depth += 1
            elif b[j] == "{":
                if depth == 0:
                    opener = j
                    break
                depth -= 1
        head = b[:opener].rstrip()[-12:] if opener else ""
        enclosing_fn_body = opener == 0
        ok = ok and (enclosing_fn_body or head.endswith("=") or head.endswith(";") or head.endswith("}"))
        sync_first = sync_first and bool(ok)
        blk = b[opener:match_close(b, opener) + 1] if opener is not None else ""
        member_with_sync = member_with_sync and re.search(r"is_workspace_file\s*\(", blk) is not None and "write()" in blk \
            and re.search(r"is_workspace_file\s*\(", b[:opener or 0]) is None
    return {"syncBeforeCheck": sync_first, "membershipWithSync": member_with_sync, "bumpOnSync": bump_sync, "bumpOnClose": bump_close, "syncLoop": sync_loop, "snapshotAtomic": snapshot_atomic,
            "prefersOpenText": prefers, "mutators": mutators}


def generate(root, repo, log):
    d = extract(repo)
    lb = lambda x: "true" if x else "false"
    text = "\n".join([
        "import EmmyVerif.Model.SchedReload",
        "/-! GENERATED by checklib/gen/sched_reload.py from workspace_manager.rs / emmylua_code_analysis lib.rs on every run — do not edit. -/",
        "namespace Gen", "",
        f"def reloadCfg : SchedReload.Cfg := {{ bumpOnSync := {lb(d['bumpOnSync'])}, bumpOnClose := {lb(d['bumpOnClose'])}, syncLoop := {lb(d['syncLoop'])}, syncBeforeCheck := {lb(d['syncBeforeCheck'])} }}", "",
        "/-- the membership test is made in the critical section that records the editor text -/",
        f"def reloadMembershipWithSync : Bool := {lb(d['membershipWithSync'])}",
        "/-- version and files of a snapshot are read in one critical section; a reload prefers the snapshot text of open files -/",
        f"def reloadSnapshotAtomic : Bool := {lb(d['snapshotAtomic'])}",
        f"def reloadPrefersOpenText : Bool := {lb(d['prefersOpenText'])}", "", "end Gen", ""])
    out = os.path.join(root, "lean", "EmmyVerif", "Gen", "SchedReloadCfg.lean")
    if not os.path.exists(out) or open(out).read() != text:
        open(out, "w").write(text)
    log.append(f"sched_reload: {d}")
    return d


if __name__ == "__main__":
    print(extract(sys.argv[1] if len(sys.argv) > 1 else "/repo"))
