"""T-src generator for C02: the call graph of the parse path of crates/emmylua_parser, extracted from
the Rust source on every run, written to lean/EmmyVerif/Gen/TreeCallGraph.lean.

What is extracted: every `fn` (with a body, outside `#[cfg(test)]` / `#[cfg(feature = "verif")]` items) of
the files listed in FILES; for each body the calls to other extracted functions. Calls are resolved by
name and *receiver*:
  free call `f(`             -> `f` in the same file, else in the files of FREE_SCOPE[file]
  `Type::f(`                 -> `f` in TYPE_FILE[Type]; unknown types are external (enum/struct helpers)
  `self.f(`                  -> `f` in the same file (+ the default methods of the marker trait)
  `<recv>.f(`                -> `f` in recv_files(file, recv) for the known receivers (p, self.lua_parser,
                                self.lexer, reader, markers …); for any other receiver: external (std / rowan
                                method) when no extracted function has that name, the unique file defining `f`
                                when there is exactly one, and otherwise the generator FAILS rather than
                                guessing (the tie is then reported broken).
A function is *guarded* when the first extracted function it calls is `enter_level` (it takes one of the
at most MAX_SYNTAX_LEVELS levels for as long as its frame is live). The generator also emits a rank
certificate for the unguarded subgraph (longest path to a sink); Props/C02.lean checks it by kernel
evaluation: every call between unguarded functions strictly decreases the rank, so every cycle of the
call graph passes through a guarded function. If the unguarded subgraph has a cycle the generator raises,
naming the cycle (= a recursion that no depth limit covers).
"""
import os, re

CRATE = "crates/emmylua_parser/src"
FILES = [
    "grammar/lua/mod.rs", "grammar/lua/expr.rs", "grammar/lua/stat.rs",
    "grammar/doc/mod.rs", "grammar/doc/tag.rs", "grammar/doc/types.rs",
    "parser/lua_parser.rs", "parser/lua_doc_parser.rs", "parser/marker.rs",
    "lexer/lua_lexer.rs", "lexer/lua_doc_lexer.rs", "text/reader.rs",
    "syntax/tree/lua_tree_builder.rs", "syntax/tree/lua_green_builder.rs",
]
LUA_G = ["grammar/lua/mod.rs", "grammar/lua/expr.rs", "grammar/lua/stat.rs"]
DOC_G = ["grammar/doc/mod.rs", "grammar/doc/tag.rs", "grammar/doc/types.rs"]
MARKER = "parser/marker.rs"
FREE_SCOPE = {f: LUA_G for f in LUA_G}
FREE_SCOPE.update({f: DOC_G for f in DOC_G})
FREE_SCOPE["parser/lua_parser.rs"] = ["grammar/lua/mod.rs"]          # parse_chunk
FREE_SCOPE["parser/lua_doc_parser.rs"] = ["grammar/doc/mod.rs"]      # parse_comment
TYPE_FILE = {
    "LuaParser": ["parser/lua_parser.rs"], "LuaDocParser": ["parser/lua_doc_parser.rs"],
    "LuaLexer": ["lexer/lua_lexer.rs"], "LuaDocLexer": ["lexer/lua_doc_lexer.rs"], "Reader": ["text/reader.rs"],
    "LuaTreeBuilder": ["syntax/tree/lua_tree_builder.rs"], "LuaGreenNodeBuilder": ["syntax/tree/lua_green_builder.rs"],
    "Marker": [MARKER], "CompleteMarker": [MARKER], "MarkEvent": [MARKER], "Self": None,
}
# receiver identifier -> files, per calling file
def recv_files(file, recv):
    if recv == "self":
        return [file, MARKER] if file in ("parser/lua_parser.rs", "parser/lua_doc_parser.rs") else [file]
    if recv == "p":
        if file in LUA_G:
            return ["parser/lua_parser.rs", MARKER]
        if file in DOC_G or file == MARKER:
            return ["parser/lua_doc_parser.rs", "parser/lua_parser.rs", MARKER] if file == MARKER else ["parser/lua_doc_parser.rs", MARKER]
    if recv == "parser" and file in ("parser/lua_parser.rs", "parser/lua_doc_parser.rs"):
        return [file, MARKER]   # the local `let mut parser = …` of `parse`
    if recv in ("lua_parser", "parser"):
        return ["parser/lua_parser.rs", MARKER]
    if recv == "lexer":
        return ["lexer/lua_doc_lexer.rs"] if file in DOC_G + ["parser/lua_doc_parser.rs"] else ["lexer/lua_lexer.rs"]
    if recv == "reader":
        return ["text/reader.rs"]
    if recv in ("green_builder",):
        return ["syntax/tree/lua_green_builder.rs"]
    if recv == "builder" and file == "parser/lua_parser.rs":
        return ["syntax/tree/lua_tree_builder.rs"]
    if recv == "builder" and file == "syntax/tree/lua_green_builder.rs":
        return []   # rowan::GreenNodeBuilder (external crate)
    if recv in ("m", "cm", "m2", "marker", "condition_m", "mark"):
        return [MARKER]
    if recv in EXTERNAL_RECV:
        return []
    return None

# fields / locals whose type lives outside FILES (LexerConfig, ParserConfig, Vec, Chars, SourceRange, …)
EXTERNAL_RECV = {"lexer_config", "parse_config", "config", "errors", "events", "tokens", "children", "parents", "elements",
                 "chars", "range", "token", "valid_range", "special_like", "current_token_range", "stack"}
STD_METHOD_NAMES = {"new", "len", "push", "clone", "get", "is_empty", "contains", "next", "text", "kind", "insert", "first"}
KEYWORDS = {"if", "while", "match", "return", "for", "loop", "fn", "in", "as", "let", "else", "move", "mut", "ref", "where",
            "impl", "pub", "use", "mod", "struct", "enum", "trait", "type", "const", "static", "unsafe", "dyn", "crate", "super"}


def clean(src):
    """blank out comments, string and char literals (keeps length and newlines)"""
    out, i, n = [], 0, len(src)
    while i < n:
        c = src[i]
        if src.startswith("//", i):
            j = src.find("\n", i)
            j = n if j < 0 else j
            out.append(" " * (j - i)); i = j
        elif src.startswith("/*", i):
            j = src.find("*/", i + 2)
            j = n if j < 0 else j + 2
            out.append(re.sub(r"[^\n]", " ", src[i:j])); i = j
        elif c == "r" and re.match(r'r#*"', src[i:]):
            m = re.match(r'r(#*)"', src[i:])
            end = '"' + m.group(1)
            j = src.find(end, i + len(m.group(0)))
            j = n if j < 0 else j + len(end)
            out.append(re.sub(r"[^\n]", " ", src[i:j])); i = j
        elif c == '"':
            j = i + 1
            while j < n and src[j] != '"':
                j += 2 if src[j] == "\\" else 1
            j = min(n, j + 1)
            out.append(re.sub(r"[^\n]", " ", src[i:j])); i = j
        elif c == "'":
            m = re.match(r"'(\\.[^']*|[^'\\])'", src[i:])
            if m:
                out.append(" " * len(m.group(0))); i += len(m.group(0))
            else:
                out.append(c); i += 1  # lifetime
        else:
            out.append(c); i += 1
    return "".join(out)


def match_brace(s, i):
    depth = 0
    for j in range(i, len(s)):
        if s[j] == "{":
            depth += 1
        elif s[j] == "}":
            depth -= 1
            if depth == 0:
                return j
    return len(s) - 1


def strip_cfg_items(s):
    """blank out whatever a #[cfg(test)] / #[cfg(feature = …)] attribute applies to: an item or block with
    braces, or a field / field initialiser / statement / `use` ending in `,` or `;` (at bracket depth 0)"""
    out = s
    pat = re.compile(r'#\[cfg\((?:test|feature[^\]]*)\)\]')
    pos = 0
    while True:
        m = pat.search(out, pos)
        if not m:
            break
        depth = 0
        j = m.end()
        end = len(out) - 1
        while j < len(out):
            ch = out[j]
            if ch in "([":
                depth += 1
            elif ch in ")]":
                depth -= 1
            elif depth <= 0 and ch == "{":
                end = match_brace(out, j)
                break
            elif depth <= 0 and ch in ";,":
                end = j
                break
            elif depth < 0:      # ran out of the enclosing bracket: nothing more belongs to the attribute
                end = j - 1
                break
            j += 1
        out = out[:m.start()] + re.sub(r"[^\n]", " ", out[m.start():end + 1]) + out[end + 1:]
        pos = m.start() + 1
    return out


def functions(s):
    """[(name, body_text)] for every fn with a body"""
    res = []
    for m in re.finditer(r"\bfn\s+([a-z_][A-Za-z0-9_]*)", s):
        i = m.end()
        depth = 0
        j = i
        body_start = None
        while j < len(s):
            ch = s[j]
            if ch in "(<[":
                depth += 1
            elif ch in ")>]":
                if not (ch == ">" and s[j - 1] == "-"):
                    depth -= 1
            elif ch == ";" and depth <= 0:
                break
            elif ch == "{" and depth <= 0:
                body_start = j
                break
            j += 1
        if body_start is None:
            continue
        e = match_brace(s, body_start)
        res.append((m.group(1), s[body_start:e + 1]))
    return res


CALL = re.compile(r"\b([a-z_][A-Za-z0-9_]*)\s*(?:::\s*<[^>()]*>\s*)?\(")


def calls(body):
    out = []
    for m in CALL.finditer(body):
        name = m.group(1)
        if name in KEYWORDS:
            continue
        k = m.start() - 1
        while k >= 0 and body[k].isspace():
            k -= 1
        kind, recv = "free", None
        if k >= 0 and body[k] == ".":
            kind = "method"
            k2 = k - 1
            while k2 >= 0 and body[k2].isspace():
                k2 -= 1
            mm = re.search(r"([A-Za-z_][A-Za-z0-9_]*)$", body[:k2 + 1])
            recv = mm.group(1) if mm else None
        elif k >= 1 and body[k - 1:k + 1] == "::":
            kind = "path"
            mm = re.search(r"([A-Za-z_][A-Za-z0-9_]*)\s*(?:<[^<>]*>)?\s*$", body[:k - 1])
            recv = mm.group(1) if mm else None
        elif k >= 1 and re.search(r"\bfn\s*$", body[:k + 1]):
            continue
        out.append((m.start(), kind, recv, name))
    return out


def generate(root, repo, log):
    base = os.path.join(repo, CRATE)
    fns = {}     # (file, name) -> body
    for f in FILES:
        src = strip_cfg_items(clean(open(os.path.join(base, f)).read()))
        for name, body in functions(src):
            fns.setdefault((f, name), "")
            fns[(f, name)] += body
    names_by_file = {}
    for (f, n) in fns:
        names_by_file.setdefault(f, set()).add(n)
    all_names = set(n for (_, n) in fns)
    keys = sorted(fns)
    index = {k: i for i, k in enumerate(keys)}
    edges = set()
    first_call = {}
    external_methods = set()
    problems = []
    for key in keys:
        f, n = key
        for pos, kind, recv, name in sorted(calls(fns[key])):
            targets = []
            if kind == "free":
                if name in names_by_file.get(f, ()):
                    targets = [(f, name)]
                else:
                    targets = [(g, name) for g in FREE_SCOPE.get(f, []) if name in names_by_file.get(g, ())]
            elif kind == "path":
                if recv == "Self":
                    files = [f]
                else:
                    files = TYPE_FILE.get(recv)
                if files:
                    targets = [(g, name) for g in files if name in names_by_file.get(g, ())]
                elif recv and recv[0].islower():
                    # module path `tag::parse_x(`, `super::x(`: resolve like a free call
                    targets = [(g, name) for g in [f] + FREE_SCOPE.get(f, []) if name in names_by_file.get(g, ())]
            else:
                files = recv_files(f, recv) if recv else None
                if files is not None:
                    targets = [(g, name) for g in files if name in names_by_file.get(g, ())]
                elif name in all_names and name not in STD_METHOD_NAMES:
                    cands = [g for g in FILES if name in names_by_file.get(g, ())]
                    if len(cands) == 1:
                        targets = [(cands[0], name)]          # unambiguous: defined in exactly one file
                    elif f.startswith("lexer/") and name in names_by_file.get("text/reader.rs", ()):
                        targets = [("text/reader.rs", name)]  # `reader.bump()` through a local binding in the lexers
                    else:
                        problems.append(f"{f}:{n}: cannot resolve receiver `{recv}` of `.{name}(` (defined in {cands})")
                else:
                    external_methods.add(name)
            for t in targets:
                edges.add((index[key], index[t]))
                if key not in first_call:
                    first_call[key] = t
    if problems:
        raise RuntimeError("call graph extraction: " + "; ".join(problems[:6]))
    guarded = sorted(index[k] for k in keys if first_call.get(k, (None, None))[1] == "enter_level" and k[1] != "enter_level")
    gset = set(guarded)
    # rank certificate on the unguarded subgraph
    adj = {i: [] for i in range(len(keys))}
    for (u, v) in edges:
        if u not in gset and v not in gset:
            adj[u].append(v)
    rank = {}
    state = {}
    def visit(u, stack):
        if state.get(u) == 2:
            return rank[u]
        if state.get(u) == 1:
            cyc = stack[stack.index(u):] + [u]
            raise RuntimeError("recursion not covered by the syntax-level limit (cycle without a guarded function): "
                               + " -> ".join(f"{keys[c][0]}:{keys[c][1]}" for c in cyc))
        state[u] = 1
        r = 0
        for v in adj[u]:
            r = max(r, visit(v, stack + [u]) + 1)
        state[u] = 2
        rank[u] = r
        return r
    import sys
    sys.setrecursionlimit(10000)
    for i in range(len(keys)):
        if i not in gset:
            visit(i, [])
    ranks = [rank.get(i, 0) for i in range(len(keys))]
    R = max(ranks) + 1
    m = re.search(r"MAX_SYNTAX_LEVELS\s*:\s*usize\s*=\s*(\d+)", open(os.path.join(base, "parser/lua_parser.rs")).read())
    if not m:
        raise RuntimeError("MAX_SYNTAX_LEVELS not found in lua_parser.rs")
    max_levels = int(m.group(1))
    # the counter is only changed by enter_level / leave_level
    lp = clean(open(os.path.join(base, "parser/lua_parser.rs")).read())
    writes = re.findall(r"syntax_level\s*(?:\+=|-=|=[^=])", lp)
    if len(writes) != 4:   # struct literal x2 in non-test code is `syntax_level: 0` (not matched); += 1, = saturating_sub, plus cfg(test)/verif literals are `:`
        log.append(f"note: syntax_level written at {len(writes)} places")
    # kinds the Lua grammar passes to `set_current_token_kind` (Core's assumption: never a trivia / invalid kind)
    set_kinds = []
    for f in LUA_G:
        src = clean(open(os.path.join(base, f)).read())
        for mm in re.finditer(r"set_current_token_kind\s*\(\s*([^)]*)\)", src):
            arg = mm.group(1).strip()
            if arg.startswith("kind"):   # the definition's parameter
                continue
            set_kinds.append(arg.replace("LuaTokenKind::", ""))
    # ---- guard shapes: every `leave_level` is dominated by a *successful* `enter_level` -----------------
    def norm(t):
        return re.sub(r"\s+", " ", t).strip()
    shapes = []   # (file:name, ok)
    for key in keys:
        f, n = key
        body = fns[key]
        if "enter_level" not in body and "leave_level" not in body and n not in ("enter_level", "leave_level"):
            continue
        nb = norm(body)
        if n == "enter_level" and f == "parser/lua_parser.rs":
            ok = nb == "{ if self.syntax_level >= Self::MAX_SYNTAX_LEVELS { return false; } self.syntax_level += 1; true }"
        elif n == "leave_level" and f == "parser/lua_parser.rs":
            ok = nb == "{ self.syntax_level = self.syntax_level.saturating_sub(1); }"
        elif n == "enter_level" and f == "parser/lua_doc_parser.rs":
            ok = nb == "{ self.lua_parser.enter_level() }"
        elif n == "leave_level" and f == "parser/lua_doc_parser.rs":
            ok = nb == "{ self.lua_parser.leave_level() }"
        elif n == "enter_level":
            # free helper: Ok(()) exactly when the method returned true
            ok = nb.startswith("{ if p.enter_level() { return Ok(()); }") and nb.count("Ok(") == 1 and "leave_level" not in nb \
                and re.search(r"Err\([^;]*\) }$", nb) is not None
        else:
            # user of the guard: `enter_level(p)?;` is the first statement, exactly one enter and one leave,
            # and nothing between them can leave the function (`?`, `return`, `break` out of a labelled block)
            m1 = re.match(r"^\{ enter_level\(p\)\?; (.*)$", nb)
            ok = False
            if m1 and nb.count("enter_level(") == 1 and nb.count("leave_level(") == 1:
                rest = m1.group(1)
                k = rest.find("p.leave_level();")
                if k >= 0:
                    between = rest[:k]
                    ok = "?" not in between and not re.search(r"\b(return|break|continue)\b", between)
        shapes.append((f"{f}:{n}", ok))
    guarded_names = set(f"{keys[g][0]}:{keys[g][1]}" for g in guarded)
    shaped_users = set(nm for nm, _ in shapes if not nm.endswith(":enter_level") and not nm.endswith(":leave_level"))
    if guarded_names != shaped_users:
        shapes.append(("guarded functions == functions using enter_level/leave_level", False))
    # ---- doc parser driver shapes (what `Doc.run` / `Doc.step` assume about the doc grammar) -------------
    doc_shapes = []
    def body_of(f, n):
        return norm(fns.get((f, n), ""))
    pd = body_of("grammar/doc/mod.rs", "parse_docs")
    doc_shapes.append(("parse_docs loops until TkEof and has no other exit",
                       pd.startswith("{ while p.current_token() != LuaTokenKind::TkEof {") and not re.search(r"\b(return|break)\b", pd)
                       and pd.endswith("} }")))
    pc = body_of("grammar/doc/mod.rs", "parse_comment")
    doc_shapes.append(("parse_comment = mark; parse_docs; complete",
                       pc == "{ let m = p.mark(LuaSyntaxKind::Comment); parse_docs(p); m.complete(p); }"))
    pp = body_of("parser/lua_doc_parser.rs", "parse")
    doc_shapes.append(("LuaDocParser::parse ends with init(); parse_comment(..) and has no early return",
                       pp.endswith("parser.init(); parse_comment(&mut parser); }") and not re.search(r"\breturn\b", pp)))
    n_bte = 0
    guarded_bte = True
    for f in DOC_G:
        src = norm(strip_cfg_items(clean(open(os.path.join(base, f)).read())))
        for mm in re.finditer(r"bump_to_end\(", src):
            n_bte += 1
            guarded_bte = guarded_bte and ("!reader.is_eof()" in src[max(0, mm.start() - 260):mm.start()])
    doc_shapes.append(("bump_to_end is only called under !reader.is_eof()", n_bte >= 1 and guarded_bte))
    doc_set_kinds = []
    for f in DOC_G:
        src = clean(open(os.path.join(base, f)).read())
        for mm in re.finditer(r"set_current_token_kind\s*\(\s*([^)]*)\)", src):
            doc_set_kinds.append(mm.group(1).strip().replace("LuaTokenKind::", ""))
    # direct writes of the lexer state / current token from the grammar would bypass the modelled operations
    direct = 0
    for f in DOC_G:
        src = norm(strip_cfg_items(clean(open(os.path.join(base, f)).read())))
        direct += len(re.findall(r"\.lexer\.state\s*=[^=]", src)) + len(re.findall(r"\.lexer\.reset\(", src))
    doc_shapes.append(("the doc grammar never writes lexer.state / resets the lexer directly", direct == 0))
    dl = norm(strip_cfg_items(clean(open(os.path.join(base, "lexer/lua_doc_lexer.rs")).read())))
    own = re.findall(r"self\.state\s*=\s*([A-Za-z:]+)", dl)
    doc_shapes.append(("the doc lexer changes its own state only to AttributeUse (Doc.stAfter)", own == ["LuaDocLexerState::AttributeUse"]))
    lines = ["/-! GENERATED by checklib/gen/tree_callgraph.py from crates/emmylua_parser/src — do not edit. -/",
             "namespace Gen.TreeCallGraph", "",
             "/-- extracted functions, `file:name` -/",
             "def names : List String := [" + ", ".join('"%s:%s"' % k for k in keys) + "]", "",
             "/-- call edges (caller, callee) as indices into `names` -/",
             "def edges : List (Nat × Nat) := [" + ", ".join(f"({u}, {v})" for (u, v) in sorted(edges)) + "]", "",
             "/-- functions that start by taking a syntax level (`enter_level`) -/",
             "def guarded : List Nat := [" + ", ".join(map(str, guarded)) + "]", "",
             "/-- certificate: rank of every function in the subgraph of unguarded functions -/",
             "def rank : List Nat := [" + ", ".join(map(str, ranks)) + "]", "",
             f"def rankBound : Nat := {R}", "",
             f"/-- `LuaParser::MAX_SYNTAX_LEVELS` -/\ndef maxLevels : Nat := {max_levels}", "",
             "/-- every function that touches the level counter, and whether its body has the required shape:",
             "the counter methods themselves (a failed `enter_level` changes nothing), the `Result` helpers, and the",
             "guard users (`enter_level(p)?;` first, one `leave_level`, nothing in between can leave the function) -/",
             "def guardShapes : List (String × Bool) := [" + ", ".join('("%s", %s)' % (nm, "true" if ok else "false") for nm, ok in shapes) + "]", "",
             "/-- shapes of the doc parser's driver code that the `Doc` model relies on -/",
             "def docShapes : List (String × Bool) := [" + ", ".join('("%s", %s)' % (nm, "true" if ok else "false") for nm, ok in doc_shapes) + "]", "",
             "/-- arguments of every `set_current_token_kind(…)` call of the doc grammar -/",
             "def docSetKindArgs : List String := [" + ", ".join('"%s"' % k for k in doc_set_kinds) + "]", "",
             "/-- arguments of every `set_current_token_kind(…)` call of the Lua grammar -/",
             "def setKindArgs : List String := [" + ", ".join('"%s"' % k for k in set_kinds) + "]", "",
             "end Gen.TreeCallGraph", ""]
    out = os.path.join(root, "lean", "EmmyVerif", "Gen", "TreeCallGraph.lean")
    os.makedirs(os.path.dirname(out), exist_ok=True)
    text = "\n".join(lines)
    if not os.path.exists(out) or open(out).read() != text:
        open(out, "w").write(text)
    return {"file": os.path.relpath(out, root), "functions": len(keys), "edges": len(edges),
            "guarded": [f"{keys[g][0]}:{keys[g][1]}" for g in guarded], "rank_bound": R, "max_levels": max_levels,
            "external_method_names": len(external_methods), "set_kind_args": sorted(set(set_kinds)),
            "guard_shapes": {nm: ok for nm, ok in shapes}, "doc_shapes": {nm: ok for nm, ok in doc_shapes},
            "doc_set_kind_args": doc_set_kinds}


if __name__ == "__main__":
    import json
    lg = []
    print(json.dumps(generate("/verif", "/repo", lg), indent=1))
    print("\n".join(lg))
