"""T-exec generator for C20: builds the diag harness against /repo's working tree and runs
`vh-diag gen-table`, which evaluates the real is_checker_enable_by_code / get_severity /
is_code_default_enable / get_default_severity over all codes x all switch combinations and writes
lean/EmmyVerif/Gen/DiagTable.lean (rewritten only when its content changes, so the Lean cache survives)."""
import fcntl, json, os, subprocess


def generate(root, repo, log):
    harness = os.path.join(root, "harness")
    out = os.path.join(root, "lean", "EmmyVerif", "Gen", "DiagTable.lean")
    os.makedirs(os.path.dirname(out), exist_ok=True)
    os.makedirs(os.path.join(root, ".locks"), exist_ok=True)
    env = dict(os.environ, CARGO_NET_OFFLINE="true")
    with open(os.path.join(root, ".locks", "cargo"), "w") as lock:
        fcntl.flock(lock, fcntl.LOCK_EX)
        try:
            p = subprocess.run(["cargo", "build", "-q", "-p", "vh-diag"], cwd=harness, env=env,
                               stdout=subprocess.PIPE, stderr=subprocess.STDOUT, text=True, timeout=3000)
        finally:
            fcntl.flock(lock, fcntl.LOCK_UN)
    log.append(p.stdout[-3000:])
    if p.returncode != 0:
        errs = [l for l in p.stdout.splitlines() if "error" in l][:6]
        raise RuntimeError("vh-diag does not build against /repo: " + " | ".join(errs))
    exe = os.path.join(harness, "target", "debug", "vh-diag")
    p = subprocess.run([exe, "gen-table", "--out", out], cwd=root, stdout=subprocess.PIPE,
                       stderr=subprocess.STDOUT, text=True, timeout=600)
    log.append(p.stdout[-2000:])
    if p.returncode != 0:
        raise RuntimeError("vh-diag gen-table failed: " + p.stdout[-400:])
    info = json.loads(p.stdout.strip().splitlines()[-1])
    info["file"] = os.path.relpath(out, root)
    return info
