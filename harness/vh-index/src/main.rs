//! Harness binary of the index cluster: C33 (require resolution), C10 / C08 / C09 (db_index lifecycle).
mod analysis;
mod dbtie;
mod lifecycle;
mod module;
mod symtie;

use vh_common::{Args, Report};

fn main() {
    let args = Args::parse();
    vh_common::silence_panics();
    let mut report = Report::default();
    match args.prop.as_str() {
        "C33" => module::run(&args, &mut report),
        "C10" | "C08" | "C09" => lifecycle::run(&args, &mut report),
        other => {
            eprintln!("vh-index: unknown property {other}");
            std::process::exit(2);
        }
    }
    report.write(&args.out);
}
