//! Tie of the generic `Index.Db` model: the same file-tagged mutation histories are applied to a real
//! `DbIndex` through the public `add_*` / `remove` / `clear` methods and to the Lean model (`index.db`);
//! entry counts (`verif_report`) and lookups over the key universe must agree after every step.
use emmylua_code_analysis::{
    AnalyzeError, DbIndex, DiagnosticCode, FileId, LuaDeclId, LuaIndex, LuaMemberKey, LuaSemanticDeclId, LuaSignatureId,
    LuaTypeDeclId,
};
use emmylua_parser::{LuaAstNode, LuaClosureExpr, LuaKind, LuaParser, LuaSyntaxId, LuaSyntaxKind, ParserConfig};
use rowan::{TextRange, TextSize};
use serde_json::{Value, json};
use std::collections::HashSet;
use vh_common::{Report, Rng, run_driver};

const CODES: &[DiagnosticCode] = &[
    DiagnosticCode::SyntaxError,
    DiagnosticCode::UndefinedGlobal,
    DiagnosticCode::Unused,
    DiagnosticCode::Deprecated,
    DiagnosticCode::TypeNotFound,
    DiagnosticCode::MissingReturn,
];

fn closures() -> Vec<LuaClosureExpr> {
    let text = "local a = function() end\nlocal b = function() end\nlocal c = function() end\nlocal d = function() end\n";
    let tree = LuaParser::parse(text, ParserConfig::default());
    tree.get_chunk_node().descendants::<LuaClosureExpr>().collect()
}

fn owner(o: u32) -> LuaSemanticDeclId {
    if o < 100 {
        LuaSemanticDeclId::TypeDecl(LuaTypeDeclId::global(&format!("T{o}")))
    } else {
        LuaSemanticDeclId::LuaDecl(LuaDeclId::new(FileId { id: (o - 100) / 10 }, TextSize::new(o % 10)))
    }
}

fn sid(v: u32) -> LuaSyntaxId {
    LuaSyntaxId::new(LuaKind::Syntax(LuaSyntaxKind::NameExpr), TextRange::new(TextSize::new(v), TextSize::new(v + 1)))
}

fn rng0() -> TextRange {
    TextRange::new(TextSize::new(0), TextSize::new(0))
}

/// apply one token to the real index; `c` / `g` produce output items
fn apply(db: &mut DbIndex, cl: &[LuaClosureExpr], tok: &str, out: &mut Vec<String>) {
    let p: Vec<&str> = tok.split(':').collect();
    let n = |i: usize| p.get(i).and_then(|x| x.parse::<u32>().ok()).unwrap_or(0);
    match p[0] {
        "p" => {
            let f = FileId { id: n(1) };
            match n(2) {
                0 => db.get_diagnostic_index_mut().add_diagnostic(f, AnalyzeError::new(DiagnosticCode::SyntaxError, &n(3).to_string(), rng0())),
                10 => db.get_file_dependencies_index_mut().add_required_file(f, FileId { id: n(3) }),
                _ => db.get_diagnostic_index_mut().add_file_diagnostic_disabled(f, CODES[n(3) as usize % CODES.len()]),
            }
        }
        "k" => db.get_global_index_mut().add_global_decl(&format!("g{}", n(3)), LuaDeclId::new(FileId { id: n(1) }, TextSize::new(n(4)))),
        "n" => {
            let f = FileId { id: n(1) };
            if n(2) == 0 {
                db.get_reference_index_mut().add_index_reference(LuaMemberKey::Name(format!("k{}", n(3)).into()), f, sid(n(4)));
            } else {
                db.get_reference_index_mut().add_global_reference(&format!("g{}", n(3)), f, sid(n(4)));
            }
        }
        "o" => {
            let id = LuaSignatureId::from_closure(FileId { id: n(1) }, &cl[n(3) as usize % cl.len()]);
            db.get_signature_index_mut().get_or_create(id);
        }
        "d" => {
            let f = FileId { id: n(1) };
            if n(3) == 0 {
                db.get_property_index_mut().add_description(f, owner(n(2)), n(4).to_string());
            } else {
                db.get_property_index_mut().add_source(f, owner(n(2)), n(4).to_string());
            }
        }
        "r" => db.remove(FileId { id: n(1) }),
        "x" => db.clear(),
        "c" => {
            let r = db.verif_report();
            let get = |k: &str| r.iter().find(|x| x.0 == k).map(|x| x.1).unwrap_or(usize::MAX);
            let keys = [
                "diagnostic.diagnostics", "diagnostic.diagnostics.items", "dependency.dependencies", "dependency.dependencies.items",
                "diagnostic.file_diagnostic_disabled", "diagnostic.file_diagnostic_disabled.items",
                "global.global_decl", "global.global_decl.items",
                "reference.index_reference", "reference.index_reference.items", "reference.global_references", "reference.global_references.items",
                "signature.signatures", "signature.in_file_signatures", "signature.in_file_signatures.items",
                "property.properties", "property.property_owners_map", "property.in_filed_owner", "property.in_filed_owner.items",
            ];
            out.push(format!("c={}", keys.iter().map(|k| get(k).to_string()).collect::<Vec<_>>().join(",")));
        }
        "g" => {
            let mut items: Vec<String> = Vec::new();
            let nums = |v: Vec<u32>| v.iter().map(|x| x.to_string()).collect::<Vec<_>>().join(".");
            for slot in [0u32, 10, 11] {
                for f in 0..4u32 {
                    let fid = FileId { id: f };
                    let v: Vec<u32> = match slot {
                        0 => db.get_diagnostic_index().get_diagnostics(&fid).map(|d| d.iter().map(|e| e.message.parse().unwrap_or(999)).collect()).unwrap_or_default(),
                        10 => {
                            let mut v: Vec<u32> = db.get_file_dependencies_index().get_required_files(&fid).map(|s| s.iter().map(|x| x.id).collect()).unwrap_or_default();
                            v.sort();
                            v
                        }
                        _ => (0..CODES.len() as u32).filter(|i| db.get_diagnostic_index().is_file_disabled(&fid, &CODES[*i as usize])).collect(),
                    };
                    items.push(format!("p{slot}.{f}={}", nums(v)));
                }
            }
            for k in 0..4u32 {
                let v: Vec<String> = db.get_global_index().get_global_decl_ids(&format!("g{k}")).map(|v| v.iter().map(|d| format!("{}:{}", d.file_id.id, u32::from(d.position))).collect()).unwrap_or_default();
                items.push(format!("k0.{k}={}", v.join(".")));
            }
            for m in [0u32, 1] {
                for k in 0..4u32 {
                    let refs = if m == 0 {
                        db.get_reference_index().get_index_references(&LuaMemberKey::Name(format!("k{k}").into()))
                    } else {
                        db.get_reference_index().get_global_references(&format!("g{k}"))
                    }
                    .unwrap_or_default();
                    for f in 0..4u32 {
                        let mut v: Vec<u32> = refs.iter().filter(|r| r.file_id.id == f).map(|r| u32::from(r.value.get_range().start())).collect();
                        v.sort();
                        items.push(format!("n{m}.{k}.{f}={}", nums(v)));
                    }
                }
            }
            let mut owners: Vec<u32> = vec![0, 1, 2];
            for f in 0..4u32 {
                owners.push(100 + 10 * f);
                owners.push(101 + 10 * f);
            }
            for o in owners {
                let s = match db.get_property_index().get_property(&owner(o)) {
                    None => "none".to_string(),
                    Some(p) => format!("{}/{}", p.description().cloned().unwrap_or("none".into()), p.source().cloned().unwrap_or("none".into())),
                };
                items.push(format!("d{o}={s}"));
            }
            for f in 0..4u32 {
                for i in 0..4u32 {
                    let id = LuaSignatureId::from_closure(FileId { id: f }, &cl[i as usize % cl.len()]);
                    items.push(format!("o{f}.{i}={}", db.get_signature_index().get(&id).is_some() as u8));
                }
            }
            out.push(format!("g={}", items.join(";")));
        }
        _ => {}
    }
}

pub fn run_impl(tokens: &[String]) -> Vec<String> {
    let cl = closures();
    let mut db = DbIndex::new();
    let mut out = Vec::new();
    for t in tokens {
        apply(&mut db, &cl, t, &mut out);
    }
    out
}

/// one mutation token of file `f`; `shared_props` = whether doc properties may go to owners shared between files
fn gen_mut(rng: &mut Rng, f: u32, shared_props: bool) -> String {
    match rng.below(9) {
        0 => format!("p:{f}:0:{}", rng.below(6)),
        1 => format!("p:{f}:10:{}", rng.below(4)),
        2 => format!("p:{f}:11:{}", rng.below(6)),
        3 | 4 => format!("k:{f}:0:{}:{}", rng.below(4), rng.below(6)),
        5 => format!("n:{f}:{}:{}:{}", rng.below(2), rng.below(4), rng.below(6)),
        6 => format!("o:{f}:0:{}:0", rng.below(4)),
        _ => {
            let o = if shared_props && rng.chance(1, 2) { rng.below(3) as u32 } else { 100 + 10 * f + rng.below(2) as u32 };
            format!("d:{f}:{o}:{}:{}", rng.below(2), rng.below(6))
        }
    }
}

/// a history of analyse / update / remove / reindex steps over ≤ 4 files, flattened to tokens, with `c g`
/// probes after every step. `shared_props = false` keeps doc-property owners private to their file
/// (the complement of the open property finding).
pub fn gen_history(rng: &mut Rng, shared_props: bool) -> Vec<String> {
    let nfiles = rng.range(2, 4) as u32;
    let mut contrib: Vec<Vec<String>> = (0..nfiles).map(|f| (0..rng.range(1, 6)).map(|_| gen_mut(rng, f, shared_props)).collect()).collect();
    let mut live: Vec<bool> = vec![false; nfiles as usize];
    let mut toks = Vec::new();
    for _ in 0..rng.range(3, 9) {
        let f = rng.below(nfiles as usize);
        match rng.below(10) {
            0..=3 => {
                // (re-)submit: remove_index + contributions, possibly edited
                if live[f] {
                    toks.push(format!("r:{f}"));
                }
                if rng.chance(1, 3) {
                    contrib[f] = (0..rng.range(1, 6)).map(|_| gen_mut(rng, f as u32, shared_props)).collect();
                }
                toks.extend(contrib[f].iter().cloned());
                live[f] = true;
            }
            4..=6 => {
                toks.push(format!("r:{f}"));
                live[f] = false;
            }
            7 => {
                // interleaved analysis of two files (batch analysis runs phases over all files)
                let g = rng.below(nfiles as usize);
                for x in [f, g] {
                    if live[x] {
                        toks.push(format!("r:{x}"));
                    }
                }
                let n = contrib[f].len().max(contrib[g].len());
                for i in 0..n {
                    if let Some(t) = contrib[f].get(i) { toks.push(t.clone()); }
                    if f != g { if let Some(t) = contrib[g].get(i) { toks.push(t.clone()); } }
                }
                live[f] = true;
                live[g] = true;
            }
            _ => {
                // reindex: clear + all live files in id order
                toks.push("x".into());
                toks.push("c".into());
                for x in 0..nfiles as usize {
                    if live[x] {
                        toks.extend(contrib[x].iter().cloned());
                    }
                }
            }
        }
        toks.push("c".into());
        toks.push("g".into());
    }
    toks
}

fn compare(tokens: &[String], model: &str, report: &mut Report) {
    let imp = vh_common::catch({
        let t = tokens.to_vec();
        move || run_impl(&t)
    });
    let imp = match imp {
        Ok(v) => format!("ok {}", v.join(" ")),
        Err(e) => format!("err panic ({e})"),
    };
    if imp != model {
        let a: Vec<&str> = imp.split(' ').collect();
        let b: Vec<&str> = model.split(' ').collect();
        let k = a.iter().zip(b.iter()).position(|(x, y)| x != y).unwrap_or(a.len().min(b.len()));
        let (ai, bi) = (a.get(k).copied().unwrap_or(""), b.get(k).copied().unwrap_or(""));
        let (af, bf): (Vec<&str>, Vec<&str>) = (ai.split(';').collect(), bi.split(';').collect());
        let j = af.iter().zip(bf.iter()).position(|(x, y)| x != y).unwrap_or(0);
        report.mismatch(json!({"input": {"db_tokens": tokens}, "first_difference_at_item": k,
            "impl": af.get(j).or(Some(&ai)), "model": bf.get(j).or(Some(&bi)),
            "tie": "correspondence index.db (DbIndex public add/remove/clear methods vs Index.Db model)"}));
    } else {
        report.traces_validated += 1;
    }
}

/// every history of ≤ `max_len` steps over {submit f, remove f | f < 3} ∪ {reindex} for 4 fixed contribution shapes
pub fn exhaustive_histories(max_len: usize) -> Vec<Vec<String>> {
    let t = |v: &[&str]| v.iter().map(|s| s.to_string()).collect::<Vec<String>>();
    let shapes: Vec<Vec<Vec<String>>> = vec![
        // all files push under the same keys
        vec![t(&["k:0:0:1:1", "n:0:0:1:1", "n:0:1:1:2", "p:0:0:1"]), t(&["k:1:0:1:2", "n:1:0:1:1", "n:1:1:1:3", "p:1:10:0"]), t(&["k:2:0:1:3", "k:2:0:1:3", "n:2:0:1:4", "p:2:11:2"])],
        // disjoint keys, id-owned entries
        vec![t(&["k:0:0:0:1", "o:0:0:0:0", "o:0:0:1:0", "n:0:0:0:1"]), t(&["k:1:0:1:1", "o:1:0:0:0", "n:1:1:1:1"]), t(&["k:2:0:2:1", "o:2:0:2:0", "o:2:0:2:0", "p:2:0:3", "p:2:0:3"])],
        // doc properties: shared owner 0, private owners
        vec![t(&["d:0:0:0:1", "d:0:100:0:2", "d:0:100:1:3"]), t(&["d:1:0:1:4", "d:1:110:0:5"]), t(&["d:2:1:0:6", "d:2:120:1:7", "k:2:0:0:1"])],
        // sets with duplicates, mixed
        vec![t(&["p:0:10:1", "p:0:10:1", "p:0:11:0", "n:0:0:2:1", "n:0:0:2:1"]), t(&["p:1:10:0", "p:1:11:0", "p:1:11:3", "k:1:0:3:1"]), t(&["p:2:0:1", "p:2:0:1", "o:2:0:3:0", "n:2:1:3:5"])],
    ];
    let mut out = Vec::new();
    for contrib in &shapes {
        // op codes: 0..3 submit f, 3..6 remove f, 6 reindex
        let mut frontier: Vec<Vec<u8>> = vec![vec![]];
        for _ in 0..max_len {
            let mut next = Vec::new();
            for h in &frontier {
                for o in 0..7u8 {
                    let mut h2 = h.clone();
                    h2.push(o);
                    next.push(h2);
                }
            }
            for h in &next {
                let mut live = [false; 3];
                let mut toks: Vec<String> = Vec::new();
                for &o in h {
                    match o {
                        0..=2 => {
                            let f = o as usize;
                            if live[f] { toks.push(format!("r:{f}")); }
                            toks.extend(contrib[f].iter().cloned());
                            live[f] = true;
                        }
                        3..=5 => {
                            let f = (o - 3) as usize;
                            toks.push(format!("r:{f}"));
                            live[f] = false;
                        }
                        _ => {
                            toks.push("x".into());
                            toks.push("c".into());
                            for f in 0..3 {
                                if live[f] { toks.extend(contrib[f].iter().cloned()); }
                            }
                        }
                    }
                    toks.push("c".into());
                    toks.push("g".into());
                }
                out.push(toks);
            }
            frontier = next;
        }
    }
    out
}

pub fn run(_prop: &str, rng: &mut Rng, n: usize, thorough: bool, report: &mut Report) {
    let mut hs: Vec<Vec<String>> = if thorough { exhaustive_histories(5) } else { exhaustive_histories(3) };
    report.add("db_tie_exhaustive_histories", hs.len() as u64);
    for i in 0..n {
        hs.push(gen_history(rng, i % 3 == 0));
    }
    let reqs: Vec<String> = hs.iter().map(|h| format!("index.db {}", h.join(" "))).collect();
    let model = run_driver(&reqs);
    let mut seen = HashSet::new();
    for (h, m) in hs.iter().zip(model.iter()) {
        report.evaluations += 1;
        report.count("db_tie_histories");
        report.add("db_tie_tokens", h.len() as u64);
        if h.iter().any(|t| t.starts_with("r:")) && h.iter().any(|t| t == "x") {
            report.count("db_tie_with_remove_and_clear");
        }
        if h.iter().filter(|t| t.starts_with("r:")).count() >= 1 && seen.insert(h.join(" ")) {
            report.distinct_nontrivial += 1;
        }
        compare(h, m, report);
    }
}

pub fn replay(v: &Value, report: &mut Report) {
    if let Some(toks) = v["db_tokens"].as_array() {
        let h: Vec<String> = toks.iter().filter_map(|t| t.as_str().map(|s| s.to_string())).collect();
        let model = run_driver(&[format!("index.db {}", h.join(" "))]);
        report.evaluations += 1;
        compare(&h, &model[0], report);
    }
}
