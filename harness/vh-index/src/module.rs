//! C33: `LuaModuleIndex` (public API) vs the Lean `Index.Module` model through `vdriver`, plus an
//! independent reference resolver as the implementation-side oracle.
use emmylua_code_analysis::{
    Emmyrc, FileId, LuaIndex, LuaModuleIndex, ModuleVisibility, WorkspaceId, WorkspaceImport,
};
use serde_json::{Value, json};
use std::collections::HashSet;
use std::path::PathBuf;
use std::sync::Arc;
use vh_common::{Args, Report, Rng, hex, run_driver};

#[derive(Clone, Debug)]
pub struct Ws {
    pub root: String,
    pub id: u32,
    pub pkg: Option<String>,
}

#[derive(Clone, Debug)]
pub struct Rule {
    pub pre: String,
    pub suf: String,
    pub rpre: String,
    pub rsuf: String,
}

#[derive(Clone, Debug)]
pub struct Cfg {
    pub fuzzy: bool,
    pub patterns: Vec<String>,
    pub wss: Vec<Ws>,
    pub rules: Vec<Rule>,
}

#[derive(Clone, Debug)]
pub enum Op {
    Add(u32, String),
    AddMod(u32, String, u32),
    Remove(u32),
    Hide(u32, bool),
    Query(String),
    Node(String),
    Sizes,
    /// `LuaIndex::clear`
    Clear,
    /// `update_config`: (fuzzy, runtime.extensions, runtime.requirePattern, workspace.moduleMap as rule fragments)
    Config(bool, Vec<String>, Vec<String>, Vec<Rule>),
}

#[derive(Clone, Debug)]
pub struct Case {
    pub cfg: Cfg,
    pub ops: Vec<Op>,
}

// ---------------------------------------------------------------- json (replay)

impl Case {
    pub fn to_json(&self) -> Value {
        json!({
            "fuzzy": self.cfg.fuzzy,
            "patterns": self.cfg.patterns,
            "workspaces": self.cfg.wss.iter().map(|w| json!({"root": w.root, "id": w.id, "package": w.pkg})).collect::<Vec<_>>(),
            "module_map": self.cfg.rules.iter().map(|r| json!({"pre": r.pre, "suf": r.suf, "rpre": r.rpre, "rsuf": r.rsuf})).collect::<Vec<_>>(),
            "ops": self.ops.iter().map(|o| match o {
                Op::Add(f, p) => json!(["add", f, p]),
                Op::AddMod(f, p, w) => json!(["addmod", f, p, w]),
                Op::Remove(f) => json!(["remove", f]),
                Op::Hide(f, b) => json!(["hide", f, b]),
                Op::Query(q) => json!(["query", q]),
                Op::Node(q) => json!(["node", q]),
                Op::Sizes => json!(["sizes"]),
                Op::Clear => json!(["clear"]),
                Op::Config(fz, e, rp, rules) => json!(["config", fz, e, rp, rules.iter().map(|r| json!([r.pre, r.suf, r.rpre, r.rsuf])).collect::<Vec<_>>()]),
            }).collect::<Vec<_>>(),
        })
    }

    pub fn from_json(v: &Value) -> Option<Case> {
        let s = |x: &Value| x.as_str().map(|s| s.to_string());
        let cfg = Cfg {
            fuzzy: v["fuzzy"].as_bool()?,
            patterns: v["patterns"].as_array()?.iter().filter_map(s).collect(),
            wss: v["workspaces"].as_array()?.iter().map(|w| Ws {
                root: w["root"].as_str().unwrap_or("").to_string(),
                id: w["id"].as_u64().unwrap_or(1) as u32,
                pkg: w["package"].as_str().map(|s| s.to_string()),
            }).collect(),
            rules: v["module_map"].as_array()?.iter().map(|r| Rule {
                pre: r["pre"].as_str().unwrap_or("").to_string(),
                suf: r["suf"].as_str().unwrap_or("").to_string(),
                rpre: r["rpre"].as_str().unwrap_or("").to_string(),
                rsuf: r["rsuf"].as_str().unwrap_or("").to_string(),
            }).collect(),
        };
        let mut ops = Vec::new();
        for o in v["ops"].as_array()? {
            let a = o.as_array()?;
            let f = || a.get(1).and_then(|x| x.as_u64()).unwrap_or(0) as u32;
            let st = |i: usize| a.get(i).and_then(|x| x.as_str()).unwrap_or("").to_string();
            ops.push(match a.first()?.as_str()? {
                "add" => Op::Add(f(), st(2)),
                "addmod" => Op::AddMod(f(), st(2), a.get(3).and_then(|x| x.as_u64()).unwrap_or(1) as u32),
                "remove" => Op::Remove(f()),
                "hide" => Op::Hide(f(), a.get(2).and_then(|x| x.as_bool()).unwrap_or(true)),
                "query" => Op::Query(st(1)),
                "node" => Op::Node(st(1)),
                "sizes" => Op::Sizes,
                "clear" => Op::Clear,
                "config" => {
                    let strs = |i: usize| a.get(i).and_then(|x| x.as_array()).map(|v| v.iter().filter_map(|x| x.as_str().map(|s| s.to_string())).collect::<Vec<_>>()).unwrap_or_default();
                    let rules = a.get(4).and_then(|x| x.as_array()).map(|v| v.iter().filter_map(|r| {
                        let r = r.as_array()?;
                        let g = |i: usize| r.get(i).and_then(|x| x.as_str()).unwrap_or("").to_string();
                        Some(Rule { pre: g(0), suf: g(1), rpre: g(2), rsuf: g(3) })
                    }).collect()).unwrap_or_default();
                    Op::Config(a.get(1).and_then(|x| x.as_bool()).unwrap_or(true), strs(2), strs(3), rules)
                }
                _ => return None,
            });
        }
        Some(Case { cfg, ops })
    }
}

// ---------------------------------------------------------------- model request

fn list_or(items: Vec<String>, sep: &str) -> String {
    if items.is_empty() { "_".into() } else { items.join(sep) }
}

/// request line; every `Query` becomes `q:` (model find) followed by `s:` (spec resolver)
pub fn request(c: &Case) -> String {
    let pats = list_or(c.cfg.patterns.iter().map(|p| hex(p)).collect(), ",");
    let wss = list_or(
        c.cfg.wss.iter().map(|w| format!("{}:{}:{}", hex(&w.root), w.id, w.pkg.as_ref().map(|p| hex(p)).unwrap_or("*".into()))).collect(),
        ";",
    );
    let rules = list_or(
        c.cfg.rules.iter().map(|r| format!("{}:{}:{}:{}", hex(&r.pre), hex(&r.suf), hex(&r.rpre), hex(&r.rsuf))).collect(),
        ";",
    );
    let mut toks = Vec::new();
    for o in &c.ops {
        match o {
            Op::Add(f, p) => toks.push(format!("a:{f}:{}", hex(p))),
            Op::AddMod(f, p, w) => toks.push(format!("m:{f}:{}:{w}", hex(p))),
            Op::Remove(f) => toks.push(format!("r:{f}")),
            Op::Hide(f, b) => toks.push(format!("h:{f}:{}", *b as u8)),
            Op::Query(q) => {
                toks.push(format!("q:{}", hex(q)));
                toks.push(format!("s:{}", hex(q)));
            }
            Op::Node(q) => toks.push(format!("n:{}", hex(q))),
            Op::Sizes => toks.push("c".into()),
            Op::Clear => toks.push("x".into()),
            Op::Config(fz, e, rp, rules) => toks.push(format!(
                "k|{}|{}|{}|{}",
                *fz as u8,
                list_or(e.iter().map(|p| hex(p)).collect(), ","),
                list_or(rp.iter().map(|p| hex(p)).collect(), ","),
                list_or(rules.iter().map(|r| format!("{}:{}:{}:{}", hex(&r.pre), hex(&r.suf), hex(&r.rpre), hex(&r.rsuf))).collect(), ";")
            )),
        }
    }
    format!("index.mod {} {} {} {} {}", c.cfg.fuzzy as u8, pats, wss, rules, toks.join(" "))
}

// ---------------------------------------------------------------- implementation

pub fn rule_regex(r: &Rule) -> (String, String) {
    (
        format!("^{}(.*){}$", regex::escape(&r.pre), regex::escape(&r.suf)),
        format!("{}${{1}}{}", r.rpre.replace('$', "$$"), r.rsuf.replace('$', "$$")),
    )
}

/// the `Emmyrc` of an `update_config` step
pub fn emmyrc_of(fuzzy: bool, exts: &[String], req_pat: &[String], rules: &[Rule]) -> Emmyrc {
    let mut rc = Emmyrc::default();
    rc.strict.require_path = !fuzzy;
    rc.runtime.extensions = exts.to_vec();
    rc.runtime.require_pattern = req_pat.to_vec();
    rc.workspace.module_map = rules
        .iter()
        .map(|r| {
            let (p, rep) = rule_regex(r);
            emmylua_code_analysis::EmmyrcWorkspaceModuleMap { pattern: p, replace: rep }
        })
        .collect();
    rc
}

/// what `update_config` derives from extensions / requirePattern (independent re-statement for the oracle)
fn ref_config_patterns(exts: &[String], req_pat: &[String]) -> Vec<String> {
    let mut names: Vec<String> = exts.iter().map(|e| e.strip_prefix('.').or_else(|| e.strip_prefix("*.")).unwrap_or(e).to_string()).collect();
    if !names.iter().any(|n| n == "lua") {
        names.push("lua".into());
    }
    let mut pats: Vec<String> = names.iter().map(|n| format!("?.{n}")).collect();
    if req_pat.is_empty() {
        pats.extend(names.iter().map(|n| format!("?/init.{n}")));
    } else {
        pats.extend(req_pat.iter().cloned());
    }
    pats
}

pub fn build_index(cfg: &Cfg) -> LuaModuleIndex {
    let mut m = LuaModuleIndex::new();
    let mut rc = Emmyrc::default();
    rc.strict.require_path = !cfg.fuzzy;
    m.update_config(Arc::new(rc)); // sets fuzzy_search; patterns / moduleMap are overridden below
    m.set_module_extract_patterns(cfg.patterns.clone());
    m.set_module_replace_patterns(cfg.rules.iter().map(rule_regex).collect());
    for w in &cfg.wss {
        let import = match &w.pkg {
            None => WorkspaceImport::All,
            Some(p) => WorkspaceImport::Package(PathBuf::from(p)),
        };
        m.add_workspace_root_with_import(PathBuf::from(&w.root), import, WorkspaceId { id: w.id });
    }
    m
}

fn show_info(m: &LuaModuleIndex, f: Option<FileId>) -> String {
    match f.and_then(|f| m.get_module(f)) {
        None => "none".into(),
        Some(i) => format!("{}:{}:{}:{}", i.file_id.id, hex(&i.full_module_name), i.workspace_id.id, i.visible.is_hidden() as u8),
    }
}

fn sizes(m: &LuaModuleIndex) -> String {
    let r = m.verif_report();
    let get = |k: &str| r.iter().find(|x| x.0 == k).map(|x| x.1).unwrap_or(usize::MAX);
    format!(
        "{},{},{},{}",
        get("module.module_nodes"),
        get("module.file_module_map"),
        get("module.module_name_to_file_ids"),
        get("module.module_name_to_file_ids.ids")
    )
}

/// one output item per op, in the driver's format (`Query` yields one `q=` item)
pub fn run_impl(c: &Case) -> Vec<String> {
    let mut m = build_index(&c.cfg);
    let mut out = Vec::new();
    for o in &c.ops {
        match o {
            Op::Add(f, p) => {
                let w = m.add_module_by_path(FileId { id: *f }, p);
                out.push(format!(
                    "a={}/{}",
                    w.map(|w| w.id.to_string()).unwrap_or("none".into()),
                    show_info(&m, Some(FileId { id: *f }))
                ));
            }
            Op::AddMod(f, p, w) => {
                m.add_module_by_module_path(FileId { id: *f }, p.clone(), WorkspaceId { id: *w });
                out.push(format!("m={}", show_info(&m, Some(FileId { id: *f }))));
            }
            Op::Remove(f) => {
                m.remove(FileId { id: *f });
                out.push("r".into());
            }
            Op::Hide(f, b) => {
                m.set_module_visibility(FileId { id: *f }, if *b { ModuleVisibility::Hide } else { ModuleVisibility::Default });
                out.push("h".into());
            }
            Op::Query(q) => {
                let r = m.find_module(q).map(|i| i.file_id);
                out.push(format!("q={}", show_info(&m, r)));
            }
            Op::Node(q) => {
                out.push(format!(
                    "n={}",
                    match m.find_module_node(q) {
                        None => "none".into(),
                        Some(n) if n.children.is_empty() => "empty".into(),
                        Some(n) => {
                            let mut ks: Vec<&String> = n.children.keys().collect();
                            ks.sort();
                            ks.iter().map(|k| hex(k)).collect::<Vec<_>>().join(",")
                        }
                    }
                ));
            }
            Op::Sizes => out.push(format!("c={}", sizes(&m))),
            Op::Clear => {
                m.clear();
                out.push("x".into());
            }
            Op::Config(fz, e, rp, rules) => {
                m.update_config(Arc::new(emmyrc_of(*fz, e, rp, rules)));
                out.push("k".into());
            }
        }
    }
    out
}

// ---------------------------------------------------------------- independent reference resolver

#[derive(Clone, Debug)]
struct RefEntry {
    file: u32,
    full: String,
    ws: u32,
    hidden: bool,
}

/// greedy template match: `tpl` pieces around `?`; returns the first capture
fn ref_match_template(tpl: &str, path: &str) -> Option<String> {
    let tpl = tpl.replace('\\', "/");
    let pieces: Vec<&str> = tpl.split('?').collect();
    if pieces.len() < 2 {
        return None;
    }
    // matches(k, s): s matches pieces[k] (.*) pieces[k+1] ... end; records capture k into caps
    fn go(pieces: &[&str], k: usize, s: &str, caps: &mut Vec<String>) -> bool {
        let Some(rest) = s.strip_prefix(pieces[k]) else { return false };
        if k + 1 == pieces.len() {
            return rest.is_empty();
        }
        // capture as long as possible first
        let mut ends: Vec<usize> = rest.char_indices().map(|(i, _)| i).collect();
        ends.push(rest.len());
        for &e in ends.iter().rev() {
            if rest[..e].contains('\n') {
                continue;
            }
            caps.push(rest[..e].to_string());
            if go(pieces, k + 1, &rest[e..], caps) {
                return true;
            }
            caps.pop();
        }
        false
    }
    let mut caps = Vec::new();
    if go(&pieces, 0, path, &mut caps) { caps.first().cloned() } else { None }
}

fn ref_match(cfg: &Cfg, rel: &str) -> Option<String> {
    let mut pats = cfg.patterns.clone();
    pats.sort_by(|a, b| b.len().cmp(&a.len())); // stable: longest template first
    for p in &pats {
        if let Some(m) = ref_match_template(p, rel) {
            return Some(m);
        }
    }
    None
}

fn ref_file_prefix(name: &str) -> String {
    let (lead, rest) = if let Some(r) = name.strip_prefix('.') { (".", r) } else { ("", name) };
    format!("{lead}{}", rest.split('.').next().unwrap_or(""))
}

/// which workspace / module name a path gets (None = not a module)
fn ref_extract(cfg: &Cfg, path: &str) -> Option<(String, u32)> {
    let mut best: Option<(String, u32)> = None;
    for w in &cfg.wss {
        let rel = if path == w.root {
            ""
        } else if let Some(r) = path.strip_prefix(&format!("{}/", w.root)) {
            r
        } else {
            continue;
        };
        if let Some(p) = &w.pkg {
            if !(rel == p || rel.starts_with(&format!("{p}/"))) {
                continue;
            }
        }
        if rel.is_empty() {
            let name = w.root.rsplit('/').next().unwrap_or("");
            if !name.is_empty() {
                return Some((ref_file_prefix(name), w.id));
            }
        }
        if let Some(m) = ref_match(cfg, rel) {
            match &best {
                None => best = Some((m, w.id)),
                Some((b, bid)) => {
                    if m.len() < b.len() {
                        let id = if w.id == 1 { *bid } else { w.id };
                        best = Some((m, id));
                    }
                }
            }
        }
    }
    best
}

fn ref_apply_rules(cfg: &Cfg, s: &str) -> String {
    let mut s = s.to_string();
    for r in &cfg.rules {
        if s.len() >= r.pre.len() + r.suf.len() && s.starts_with(&r.pre) && s[r.pre.len()..].ends_with(&r.suf) {
            let mid = &s[r.pre.len()..s.len() - r.suf.len()];
            if !mid.contains('\n') {
                s = format!("{}{}{}", r.rpre, mid, r.rsuf);
            }
        }
    }
    s
}

struct RefState {
    cfg: Cfg,
    live: Vec<RefEntry>,
}

impl RefState {
    fn remove(&mut self, f: u32) {
        self.live.retain(|e| e.file != f);
    }
    fn add_mod(&mut self, f: u32, name: String, ws: u32) {
        self.remove(f);
        self.live.push(RefEntry { file: f, full: name, ws, hidden: false });
    }
    fn add(&mut self, f: u32, path: &str) -> Option<u32> {
        self.remove(f);
        let (m, ws) = ref_extract(&self.cfg, path)?;
        let mut name = m.replace(['\\', '/'], ".");
        if !self.cfg.rules.is_empty() {
            name = ref_apply_rules(&self.cfg, &name);
        }
        self.add_mod(f, name, ws);
        Some(ws)
    }
    fn exact(&self, name: &str) -> Option<&RefEntry> {
        let c: Vec<&RefEntry> = self.live.iter().filter(|e| e.full == name).collect();
        if c.len() > 1 {
            c.iter().find(|e| !e.hidden).or(c.first()).copied()
        } else {
            c.first().copied()
        }
    }
    fn fuzzy(&self, name: &str) -> Option<&RefEntry> {
        let suffix = format!(".{name}");
        let mut best: Option<(usize, &RefEntry)> = None;
        for e in &self.live {
            let lead = if e.full == name {
                0
            } else if e.full.ends_with(&suffix) {
                e.full[..e.full.len() - suffix.len()].split('.').filter(|s| !s.is_empty()).count()
            } else {
                continue;
            };
            let better = match best {
                None => true,
                Some((bl, be)) => lead < bl || (lead == bl && e.full < be.full),
            };
            if better {
                best = Some((lead, e));
            }
        }
        best.map(|x| x.1)
    }
    /// (result, branch)
    fn resolve(&self, q: &str) -> (Option<&RefEntry>, &'static str) {
        let name = q.replace(['\\', '/'], ".");
        if let Some(e) = self.exact(&name) {
            return (Some(e), "exact");
        }
        let mapped = if self.cfg.rules.is_empty() { None } else { Some(ref_apply_rules(&self.cfg, &name)).filter(|m| *m != name) };
        if let Some(m) = &mapped {
            if let Some(e) = self.exact(m) {
                return (Some(e), "mapped-exact");
            }
        }
        if self.cfg.fuzzy {
            if let Some(m) = &mapped {
                if let Some(e) = self.fuzzy(m) {
                    return (Some(e), "mapped-fuzzy");
                }
            }
            if let Some(e) = self.fuzzy(&name) {
                return (Some(e), "fuzzy");
            }
        }
        (None, "unresolved")
    }
}

/// evaluates the property on the implementation; returns failures and branch counts
fn oracle(c: &Case, report: &mut Report) -> Vec<String> {
    let mut fails = Vec::new();
    let mut m = build_index(&c.cfg);
    let mut r = RefState { cfg: c.cfg.clone(), live: Vec::new() };
    let mut removed: HashSet<u32> = HashSet::new();
    for (k, o) in c.ops.iter().enumerate() {
        match o {
            Op::Add(f, p) => {
                let w = m.add_module_by_path(FileId { id: *f }, p).map(|w| w.id);
                let rw = r.add(*f, p);
                removed.remove(f);
                if rw.is_none() {
                    removed.insert(*f);
                    report.count("add_not_a_module");
                } else {
                    report.count("add_module");
                }
                let got = m.get_module(FileId { id: *f }).map(|i| i.full_module_name.clone());
                let exp = r.live.iter().find(|e| e.file == *f).map(|e| e.full.clone());
                if w != rw || got != exp {
                    fails.push(format!("step {k}: add {f} {p:?}: module name / workspace {got:?}/{w:?}, the configured patterns select {exp:?}/{rw:?}"));
                }
            }
            Op::AddMod(f, p, w) => {
                m.add_module_by_module_path(FileId { id: *f }, p.clone(), WorkspaceId { id: *w });
                r.add_mod(*f, p.split('.').collect::<Vec<_>>().join("."), *w);
                removed.remove(f);
            }
            Op::Remove(f) => {
                m.remove(FileId { id: *f });
                r.remove(*f);
                removed.insert(*f);
                report.count("remove");
            }
            Op::Hide(f, b) => {
                m.set_module_visibility(FileId { id: *f }, if *b { ModuleVisibility::Hide } else { ModuleVisibility::Default });
                for e in r.live.iter_mut() {
                    if e.file == *f {
                        e.hidden = *b;
                    }
                }
            }
            Op::Query(q) => {
                let got = m.find_module(q).map(|i| (i.file_id.id, i.full_module_name.clone()));
                let (exp, branch) = r.resolve(q);
                report.count(&format!("query_{branch}"));
                let exp = exp.map(|e| (e.file, e.full.clone()));
                if let Some((f, _)) = &got {
                    if removed.contains(f) {
                        fails.push(format!("step {k}: require({q:?}) resolves to removed file {f}"));
                        continue;
                    }
                }
                if got != exp {
                    fails.push(format!("step {k}: require({q:?}) resolves to {got:?}, the reference resolver ({branch}) selects {exp:?}"));
                }
            }
            Op::Clear => {
                m.clear();
                r.live.clear();
            }
            Op::Config(fz, e, rp, rules) => {
                m.update_config(Arc::new(emmyrc_of(*fz, e, rp, rules)));
                r.cfg.fuzzy = *fz;
                r.cfg.patterns = ref_config_patterns(e, rp);
                r.cfg.rules = rules.clone();
            }
            Op::Node(_) | Op::Sizes => {}
        }
    }
    let _ = r.live.iter().map(|e| e.ws).count();
    fails
}

// ---------------------------------------------------------------- generators

const PATTERN_SETS: &[&[&str]] = &[
    &["?.lua", "?/init.lua"],
    &["?/init.lua", "?.lua", "?.lua"],
    &["?.lua", "?/init.lua", "?.luau", "?/init.luau"],
    &["?.lua", "lua/?.lua", "?/init.lua"],
    &["?.lua", "?/?.lua"],
    &["src\\?.lua", "?.lua", "?/init.lua"],
    &["?.lua", "?", "main.lua"],
    &["?.lua.txt", "?.txt", "?.lua"],
    &["?/init.lua", "?.lua", "é?.lua"],
];

const RULES: &[(&str, &str, &str, &str)] = &[
    ("@app.", "", "src.", ""),
    ("", ".lua", "", ""),
    ("a.", "", "b.", ""),
    ("", "", "lib.", ""),
    ("foo", "", "bar.baz", ""),
    ("__", "__", "", ""),
    ("x.", ".init", "x.", ""),
];

const SEGS: &[&str] = &["a", "b", "c", "init", "lib", "x", "src", "lua", "foo", "é", "v1.2", "a-b", "main"];
const EXTS: &[&str] = &[".lua", ".lua", ".lua", "/init.lua", "/init.lua", ".luau", ".txt", ".lua.txt", "", "/init.luau"];

fn gen_cfg(rng: &mut Rng) -> Cfg {
    let mut patterns: Vec<String> = rng.pick(PATTERN_SETS).iter().map(|s| s.to_string()).collect();
    if rng.chance(1, 3) {
        let i = rng.below(patterns.len());
        let j = rng.below(patterns.len());
        patterns.swap(i, j);
    }
    let mut wss = vec![Ws { root: "/r1".into(), id: 1, pkg: None }];
    if rng.chance(1, 2) {
        let extra: &[(&str, u32)] = &[("/r1/lib", 3), ("/r2", 4), ("/r2", 1), ("/r1/a", 3), ("/r1/a/b", 4), ("/r1/x.lua", 3)];
        for _ in 0..rng.range(1, 2) {
            let (root, id) = *rng.pick(extra);
            let pkg = if rng.chance(1, 4) { Some(rng.pick(&["a", "lib/x", "b"]).to_string()) } else { None };
            wss.push(Ws { root: root.into(), id, pkg });
        }
        if rng.chance(1, 3) {
            wss.reverse();
        }
    }
    let mut rules = Vec::new();
    if rng.chance(2, 5) {
        for _ in 0..rng.range(1, 2) {
            let (a, b, c, d) = *rng.pick(RULES);
            rules.push(Rule { pre: a.into(), suf: b.into(), rpre: c.into(), rsuf: d.into() });
        }
    }
    Cfg { fuzzy: rng.chance(2, 3), patterns, wss, rules }
}

fn gen_path(rng: &mut Rng, cfg: &Cfg) -> String {
    if rng.chance(1, 25) {
        return format!("/other/{}.lua", rng.pick(SEGS));
    }
    let w = rng.pick(&cfg.wss);
    if rng.chance(1, 40) {
        return w.root.clone();
    }
    let mut p = w.root.clone();
    let small = rng.chance(2, 3); // small alphabet → collisions / duplicates
    for _ in 0..rng.below(4) {
        p.push('/');
        p.push_str(if small { *rng.pick(&SEGS[..4]) } else { *rng.pick(SEGS) });
    }
    p.push('/');
    p.push_str(if small { *rng.pick(&SEGS[..3]) } else { *rng.pick(SEGS) });
    p.push_str(*rng.pick(EXTS));
    p
}

fn gen_queries(rng: &mut Rng, names: &[String], n: usize) -> Vec<String> {
    let mut qs = Vec::new();
    for _ in 0..n {
        let q = if !names.is_empty() && rng.chance(4, 5) {
            let name = rng.pick(names).clone();
            let segs: Vec<&str> = name.split('.').collect();
            match rng.below(8) {
                0 | 1 => name.clone(),
                2 | 3 => segs[rng.below(segs.len())..].join("."),
                4 => segs[rng.below(segs.len())..].join("/"),
                5 => format!("@app.{}", segs[rng.below(segs.len())..].join(".")),
                6 => format!("{name}.lua"),
                _ => format!("{}.{}", rng.pick(SEGS), segs[rng.below(segs.len())..].join(".")),
            }
        } else {
            match rng.below(5) {
                0 => String::new(),
                1 => "a..b".into(),
                2 => format!("{}\\{}", rng.pick(SEGS), rng.pick(SEGS)),
                _ => (0..rng.range(1, 3)).map(|_| *rng.pick(&SEGS[..6])).collect::<Vec<_>>().join("."),
            }
        };
        qs.push(q);
    }
    qs
}

pub fn gen_case(rng: &mut Rng, steps: usize) -> Case {
    let cfg = gen_cfg(rng);
    let nfiles = rng.range(2, 6) as u32;
    let mut ops = Vec::new();
    let mut names: Vec<String> = Vec::new();
    let mut r = RefState { cfg: cfg.clone(), live: Vec::new() };
    let mut last_path: Vec<Option<String>> = vec![None; nfiles as usize + 1];
    for _ in 0..steps {
        let f = rng.range(1, nfiles as usize) as u32;
        match rng.below(10) {
            0..=4 => {
                // re-submit the same path half of the time when the file is known
                let p = match &last_path[f as usize] {
                    Some(p) if rng.chance(1, 2) => p.clone(),
                    _ => gen_path(rng, &cfg),
                };
                last_path[f as usize] = Some(p.clone());
                r.add(f, &p);
                ops.push(Op::Add(f, p));
            }
            5 => {
                let p = (0..rng.range(1, 3)).map(|_| *rng.pick(&SEGS[..5])).collect::<Vec<_>>().join(".");
                r.add_mod(f, p.clone(), 1);
                ops.push(Op::AddMod(f, p, *rng.pick(&[1u32, 3])));
            }
            6 | 7 => {
                r.remove(f);
                ops.push(Op::Remove(f));
            }
            8 if rng.chance(1, 4) => {
                r.live.clear();
                ops.push(Op::Clear);
            }
            9 if rng.chance(1, 2) => {
                // configuration change (moduleMap non-empty -> empty -> other, extensions / requirePattern, strict toggle),
                // then a reindex: clear + every known file again
                let rules: Vec<Rule> = match rng.below(3) {
                    0 => vec![],
                    _ => (0..rng.range(1, 2)).map(|_| { let (a, b, c, d) = *rng.pick(RULES); Rule { pre: a.into(), suf: b.into(), rpre: c.into(), rsuf: d.into() } }).collect(),
                };
                let exts: Vec<String> = rng.pick(&[vec![], vec![".lua".to_string()], vec![".luau".to_string()], vec!["*.txt".to_string(), "lua".to_string()]]).clone();
                let rp: Vec<String> = rng.pick(&[vec![], vec!["?/main.lua".to_string()], vec!["lua/?.lua".to_string(), "?/init.lua".to_string()]]).clone();
                let fz = rng.chance(2, 3);
                r.cfg.fuzzy = fz;
                r.cfg.patterns = ref_config_patterns(&exts, &rp);
                r.cfg.rules = rules.clone();
                ops.push(Op::Config(fz, exts, rp, rules));
                // a configuration change is always followed by a reindex (as the server does); until then the
                // fuzzy-name map / module names legitimately reflect the old configuration
                {
                    r.live.clear();
                    ops.push(Op::Clear);
                    for (g, p) in last_path.clone().iter().enumerate() {
                        if let Some(p) = p {
                            if rng.chance(3, 4) {
                                r.add(g as u32, p);
                                ops.push(Op::Add(g as u32, p.clone()));
                            } else {
                                last_path[g] = None;
                            }
                        }
                    }
                }
            }
            _ => ops.push(Op::Hide(f, rng.chance(2, 3))),
        }
        for e in &r.live {
            if !names.contains(&e.full) {
                names.push(e.full.clone());
            }
        }
        let nq = rng.range(3, 6);
        for q in gen_queries(rng, &names, nq) {
            ops.push(Op::Query(q));
        }
        if rng.chance(1, 2) {
            let q = if names.is_empty() || rng.chance(1, 3) { String::new() } else {
                let n = rng.pick(&names);
                let segs: Vec<&str> = n.split('.').collect();
                segs[..rng.below(segs.len() + 1)].join(".")
            };
            ops.push(Op::Node(q));
        }
        ops.push(Op::Sizes);
    }
    drop(r);
    Case { cfg, ops }
}

/// exhaustive: every history of length ≤ `n` over a fixed op alphabet (2 files × 5 paths, removes, hide)
fn exhaustive_cases(n: usize, fuzzy: bool) -> Vec<Case> {
    let cfg = Cfg {
        fuzzy,
        patterns: vec!["?.lua".into(), "?/init.lua".into()],
        wss: vec![Ws { root: "/r1".into(), id: 1, pkg: None }, Ws { root: "/r1/lib".into(), id: 3, pkg: None }],
        rules: vec![],
    };
    // includes parent-module files (`a/init.lua`, `a.lua`) next to a child module (`a/b.lua`)
    let paths = ["/r1/a/b.lua", "/r1/b.lua", "/r1/lib/a/b/init.lua", "/r1/c/a/b.lua", "/r1/a/b/init.lua", "/r1/a/init.lua", "/r1/a.lua"];
    let mut alphabet: Vec<Op> = Vec::new();
    for f in 1..=2u32 {
        for p in paths {
            alphabet.push(Op::Add(f, p.into()));
        }
        alphabet.push(Op::Remove(f));
    }
    alphabet.push(Op::Hide(1, true));
    let queries = ["a.b", "b", "lib.a.b", "c.a.b", "a", "x.b"];
    let mut out = Vec::new();
    let mut frontier: Vec<Vec<Op>> = vec![vec![]];
    for _ in 0..n {
        let mut next = Vec::new();
        for h in &frontier {
            for o in &alphabet {
                let mut h2 = h.clone();
                h2.push(o.clone());
                next.push(h2);
            }
        }
        for h in &next {
            let mut ops = h.clone();
            for q in queries {
                ops.push(Op::Query(q.into()));
            }
            ops.push(Op::Node("".into()));
            ops.push(Op::Node("a".into()));
            ops.push(Op::Sizes);
            out.push(Case { cfg: cfg.clone(), ops });
        }
        frontier = next;
    }
    out
}

pub fn corpus() -> Vec<Case> {
    let d = |fuzzy: bool, ops: Vec<Op>| Case {
        cfg: Cfg { fuzzy, patterns: vec!["?.lua".into(), "?/init.lua".into()], wss: vec![Ws { root: "/r1".into(), id: 1, pkg: None }], rules: vec![] },
        ops,
    };
    let q = |s: &str| Op::Query(s.into());
    vec![
        // the former leak: re-submission / removal of module files
        d(true, vec![Op::Add(1, "/r1/a/b.lua".into()), Op::Sizes, Op::Add(1, "/r1/a/b.lua".into()), Op::Sizes, Op::Remove(1), Op::Sizes, q("a.b"), q("b"), Op::Node("".into())]),
        d(true, vec![Op::Add(1, "/r1/a/b.lua".into()), Op::Add(2, "/r1/a/b/init.lua".into()), Op::Remove(1), Op::Sizes, q("a.b"), q("b"), Op::Remove(2), Op::Sizes, q("b")]),
        d(true, vec![Op::Add(1, "/r1/plugin/ts.lua".into()), Op::Add(2, "/r1/lua/ts.lua".into()), q("ts"), Op::Hide(2, true), q("ts"), q("lua.ts")]),
        d(false, vec![Op::Add(1, "/r1/x/init.lua".into()), q("x"), q("x.init"), Op::Node("x".into())]),
        // parent module next to child modules: edit (re-submit) / remove the parent, then require the child
        d(false, vec![Op::Add(1, "/r1/a/init.lua".into()), Op::Add(2, "/r1/a/b.lua".into()), Op::Add(1, "/r1/a/init.lua".into()), Op::Sizes,
            q("a.b"), q("a"), Op::Node("a".into()), Op::Remove(1), Op::Sizes, q("a.b"), q("a"), Op::Node("a".into()), Op::Node("".into())]),
        d(true, vec![Op::Add(1, "/r1/a/init.lua".into()), Op::Add(2, "/r1/a/b.lua".into()), Op::Add(1, "/r1/a/init.lua".into()), Op::Sizes,
            q("a.b"), q("a"), q("b"), Op::Remove(1), Op::Sizes, q("a.b"), q("a"), q("b"), Op::Node("a".into())]),
        // config reload: moduleMap non-empty -> empty -> other, each followed by a reindex (clear + re-add)
        d(true, vec![
            Op::Config(true, vec![], vec![], vec![Rule { pre: "lib.".into(), suf: "".into(), rpre: "script.".into(), rsuf: "".into() }]),
            Op::Add(1, "/r1/lib/util.lua".into()), q("script.util"), q("lib.util"), Op::Sizes,
            Op::Config(true, vec![], vec![], vec![]), Op::Clear, Op::Add(1, "/r1/lib/util.lua".into()), q("script.util"), q("lib.util"), Op::Node("".into()),
            Op::Config(false, vec![".luau".into()], vec!["?/main.lua".into()], vec![Rule { pre: "".into(), suf: "".into(), rpre: "x.".into(), rsuf: "".into() }]),
            Op::Clear, Op::Add(1, "/r1/lib/util.lua".into()), Op::Add(2, "/r1/m/main.lua".into()), Op::Add(3, "/r1/n.luau".into()), q("x.lib.util"), q("lib.util"), q("x.m"), q("x.n"), q("util"), Op::Sizes,
        ]),
        d(false, vec![Op::Add(1, "/r1/a.lua".into()), Op::Add(2, "/r1/a/b.lua".into()), Op::Add(3, "/r1/a/b/c.lua".into()), Op::Add(2, "/r1/a/b.lua".into()),
            q("a.b.c"), q("a.b"), q("a"), Op::Remove(2), Op::Sizes, q("a.b.c"), q("a.b"), Op::Node("a.b".into()), Op::Remove(1), q("a.b.c"), Op::Sizes]),
    ]
}

// ---------------------------------------------------------------- lifecycle tie (C10 / C08 / C09)

/// model-vs-implementation on generated module histories (sizes after every step show leaks)
pub fn tie_cases(cases: &[Case], report: &mut Report) {
    let reqs: Vec<String> = cases.iter().map(request).collect();
    let model = run_driver(&reqs);
    for (c, m) in cases.iter().zip(model.iter()) {
        report.evaluations += 1;
        report.count("module_tie_histories");
        let model_items: Vec<String> = match m.strip_prefix("ok ") {
            Some(body) => body.split(' ').filter(|it| !it.starts_with("s=")).map(|s| s.to_string()).collect(),
            None => vec![m.clone()],
        };
        let c2 = c.clone();
        let imp_items = match vh_common::catch(move || run_impl(&c2)) {
            Ok(v) => v,
            Err(e) => vec![format!("err panic ({e})")],
        };
        if imp_items != model_items {
            let k = imp_items.iter().zip(model_items.iter()).position(|(a, b)| a != b).unwrap_or(imp_items.len().min(model_items.len()));
            report.mismatch(json!({"input": c.to_json(), "first_difference_at_item": k,
                "model": model_items.get(k), "impl": imp_items.get(k),
                "tie": "correspondence index.mod (LuaModuleIndex vs Index.Module model)"}));
        } else {
            report.traces_validated += 1;
        }
    }
}

pub fn tie_lifecycle(rng: &mut Rng, n: usize, report: &mut Report) {
    let mut cases = corpus();
    for _ in 0..n {
        cases.push(gen_case(rng, 8));
    }
    tie_cases(&cases, report);
}

pub fn replay_into(v: &Value, report: &mut Report) {
    if v.get("patterns").is_some() {
        if let Some(c) = Case::from_json(v) {
            tie_cases(&[c], report);
        }
    }
}

// ---------------------------------------------------------------- semantic layer (search only)

/// require strings in real analysed files: the module `parse_require_module_info` finds (what go-to-definition
/// on the require string uses) and the inferred type of the required value must be those of the file the
/// independent resolver selects; after removing that file (and re-submitting the requiring file) likewise.
pub fn semantic_oracle(rng: &mut Rng, n: usize, report: &mut Report) {
    use crate::analysis::{new_analysis, uri_of};
    use emmylua_code_analysis::{RenderLevel, humanize_type, parse_require_module_info};
    use emmylua_parser::{LuaAstNode, LuaLocalName, LuaAstToken};
    for _ in 0..n {
        let cfg = Cfg { fuzzy: true, patterns: vec!["?.lua".into(), "?/init.lua".into()], wss: vec![Ws { root: "/ws".into(), id: 1, pkg: None }], rules: vec![] };
        let nf = rng.range(2, 5);
        let mut paths: Vec<String> = Vec::new();
        while paths.len() < nf {
            let mut p = String::new();
            for _ in 0..rng.below(3) {
                p.push_str(*rng.pick(&["a", "b", "lib"]));
                p.push('/');
            }
            p.push_str(*rng.pick(&["a", "b", "m"]));
            p.push_str(*rng.pick(&[".lua", ".lua", "/init.lua"]));
            if !paths.contains(&p) {
                paths.push(p);
            }
        }
        let mut names: Vec<String> = Vec::new();
        let mut r = RefState { cfg: cfg.clone(), live: Vec::new() };
        let mut a = new_analysis();
        for (k, p) in paths.iter().enumerate() {
            a.update_file_by_uri(&uri_of(p), Some(format!("local M = {{}}\nM.value = {}\nreturn M\n", 100 + k)));
            r.add(k as u32, &format!("/ws/{p}"));
        }
        for e in &r.live {
            names.push(e.full.clone());
        }
        let qs = gen_queries(rng, &names, 5);
        let victim = rng.below(nf);
        for round in 0..2 {
            if round == 1 {
                a.remove_file_by_uri(&uri_of(&paths[victim]));
                r.remove(victim as u32);
            }
            let main_text: String = qs.iter().enumerate().map(|(i, q)| format!("local r{i} = require({q:?})\n")).collect();
            let Some(main_id) = a.update_file_by_uri(&uri_of("zz_main.lua"), Some(main_text.clone())) else { continue };
            let Some(model) = a.compilation.get_semantic_model(main_id) else { continue };
            let db = a.compilation.get_db();
            let locals: Vec<LuaLocalName> = model.get_root().descendants::<LuaLocalName>().collect();
            for (i, q) in qs.iter().enumerate() {
                report.evaluations += 1;
                report.count("semantic_require_queries");
                let (exp, branch) = r.resolve(q);
                let exp_file = exp.map(|e| e.file as usize);
                let Some(ln) = locals.get(i) else { continue };
                let Some(tok) = ln.get_name_token() else { continue };
                let decl_id = emmylua_code_analysis::LuaDeclId::new(main_id, tok.get_position());
                let got_file = db.get_decl_index().get_decl(&decl_id).and_then(|d| parse_require_module_info(&model, d)).and_then(|m| {
                    let u = a.get_uri(m.file_id)?;
                    paths.iter().position(|p| u.as_str().ends_with(&format!("/ws/{p}")))
                });
                let ty = model
                    .get_semantic_info(rowan::NodeOrToken::Token(tok.syntax().clone()))
                    .map(|i| humanize_type(db, &i.typ, RenderLevel::Detailed))
                    .unwrap_or_default();
                let mut bad = None;
                if got_file != exp_file {
                    bad = Some(format!("require({q:?}) in an analysed file resolves (parse_require_module_info) to {:?}, the reference resolver ({branch}) selects {:?}", got_file.map(|k| &paths[k]), exp_file.map(|k| &paths[k])));
                } else if let Some(k) = exp_file {
                    if !ty.contains(&format!("{}", 100 + k)) {
                        bad = Some(format!("require({q:?}) resolves to {} but the inferred module type is {ty:?} (expected the table with value = {})", paths[k], 100 + k));
                    } else {
                        report.count("semantic_type_agrees");
                    }
                }
                if let Some(what) = bad {
                    report.oracle_failure(json!({"input": {"semantic": true, "paths": paths, "queries": qs, "removed": if round == 1 { Some(&paths[victim]) } else { None }}, "what": what, "class": Value::Null}));
                }
            }
        }
    }
}

// ---------------------------------------------------------------- run

pub fn run(args: &Args, report: &mut Report) {
    let mut rng = Rng::new(args.seed);
    let mut cases = corpus();
    if let Some(p) = &args.replay {
        let v: Value = serde_json::from_str(&std::fs::read_to_string(p).expect("replay file")).expect("json");
        cases = vec![Case::from_json(&v["input"]).expect("replay input")];
    } else if args.thorough() {
        cases.extend(exhaustive_cases(4, true));
        cases.extend(exhaustive_cases(3, false));
        for _ in 0..6000 {
            cases.push(gen_case(&mut rng, 10));
        }
        report.extra.insert("exhaustive".into(), json!(false));
        report.extra.insert("exhaustive_scope".into(), json!("all histories of length <= 4 (fuzzy) / <= 3 (strict) over {add f p | f in 1..2, p in 5 paths} + {remove 1, remove 2, hide 1}, 6 queries each; plus random"));
    } else {
        cases.extend(exhaustive_cases(2, true));
        cases.extend(exhaustive_cases(2, false));
        for _ in 0..500 {
            cases.push(gen_case(&mut rng, 10));
        }
    }
    semantic_oracle(&mut rng, if args.thorough() { 1500 } else { 150 }, report);
    report.rule = "workspace trees (1-3 roots incl. nested library roots and package imports, dirs over a 13-segment alphabet incl. non-ASCII and dotted names, init files, foreign extensions) x pattern sets (default, custom, duplicate, multi-?, catch-all) x moduleMap rule fragments x strict/fuzzy, with add / re-add / remove / hide histories and require strings derived from live and dead module names; a history is non-trivial when it has >= 2 simultaneously live modules and at least one query that resolves and one that does not; distinct by request line".into();

    let reqs: Vec<String> = cases.iter().map(request).collect();
    let model = run_driver(&reqs);
    let mut seen = HashSet::new();
    for ((c, req), m) in cases.iter().zip(reqs.iter()).zip(model.iter()) {
        report.evaluations += 1;
        // model items: drop the `s=` items after comparing them with the preceding `q=`
        let mut model_items: Vec<String> = Vec::new();
        let mut spec_ok = true;
        if let Some(body) = m.strip_prefix("ok ") {
            for it in body.split(' ') {
                if let Some(s) = it.strip_prefix("s=") {
                    if model_items.last().map(|q| q.strip_prefix("q=") != Some(s)).unwrap_or(true) {
                        spec_ok = false;
                    }
                } else {
                    model_items.push(it.to_string());
                }
            }
        } else {
            model_items.push(m.clone());
        }
        let c2 = c.clone();
        let imp = vh_common::catch(move || run_impl(&c2));
        let imp_items = match imp {
            Ok(v) => v,
            Err(e) => vec![format!("err panic ({e})")],
        };
        if !spec_ok {
            report.mismatch(json!({"input": c.to_json(), "model": m, "tie": "model find_module differs from the spec resolver (theorem C33_find_refines_spec instance)"}));
        }
        if imp_items != model_items {
            let k = imp_items.iter().zip(model_items.iter()).position(|(a, b)| a != b).unwrap_or(imp_items.len().min(model_items.len()));
            report.mismatch(json!({"input": c.to_json(), "first_difference_at_item": k,
                "model": model_items.get(k), "impl": imp_items.get(k),
                "tie": "correspondence index.mod (LuaModuleIndex vs Index.Module model)"}));
        } else {
            report.traces_validated += 1;
        }
        // oracle
        let c3 = c.clone();
        let mut sub = Report::default();
        let fails = {
            let r = std::panic::catch_unwind(std::panic::AssertUnwindSafe(|| oracle(&c3, &mut sub)));
            match r {
                Ok(f) => f,
                Err(_) => vec!["panic in LuaModuleIndex".to_string()],
            }
        };
        for (k, v) in &sub.distribution {
            report.add(k, *v);
        }
        let resolved = sub.distribution.iter().filter(|(k, _)| k.starts_with("query_") && *k != "query_unresolved").map(|x| *x.1).sum::<u64>();
        let unresolved = *sub.distribution.get("query_unresolved").unwrap_or(&0);
        let adds = *sub.distribution.get("add_module").unwrap_or(&0);
        if resolved > 0 && unresolved > 0 && adds >= 2 && seen.insert(req.clone()) {
            report.distinct_nontrivial += 1;
        }
        if let Some(first) = fails.first() {
            report.oracle_failure(json!({"input": c.to_json(), "what": first, "all": fails.len(), "class": Value::Null}));
        }
        report.add("ops", c.ops.len() as u64);
        if report.samples.len() < 3 && c.ops.len() > 12 {
            report.sample(json!({"case": c.to_json(), "model": m}));
        }
    }
}
