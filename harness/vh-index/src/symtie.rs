//! Tie of the `Index.Sym` model (type, operator, metatable and member indexes): the same mutation histories are
//! applied to a real `DbIndex` through the public methods and to the Lean model (`index.sym`); entry counts
//! (`verif_report`) and lookups over the key universe must agree after every step.
use emmylua_code_analysis::{
    DbIndex, FileId, GlobalId, InFiled, LuaDeclId, LuaDeclTypeKind, LuaIndex, LuaMember, LuaMemberFeature, LuaMemberId,
    LuaMemberIndexItem, LuaMemberKey, LuaMemberOwner, LuaOperator, LuaOperatorMetaMethod, LuaOperatorOwner, LuaType,
    LuaTypeCache, LuaTypeDecl, LuaTypeDeclId, LuaTypeFlag, LuaTypeOwner, OperatorFunction,
};
use emmylua_parser::{LuaKind, LuaSyntaxId, LuaSyntaxKind};
use rowan::{TextRange, TextSize};
use serde_json::{Value, json};
use std::collections::HashSet;
use vh_common::{Report, Rng, run_driver};

fn range(a: u32) -> TextRange {
    TextRange::new(TextSize::new(a), TextSize::new(a + 1))
}
fn tid(t: u32) -> LuaTypeDeclId {
    LuaTypeDeclId::global(&format!("T{t}"))
}
fn owner(s: &str) -> LuaMemberOwner {
    let n = |x: &str| x.parse::<u32>().unwrap_or(0);
    match s.as_bytes().first() {
        Some(b't') => LuaMemberOwner::Type(tid(n(&s[1..]))),
        Some(b'g') => LuaMemberOwner::GlobalPath(GlobalId::new(&format!("g{}", n(&s[1..])))),
        Some(b'e') => {
            let p: Vec<&str> = s[1..].split('_').collect();
            LuaMemberOwner::Element(InFiled::new(FileId { id: n(p[0]) }, range(n(p.get(1).copied().unwrap_or("0")))))
        }
        _ => LuaMemberOwner::LocalUnresolve,
    }
}
fn show_owner(o: &LuaMemberOwner) -> String {
    match o {
        LuaMemberOwner::LocalUnresolve => "u".into(),
        LuaMemberOwner::Type(t) => format!("t{}", &t.get_name()[1..]),
        LuaMemberOwner::GlobalPath(g) => format!("g{}", &g.get_name()[1..]),
        LuaMemberOwner::Element(e) => format!("e{}_{}", e.file_id.id, u32::from(e.value.start())),
    }
}
fn mid(f: u32, i: u32) -> LuaMemberId {
    LuaMemberId::new(LuaSyntaxId::new(LuaKind::Syntax(LuaSyntaxKind::IndexExpr), range(i)), FileId { id: f })
}
fn feature(k: u32) -> LuaMemberFeature {
    match k {
        0 => LuaMemberFeature::FileFieldDecl,
        1 => LuaMemberFeature::FileDefine,
        2 => LuaMemberFeature::FileMethodDecl,
        3 => LuaMemberFeature::MetaFieldDecl,
        4 => LuaMemberFeature::MetaDefine,
        _ => LuaMemberFeature::MetaMethodDecl,
    }
}
fn opk(k: u32) -> LuaOperatorMetaMethod {
    if k == 0 { LuaOperatorMetaMethod::Add } else { LuaOperatorMetaMethod::Sub }
}

fn apply(db: &mut DbIndex, tok: &str, out: &mut Vec<String>) {
    let p: Vec<&str> = tok.split(':').collect();
    let n = |i: usize| p.get(i).and_then(|x| x.parse::<u32>().ok()).unwrap_or(0);
    match p[0] {
        "td" => {
            let f = FileId { id: n(1) };
            let decl = LuaTypeDecl::new(f, range(n(3)), format!("T{}", n(2)), LuaDeclTypeKind::Class, LuaTypeFlag::Partial.into(), tid(n(2)));
            db.get_type_index_mut().add_type_decl(f, decl);
        }
        "ts" => db.get_type_index_mut().add_super_type(tid(n(2)), FileId { id: n(1) }, LuaType::IntegerConst(n(3) as i64)),
        "tg" => db.get_type_index_mut().add_generic_params(tid(n(1)), vec![]),
        "tb" => db.get_type_index_mut().bind_type(
            LuaTypeOwner::Decl(LuaDeclId::new(FileId { id: n(1) }, TextSize::new(n(2)))),
            LuaTypeCache::DocType(LuaType::IntegerConst(n(3) as i64)),
        ),
        "tn" => db.get_type_index_mut().add_file_namespace(FileId { id: n(1) }, n(2).to_string()),
        "tu" => db.get_type_index_mut().add_file_using_namespace(FileId { id: n(1) }, n(2).to_string()),
        "op" => db.get_operator_index_mut().add_operator(LuaOperator::new(
            LuaOperatorOwner::Type(tid(n(3))),
            opk(n(4)),
            FileId { id: n(1) },
            range(n(2)),
            OperatorFunction::UnOp { ret: LuaType::Nil },
        )),
        "mt" => {
            let f = FileId { id: n(1) };
            db.get_metatable_index_mut().add(InFiled::new(f, range(n(2))), InFiled::new(f, range(n(3))));
        }
        "ma" => {
            let m = LuaMember::new(mid(n(2), n(3)), LuaMemberKey::Name(format!("k{}", n(4)).into()), feature(n(5)), None);
            db.get_member_index_mut().add_member(owner(p[1]), m);
        }
        "ms" => {
            db.get_member_index_mut().set_member_owner(owner(p[1]), FileId { id: n(2) }, mid(n(2), n(3)));
        }
        "mo" => {
            db.get_member_index_mut().add_member_to_owner(owner(p[1]), mid(n(2), n(3)));
        }
        "r" => db.remove(FileId { id: n(1) }),
        "x" => db.clear(),
        "c" => {
            let r = db.verif_report();
            let get = |k: &str| r.iter().find(|x| x.0 == k).map(|x| x.1).unwrap_or(usize::MAX);
            let keys = [
                "type.file_namespace", "type.file_using_namespace", "type.file_using_namespace.items", "type.file_types", "type.file_types.items",
                "type.full_name_type_map", "type.full_name_type_map.items", "type.generic_params", "type.supers", "type.supers.items",
                "type.types", "type.in_filed_type_owner", "type.in_filed_type_owner.items", "type.global_name_type_map",
                "operator.operators", "operator.type_operators_map", "operator.type_operators_map.items", "operator.in_filed_operator_map", "operator.in_filed_operator_map.items",
                "metatable.metatables",
                "member.members", "member.in_filed", "member.in_filed.items", "member.owner_members", "member.owner_members.items", "member.member_current_owner",
            ];
            out.push(format!("c={}", keys.iter().map(|k| get(k).to_string()).collect::<Vec<_>>().join(",")));
        }
        "g" => {
            let mut items: Vec<String> = Vec::new();
            let ti = db.get_type_index();
            for t in 0..3u32 {
                let id = tid(t);
                let locs: Vec<String> = ti.get_type_decl(&id).map(|d| d.get_locations().iter().map(|l| format!("{}:{}", l.file_id.id, u32::from(l.range.start()))).collect()).unwrap_or_default();
                let sup: Vec<String> = ti.get_super_types_raw(&id).unwrap_or_default().iter().map(|t| match t { LuaType::IntegerConst(i) => i.to_string(), _ => "?".into() }).collect();
                items.push(format!("T{t}={}/{}/{}/{}", locs.join("."), sup.join("."), ti.get_generic_params(&id).is_some() as u8, ti.find_type_decl(FileId { id: 0 }, &format!("T{t}"), None).is_some() as u8));
            }
            for f in 0..3u32 {
                let fid = FileId { id: f };
                let ns = ti.get_file_namespace(&fid).cloned().unwrap_or("none".into());
                let us = ti.get_file_using_namespace(&fid).map(|v| v.join(".")).unwrap_or_default();
                let caches: Vec<String> = (0..3u32)
                    .map(|p| match ti.get_type_cache(&LuaTypeOwner::Decl(LuaDeclId::new(fid, TextSize::new(p)))).map(|c| c.as_type().clone()) {
                        Some(LuaType::IntegerConst(i)) => i.to_string(),
                        Some(_) => "?".into(),
                        None => "none".into(),
                    })
                    .collect();
                items.push(format!("F{f}={ns}/{us}/{}", caches.join(".")));
            }
            for t in 0..3u32 {
                for op in 0..2u32 {
                    let ids: Vec<String> = db.get_operator_index().get_operators(&LuaOperatorOwner::Type(tid(t)), opk(op)).map(|v| v.iter().map(|i| format!("{}:{}", i.file_id.id, u32::from(i.position))).collect()).unwrap_or_default();
                    items.push(format!("O{t}.{op}={}", ids.join(".")));
                }
            }
            for f in 0..3u32 {
                for k in 0..3u32 {
                    let v = db.get_metatable_index().get(&InFiled::new(FileId { id: f }, range(k))).map(|m| format!("{}:{}", m.file_id.id, u32::from(m.value.start()))).unwrap_or("none".into());
                    items.push(format!("M{f}.{k}={v}"));
                }
            }
            let mi = db.get_member_index();
            let mut owners: Vec<String> = (0..3).map(|t| format!("t{t}")).collect();
            owners.extend((0..3).map(|f| format!("e{f}_0")));
            owners.extend((0..2).map(|g| format!("g{g}")));
            let idstr = |id: &LuaMemberId| format!("{}:{}", id.file_id.id, u32::from(id.get_syntax_id().get_range().start()));
            for o in &owners {
                for k in 0..3u32 {
                    let v = match mi.get_member_item(&owner(o), &LuaMemberKey::Name(format!("k{k}").into())) {
                        None => "none".into(),
                        Some(LuaMemberIndexItem::One(id)) => format!("o{}", idstr(id)),
                        Some(LuaMemberIndexItem::Many(ids)) => format!("m{}", ids.iter().map(|i| idstr(i)).collect::<Vec<_>>().join(".")),
                    };
                    items.push(format!("W{o}.{k}={v}"));
                }
            }
            for f in 0..3u32 {
                for i in 0..4u32 {
                    let id = mid(f, i);
                    items.push(format!("C{f}.{i}={}/{}", mi.get_member(&id).is_some() as u8, mi.get_current_owner(&id).map(show_owner).unwrap_or("none".into())));
                }
            }
            out.push(format!("g={}", items.join(";")));
        }
        _ => {}
    }
}

pub fn run_impl(tokens: &[String]) -> Vec<String> {
    let mut db = DbIndex::new();
    let mut out = Vec::new();
    for t in tokens {
        apply(&mut db, t, &mut out);
    }
    out
}

fn gen_owner(rng: &mut Rng, f: u32) -> String {
    match rng.below(7) {
        0..=2 => format!("t{}", rng.below(3)),
        3 | 4 => format!("e{}_0", if rng.chance(3, 4) { f } else { rng.below(3) as u32 }),
        5 => format!("g{}", rng.below(2)),
        _ => "u".into(),
    }
}

/// one mutation of file `f`; `cross` allows touching other files' members (`set_member_owner` / `add_member_to_owner`)
fn gen_mut(rng: &mut Rng, f: u32, cross: bool) -> String {
    match rng.below(14) {
        0 | 1 => format!("td:{f}:{}:{}", rng.below(3), rng.below(4)),
        2 => format!("ts:{f}:{}:{}", rng.below(3), rng.below(5)),
        3 => format!("tg:{}:{}", rng.below(3), rng.below(3)),
        4 => format!("tb:{f}:{}:{}", rng.below(3), rng.below(5)),
        5 => if rng.chance(1, 2) { format!("tn:{f}:{}", rng.below(3)) } else { format!("tu:{f}:{}", rng.below(3)) },
        6 => format!("op:{f}:{}:{}:{}", rng.below(4), rng.below(3), rng.below(2)),
        7 => format!("mt:{f}:{}:{}", rng.below(3), rng.below(4)),
        8..=11 => format!("ma:{}:{f}:{}:{}:{}", gen_owner(rng, f), rng.below(4), rng.below(3), rng.below(6)),
        12 => {
            let g = if cross { rng.below(3) as u32 } else { f };
            format!("mo:{}:{g}:{}", gen_owner(rng, f), rng.below(4))
        }
        _ => {
            let g = if cross { rng.below(3) as u32 } else { f };
            format!("ms:{}:{g}:{}", gen_owner(rng, f), rng.below(4))
        }
    }
}

pub fn gen_history(rng: &mut Rng, cross: bool) -> Vec<String> {
    let nfiles = 3u32;
    let mut contrib: Vec<Vec<String>> = (0..nfiles).map(|f| (0..rng.range(1, 7)).map(|_| gen_mut(rng, f, cross)).collect()).collect();
    let mut live = vec![false; nfiles as usize];
    let mut toks = Vec::new();
    for _ in 0..rng.range(3, 9) {
        let f = rng.below(nfiles as usize);
        match rng.below(10) {
            0..=4 => {
                if live[f] {
                    toks.push(format!("r:{f}"));
                }
                if rng.chance(1, 3) {
                    contrib[f] = (0..rng.range(1, 7)).map(|_| gen_mut(rng, f as u32, cross)).collect();
                }
                toks.extend(contrib[f].iter().cloned());
                live[f] = true;
            }
            5..=7 => {
                toks.push(format!("r:{f}"));
                live[f] = false;
            }
            _ => {
                toks.push("x".into());
                toks.push("c".into());
                for x in 0..nfiles as usize {
                    if live[x] {
                        toks.extend(contrib[x].iter().cloned());
                    }
                }
            }
        }
        toks.push("c".into());
        toks.push("g".into());
    }
    toks
}

fn compare(tokens: &[String], model: &str, report: &mut Report) {
    let imp = vh_common::catch({
        let t = tokens.to_vec();
        move || run_impl(&t)
    });
    let imp = match imp {
        Ok(v) => format!("ok {}", v.join(" ")),
        Err(e) => format!("err panic ({e})"),
    };
    if imp != model {
        let a: Vec<&str> = imp.split(' ').collect();
        let b: Vec<&str> = model.split(' ').collect();
        let k = a.iter().zip(b.iter()).position(|(x, y)| x != y).unwrap_or(a.len().min(b.len()));
        let (ai, bi) = (a.get(k).copied().unwrap_or(""), b.get(k).copied().unwrap_or(""));
        let (af, bf): (Vec<&str>, Vec<&str>) = (ai.split(';').collect(), bi.split(';').collect());
        let j = af.iter().zip(bf.iter()).position(|(x, y)| x != y).unwrap_or(0);
        report.mismatch(json!({"input": {"sym_tokens": tokens}, "first_difference_at_item": k,
            "impl": af.get(j).or(Some(&ai)), "model": bf.get(j).or(Some(&bi)),
            "tie": "correspondence index.sym (type / operator / metatable / member indexes of DbIndex vs Index.Sym model)"}));
    } else {
        report.traces_validated += 1;
    }
}

pub fn run(rng: &mut Rng, n: usize, report: &mut Report) {
    let mut hs: Vec<Vec<String>> = Vec::new();
    for i in 0..n {
        hs.push(gen_history(rng, i % 2 == 0));
    }
    let reqs: Vec<String> = hs.iter().map(|h| format!("index.sym {}", h.join(" "))).collect();
    let model = run_driver(&reqs);
    let mut seen = HashSet::new();
    for (h, m) in hs.iter().zip(model.iter()) {
        report.evaluations += 1;
        report.count("sym_tie_histories");
        report.add("sym_tie_tokens", h.len() as u64);
        if h.iter().any(|t| t.starts_with("r:")) && seen.insert(h.join(" ")) {
            report.distinct_nontrivial += 1;
        }
        compare(h, m, report);
    }
}

pub fn replay(v: &Value, report: &mut Report) {
    if let Some(toks) = v["sym_tokens"].as_array() {
        let h: Vec<String> = toks.iter().filter_map(|t| t.as_str().map(|s| s.to_string())).collect();
        let model = run_driver(&[format!("index.sym {}", h.join(" "))]);
        report.evaluations += 1;
        compare(&h, &model[0], report);
    }
}
