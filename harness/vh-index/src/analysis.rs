//! C10 / C08 / C09: implementation-side oracle on the real analysis (`EmmyLuaAnalysis`): full observable
//! dump + `DbIndex::verif_report()` entry counts before/after histories of update / re-submit unchanged /
//! edit-restore / remove / close / reindex over small generated multi-file workspaces.
use emmylua_code_analysis::{
    EmmyLuaAnalysis, FileId, LuaMemberOwner, LuaSemanticDeclId, RenderLevel, SemanticDeclLevel,
    file_path_to_uri, humanize_type,
};
use emmylua_parser::{LuaAstNode, LuaTokenKind};
use lsp_types::Uri;
use rowan::NodeOrToken;
use serde_json::{Value, json};
use std::collections::{BTreeMap, BTreeSet};
use std::path::PathBuf;
use tokio_util::sync::CancellationToken;
use vh_common::Rng;

pub const ROOT: &str = "/ws";

#[derive(Clone, Debug)]
pub enum AOp {
    /// submit variant `v` of file `i`
    Update(usize, usize),
    /// submit the current content again
    Resubmit(usize),
    /// `remove_file_by_uri`
    Remove(usize),
    /// `update_file_by_uri(uri, None)` (closed, not on disk)
    Close(usize),
    Reindex,
    /// one `update_files_by_uri` batch submitting variant 0 of these files
    Batch(Vec<usize>),
    /// config reload: switch to `configs[k]`
    Config(usize),
}

/// one configuration of the analysis (what a config reload changes)
#[derive(Clone, Debug, PartialEq)]
pub struct CfgSpec {
    pub strict: bool,
    /// `workspace.moduleMap` (regex pattern, replacement)
    pub module_map: Vec<(String, String)>,
    pub extensions: Vec<String>,
    pub require_pattern: Vec<String>,
    pub require_like: Vec<String>,
    /// main workspace root (under `/ws`), library roots
    pub root: String,
    pub libraries: Vec<String>,
}

impl CfgSpec {
    pub fn base(strict: bool) -> CfgSpec {
        CfgSpec { strict, module_map: vec![], extensions: vec![], require_pattern: vec![], require_like: vec![], root: ROOT.to_string(), libraries: vec![] }
    }
    pub fn to_json(&self) -> Value {
        json!({"strict": self.strict, "module_map": self.module_map, "extensions": self.extensions, "require_pattern": self.require_pattern,
               "require_like": self.require_like, "root": self.root, "libraries": self.libraries})
    }
    pub fn from_json(v: &Value) -> CfgSpec {
        let strs = |k: &str| v[k].as_array().map(|a| a.iter().filter_map(|x| x.as_str().map(|s| s.to_string())).collect::<Vec<_>>()).unwrap_or_default();
        CfgSpec {
            strict: v["strict"].as_bool().unwrap_or(false),
            module_map: v["module_map"].as_array().map(|a| a.iter().filter_map(|p| Some((p.get(0)?.as_str()?.to_string(), p.get(1)?.as_str()?.to_string()))).collect()).unwrap_or_default(),
            extensions: strs("extensions"),
            require_pattern: strs("require_pattern"),
            require_like: strs("require_like"),
            root: v["root"].as_str().unwrap_or(ROOT).to_string(),
            libraries: strs("libraries"),
        }
    }
    pub fn emmyrc(&self) -> emmylua_code_analysis::Emmyrc {
        let mut rc = emmylua_code_analysis::Emmyrc::default();
        rc.strict.require_path = self.strict;
        rc.workspace.module_map = self.module_map.iter().map(|(p, r)| emmylua_code_analysis::EmmyrcWorkspaceModuleMap { pattern: p.clone(), replace: r.clone() }).collect();
        rc.runtime.extensions = self.extensions.clone();
        rc.runtime.require_pattern = self.require_pattern.clone();
        rc.runtime.require_like_function = self.require_like.clone();
        rc
    }
    /// a config reload on a running analysis: new Emmyrc, workspace roots recomputed
    pub fn apply(&self, a: &mut EmmyLuaAnalysis) {
        a.update_config(std::sync::Arc::new(self.emmyrc()));
        a.clear_non_std_workspaces();
        a.add_main_workspace(PathBuf::from(&self.root));
        for l in &self.libraries {
            a.add_library_workspace(&emmylua_code_analysis::WorkspaceFolder::new(PathBuf::from(l), true));
        }
    }
}

#[derive(Clone, Debug)]
pub struct WsCase {
    /// file name, content variants (variant 0 = base)
    pub files: Vec<(String, Vec<String>)>,
    /// initial batch: files submitted through `update_files_by_uri` (indices), all with variant 0
    pub initial: Vec<usize>,
    pub ops: Vec<AOp>,
    /// C10: content of the add-then-remove probe file (default: last variant of file 0)
    pub probe: Option<String>,
    /// `strict.requirePath` (true = no fuzzy require resolution)
    pub strict: bool,
    /// configurations `AOp::Config(k)` switches to (k indexes this list)
    pub configs: Vec<CfgSpec>,
}

impl WsCase {
    pub fn probe_text(&self) -> String {
        self.probe.clone().unwrap_or_else(|| self.files[0].1.last().cloned().unwrap_or_default())
    }
    pub fn to_json(&self) -> Value {
        json!({
            "files": self.files.iter().map(|(n, v)| json!({"name": n, "variants": v})).collect::<Vec<_>>(),
            "initial": self.initial,
            "probe": self.probe,
            "strict": self.strict,
            "configs": self.configs.iter().map(|c| c.to_json()).collect::<Vec<_>>(),
            "ops": self.ops.iter().map(|o| match o {
                AOp::Update(i, v) => json!(["update", i, v]),
                AOp::Resubmit(i) => json!(["resubmit", i]),
                AOp::Remove(i) => json!(["remove", i]),
                AOp::Close(i) => json!(["close", i]),
                AOp::Reindex => json!(["reindex"]),
                AOp::Batch(v) => json!(["batch", v]),
                AOp::Config(k) => json!(["config", k]),
            }).collect::<Vec<_>>(),
        })
    }
    pub fn from_json(v: &Value) -> Option<WsCase> {
        let files = v["files"].as_array()?.iter().map(|f| {
            (f["name"].as_str().unwrap_or("x.lua").to_string(),
             f["variants"].as_array().map(|a| a.iter().filter_map(|s| s.as_str().map(|s| s.to_string())).collect()).unwrap_or_default())
        }).collect();
        let initial = v["initial"].as_array()?.iter().filter_map(|x| x.as_u64().map(|x| x as usize)).collect();
        let mut ops = Vec::new();
        for o in v["ops"].as_array()? {
            let a = o.as_array()?;
            let n = |i: usize| a.get(i).and_then(|x| x.as_u64()).unwrap_or(0) as usize;
            ops.push(match a.first()?.as_str()? {
                "update" => AOp::Update(n(1), n(2)),
                "resubmit" => AOp::Resubmit(n(1)),
                "remove" => AOp::Remove(n(1)),
                "close" => AOp::Close(n(1)),
                "reindex" => AOp::Reindex,
                "config" => AOp::Config(n(1)),
                "batch" => AOp::Batch(a.get(1).and_then(|x| x.as_array()).map(|v| v.iter().filter_map(|x| x.as_u64().map(|x| x as usize)).collect()).unwrap_or_default()),
                _ => return None,
            });
        }
        Some(WsCase { files, initial, ops, probe: v["probe"].as_str().map(|s| s.to_string()), strict: v["strict"].as_bool().unwrap_or(false), configs: v["configs"].as_array().map(|a| a.iter().map(CfgSpec::from_json).collect()).unwrap_or_default() })
    }
}

pub fn uri_of(name: &str) -> Uri {
    file_path_to_uri(&PathBuf::from(format!("{ROOT}/{name}"))).expect("uri")
}

pub fn new_analysis() -> EmmyLuaAnalysis {
    new_analysis_cfg(false)
}

pub fn new_analysis_cfg(strict: bool) -> EmmyLuaAnalysis {
    let mut a = EmmyLuaAnalysis::new();
    if strict {
        let mut rc = emmylua_code_analysis::Emmyrc::default();
        rc.strict.require_path = true;
        a.update_config(std::sync::Arc::new(rc));
    }
    a.add_main_workspace(PathBuf::from(ROOT));
    a
}

/// the analysis state + what the harness knows about it
pub struct Sim {
    pub a: EmmyLuaAnalysis,
    /// current content per file index (None = not present)
    pub current: Vec<Option<String>>,
    /// the configuration in force
    pub cfg: CfgSpec,
}

impl Sim {
    pub fn new(n: usize, strict: bool) -> Sim {
        Sim { a: new_analysis_cfg(strict), current: vec![None; n], cfg: CfgSpec::base(strict) }
    }
    pub fn initial(&mut self, c: &WsCase) {
        let batch: Vec<(Uri, Option<String>)> =
            c.initial.iter().map(|&i| (uri_of(&c.files[i].0), Some(c.files[i].1[0].clone()))).collect();
        for &i in &c.initial {
            self.current[i] = Some(c.files[i].1[0].clone());
        }
        self.a.update_files_by_uri(batch);
    }
    pub fn apply(&mut self, c: &WsCase, op: &AOp) {
        match op {
            AOp::Update(i, v) => {
                let text = c.files[*i].1[*v % c.files[*i].1.len()].clone();
                self.a.update_file_by_uri(&uri_of(&c.files[*i].0), Some(text.clone()));
                self.current[*i] = Some(text);
            }
            AOp::Resubmit(i) => {
                if let Some(t) = self.current[*i].clone() {
                    self.a.update_file_by_uri(&uri_of(&c.files[*i].0), Some(t));
                }
            }
            AOp::Remove(i) => {
                self.a.remove_file_by_uri(&uri_of(&c.files[*i].0));
                self.current[*i] = None;
            }
            AOp::Close(i) => {
                if self.current[*i].is_some() {
                    self.a.update_file_by_uri(&uri_of(&c.files[*i].0), None);
                    self.current[*i] = None;
                }
            }
            AOp::Reindex => self.a.reindex(),
            AOp::Config(k) => {
                if let Some(spec) = c.configs.get(*k) {
                    spec.apply(&mut self.a);
                    self.cfg = spec.clone();
                }
            }
            AOp::Batch(v) => {
                let batch: Vec<(Uri, Option<String>)> = v.iter().map(|&i| (uri_of(&c.files[i].0), Some(c.files[i].1[0].clone()))).collect();
                for &i in v {
                    self.current[i] = Some(c.files[i].1[0].clone());
                }
                self.a.update_files_by_uri(batch);
            }
        }
    }
}

/// fresh analysis of the given (name, text) list, loaded one by one in that order
pub fn fresh(files: &[(String, String)], strict: bool) -> EmmyLuaAnalysis {
    let mut a = new_analysis_cfg(strict);
    let batch: Vec<(Uri, Option<String>)> = files.iter().map(|(n, t)| (uri_of(n), Some(t.clone()))).collect();
    a.update_files_by_uri(batch);
    a
}

fn file_name(a: &EmmyLuaAnalysis, f: FileId) -> String {
    match a.get_uri(f) {
        Some(u) => {
            let s = u.as_str();
            match s.rfind("/ws/") {
                Some(p) => s[p + 4..].to_string(),
                None => s.to_string(),
            }
        }
        None => format!("<no-uri:{}>", f.id),
    }
}

fn decl_loc(a: &EmmyLuaAnalysis, d: &LuaSemanticDeclId) -> String {
    match d {
        LuaSemanticDeclId::LuaDecl(id) => format!("decl {}@{}", file_name(a, id.file_id), u32::from(id.position)),
        LuaSemanticDeclId::Member(id) => {
            format!("member {}@{:?}", file_name(a, id.file_id), id.get_syntax_id().get_range())
        }
        LuaSemanticDeclId::TypeDecl(id) => {
            let db = a.compilation.get_db();
            // a multi-location definition is compared as a set (order of the locations is not judged)
            let mut locs: Vec<String> = db
                .get_type_index()
                .get_type_decl(id)
                .map(|d| d.get_locations().iter().map(|l| format!("{}@{:?}", file_name(a, l.file_id), l.range)).collect())
                .unwrap_or_default();
            locs.sort();
            format!("type {} [{}]", id.get_name(), locs.join(","))
        }
        LuaSemanticDeclId::Signature(id) => format!("sig {}@{}", file_name(a, id.get_file_id()), u32::from(id.get_position())),
    }
}

/// rendered member lists `{ … }` follow hash-map iteration order (C11's subject): compare them as sets
fn norm_type(t: &str) -> String {
    let lines: Vec<&str> = t.split('\n').collect();
    if lines.len() < 3 {
        return t.to_string();
    }
    let mut inner: Vec<&str> = lines[1..lines.len() - 1].to_vec();
    inner.sort();
    format!("{}\n{}\n{}", lines[0], inner.join("\n"), lines[lines.len() - 1])
}

/// fresh analysis under a configuration
pub fn fresh_cfg(files: &[(String, String)], spec: &CfgSpec) -> EmmyLuaAnalysis {
    let mut a = EmmyLuaAnalysis::new();
    spec.apply(&mut a);
    let batch: Vec<(Uri, Option<String>)> = files.iter().map(|(n, t)| (uri_of(n), Some(t.clone()))).collect();
    a.update_files_by_uri(batch);
    a
}

/// a fresh analysis of the same files whose hash maps have a different insertion history (two scratch files are
/// analysed and removed first): results that differ from `fresh` depend on hash-map iteration order
pub fn fresh_perturbed(files: &[(String, String)], strict: bool) -> EmmyLuaAnalysis {
    let mut a = new_analysis_cfg(strict);
    for k in 0..2 {
        let mut t = String::new();
        for i in 0..12 {
            t.push_str(&format!("---@class Zz{k}_{i}\n---@field f{i} integer\nlocal Zz{k}_{i} = {{}}\nZg{k}_{i} = {i}\n"));
        }
        a.update_file_by_uri(&uri_of(&format!("zz{k}.lua")), Some(t));
    }
    for k in 0..2 {
        a.remove_file_by_uri(&uri_of(&format!("zz{k}.lua")));
    }
    let batch: Vec<(Uri, Option<String>)> = files.iter().map(|(n, t)| (uri_of(n), Some(t.clone()))).collect();
    a.update_files_by_uri(batch);
    a
}

/// the observable dump: section → sorted lines; no file ids, only workspace-relative names
pub fn dump(a: &EmmyLuaAnalysis, queries: &[String]) -> BTreeMap<String, Vec<String>> {
    let mut out: BTreeMap<String, Vec<String>> = BTreeMap::new();
    let db = a.compilation.get_db();
    let mut files: Vec<FileId> = db.get_vfs().get_all_file_ids();
    files.sort();
    out.insert("files".into(), files.iter().map(|f| file_name(a, *f)).collect());
    for f in &files {
        let name = file_name(a, *f);
        // diagnostics
        let mut ds: Vec<String> = a
            .diagnose_file(*f, CancellationToken::new())
            .unwrap_or_default()
            .iter()
            .map(|d| {
                let code = match &d.code {
                    Some(lsp_types::NumberOrString::String(s)) => s.clone(),
                    Some(lsp_types::NumberOrString::Number(n)) => n.to_string(),
                    None => "-".into(),
                };
                format!("{}:{}-{}:{} {} {}", d.range.start.line, d.range.start.character, d.range.end.line, d.range.end.character, code, d.message)
            })
            .collect();
        ds.sort();
        out.insert(format!("diag:{name}"), ds);
        // per-token semantic info, definition, hover doc
        let mut sem = Vec::new();
        if let Some(model) = a.compilation.get_semantic_model(*f) {
            let root = model.get_root().syntax().clone();
            for el in root.descendants_with_tokens() {
                if let NodeOrToken::Token(t) = el {
                    let k: LuaTokenKind = t.kind().into();
                    if k != LuaTokenKind::TkName && k != LuaTokenKind::TkString {
                        continue;
                    }
                    let off = u32::from(t.text_range().start());
                    let info = model.get_semantic_info(NodeOrToken::Token(t.clone()));
                    let decl = model.find_decl(NodeOrToken::Token(t.clone()), SemanticDeclLevel::default());
                    let ty = info.as_ref().map(|i| norm_type(&humanize_type(db, &i.typ, RenderLevel::Detailed))).unwrap_or("-".into());
                    let d = decl.as_ref().map(|d| decl_loc(a, d)).unwrap_or("-".into());
                    let doc = decl
                        .as_ref()
                        .and_then(|d| db.get_property_index().get_property(d))
                        .map(|p| format!("desc={:?} deprecated={} vis={:?} tags={}", p.description(), p.deprecated().is_some(), p.visibility, p.tag_content().map(|t| t.get_all_tags().len()).unwrap_or(0)))
                        .unwrap_or("-".into());
                    sem.push(format!("{off:05} {} : {ty} => {d} ## {doc}", t.text()));
                }
            }
        }
        out.insert(format!("sem:{name}"), sem);
        // module
        let m = db.get_module_index().get_module(*f).map(|m| m.full_module_name.clone()).unwrap_or("-".into());
        out.entry("modules".into()).or_default().push(format!("{name} = {m}"));
    }
    // module resolution
    for q in queries {
        let r = db.get_module_index().find_module(q).map(|m| file_name(a, m.file_id)).unwrap_or("-".into());
        out.entry("require".into()).or_default().push(format!("{q} -> {r}"));
    }
    // globals
    let mut gs: Vec<String> = db
        .get_global_index()
        .get_all_global_decl_ids()
        .iter()
        .map(|id| {
            let n = db.get_decl_index().get_decl(id).map(|d| d.get_name().to_string()).unwrap_or("?".into());
            format!("{n} {}@{}", file_name(a, id.file_id), u32::from(id.position))
        })
        .collect();
    gs.sort();
    out.insert("globals".into(), gs);
    // members recorded for every global path (`G`, `G.a`, …): count and (key, file) of every item
    let mut gm = Vec::new();
    let mut gnames: BTreeSet<String> = BTreeSet::new();
    for id in db.get_global_index().get_all_global_decl_ids() {
        if let Some(d) = db.get_decl_index().get_decl(&id) {
            gnames.insert(d.get_name().to_string());
        }
    }
    for n in queries.iter().filter(|q| q.starts_with('G')) {
        gnames.insert(n.clone());
    }
    for n in gnames {
        let owner = LuaMemberOwner::GlobalPath(emmylua_code_analysis::GlobalId::new(&n));
        let len = db.get_member_index().get_member_len(&owner);
        let mut ms: Vec<String> = db.get_member_index().get_members(&owner).unwrap_or_default().iter().map(|m| format!("{:?}@{}", m.get_key(), file_name(a, m.get_file_id()))).collect();
        ms.sort();
        gm.push(format!("{n} len={len} members=[{}]", ms.join(",")));
    }
    // members of the table / class a global declaration is bound to (`get_member_len`, `get_members` on the
    // owner its type cache names): what `G.f` resolves against
    let mut dm = Vec::new();
    for id in db.get_global_index().get_all_global_decl_ids() {
        let Some(d) = db.get_decl_index().get_decl(&id) else { continue };
        let owner = match db.get_type_index().get_type_cache(&id.into()).map(|c| c.as_type().clone()) {
            Some(emmylua_code_analysis::LuaType::TableConst(t)) => Some(LuaMemberOwner::Element(t)),
            Some(emmylua_code_analysis::LuaType::Ref(t)) | Some(emmylua_code_analysis::LuaType::Def(t)) => Some(LuaMemberOwner::Type(t)),
            _ => None,
        };
        if let Some(owner) = owner {
            let len = db.get_member_index().get_member_len(&owner);
            let mut ms: Vec<String> = db.get_member_index().get_members(&owner).unwrap_or_default().iter().map(|m| format!("{:?}@{}", m.get_key(), file_name(a, m.get_file_id()))).collect();
            ms.sort();
            dm.push(format!("{} {}@{} len={len} members=[{}]", d.get_name(), file_name(a, id.file_id), u32::from(id.position), ms.join(",")));
        }
    }
    dm.sort();
    out.insert("global-decl-members".into(), dm);
    out.insert("global-members".into(), gm);
    // types with locations, supers, members, docs
    let mut ts = Vec::new();
    for d in db.get_type_index().get_all_types() {
        let id = d.get_id();
        let mut locs: Vec<String> = d.get_locations().iter().map(|l| format!("{}@{:?}", file_name(a, l.file_id), l.range)).collect();
        locs.sort();
        let mut supers: Vec<String> = db.get_type_index().get_super_types(&id).unwrap_or_default().iter().map(|t| humanize_type(db, t, RenderLevel::Simple)).collect();
        supers.sort();
        let mut members: Vec<String> = db
            .get_member_index()
            .get_members(&LuaMemberOwner::Type(id.clone()))
            .unwrap_or_default()
            .iter()
            .map(|m| format!("{:?}@{}", m.get_key(), file_name(a, m.get_file_id())))
            .collect();
        members.sort();
        let doc = db
            .get_property_index()
            .get_property(&LuaSemanticDeclId::TypeDecl(id.clone()))
            .map(|p| format!("desc={:?} deprecated={}", p.description(), p.deprecated().is_some()))
            .unwrap_or("-".into());
        ts.push(format!("{} locs=[{}] supers=[{}] members=[{}] doc={}", d.get_full_name(), locs.join(","), supers.join(","), members.join(","), doc));
    }
    ts.sort();
    out.insert("types".into(), ts);
    out
}

pub fn sizes(a: &EmmyLuaAnalysis) -> BTreeMap<String, usize> {
    a.compilation.get_db().verif_report().into_iter().map(|(k, v)| (k.to_string(), v)).collect()
}

/// first difference between two dumps
pub fn diff_dump(x: &BTreeMap<String, Vec<String>>, y: &BTreeMap<String, Vec<String>>) -> Option<String> {
    let keys: BTreeSet<&String> = x.keys().chain(y.keys()).collect();
    for k in keys {
        let (a, b) = (x.get(k), y.get(k));
        if a != b {
            let empty = Vec::new();
            let (a, b) = (a.unwrap_or(&empty), b.unwrap_or(&empty));
            let i = a.iter().zip(b.iter()).position(|(p, q)| p != q).unwrap_or(a.len().min(b.len()));
            if std::env::var("VH_DEBUG").is_ok() {
                eprintln!("=== section {k} before:\n{}\n=== after:\n{}", a.join("\n"), b.join("\n"));
            }
            return Some(format!("section {k}: {:?} vs {:?}", a.get(i), b.get(i)));
        }
    }
    None
}

pub fn diff_sizes(x: &BTreeMap<String, usize>, y: &BTreeMap<String, usize>, ignore: &[&str]) -> Option<String> {
    let mut all = Vec::new();
    for (k, v) in x {
        if ignore.contains(&k.as_str()) {
            continue;
        }
        let w = y.get(k).copied().unwrap_or(0);
        if *v != w {
            all.push(format!("{k}: {v} vs {w}"));
        }
    }
    if all.is_empty() { None } else { Some(all.join("; ")) }
}

/// every differing line of two dumps, paired by (section, first two tokens of the line)
pub fn diff_dump_all(x: &BTreeMap<String, Vec<String>>, y: &BTreeMap<String, Vec<String>>) -> Vec<(String, Option<String>, Option<String>)> {
    fn key(l: &str) -> String {
        l.split_whitespace().take(2).collect::<Vec<_>>().join(" ")
    }
    let mut out = Vec::new();
    let secs: BTreeSet<&String> = x.keys().chain(y.keys()).collect();
    let empty = Vec::new();
    for sec in secs {
        let (a, b) = (x.get(sec).unwrap_or(&empty), y.get(sec).unwrap_or(&empty));
        if a == b {
            continue;
        }
        let mut bm: BTreeMap<String, Vec<&String>> = BTreeMap::new();
        for l in b {
            bm.entry(key(l)).or_default().push(l);
        }
        for l in a {
            let k = key(l);
            match bm.get_mut(&k).and_then(|v| if v.is_empty() { None } else { Some(v.remove(0)) }) {
                Some(m) => {
                    if m != l {
                        out.push((sec.clone(), Some(l.clone()), Some(m.clone())));
                    }
                }
                None => out.push((sec.clone(), Some(l.clone()), None)),
            }
        }
        for (_, rest) in bm {
            for m in rest {
                out.push((sec.clone(), None, Some(m.clone())));
            }
        }
    }
    out
}

/// which observable differs: the symptom kind of one differing dump line
pub fn symptom_of(section: &str, a: &Option<String>, b: &Option<String>) -> String {
    let any = a.as_ref().or(b.as_ref()).cloned().unwrap_or_default();
    if a.as_ref().map(|l| l.contains("<no-uri:")).unwrap_or(false) || b.as_ref().map(|l| l.contains("<no-uri:")).unwrap_or(false) {
        return "stale-file-reference".into();
    }
    if section.starts_with("diag:") {
        let code = any.split_whitespace().nth(1).unwrap_or("?").to_string();
        if let (Some(a), Some(b)) = (a, b) {
            // same place and code, only the message differs: which type the message renders
            if a != b && (a.contains("field") || b.contains("field")) {
                return "global-type-in-diag".into();
            }
        }
        return match code.as_str() {
            "deprecated" => "deprecated-diag".into(),
            "undefined-field" => "undefined-field-diag".into(),
            c => format!("diag:{c}"),
        };
    }
    if section.starts_with("sem:") {
        let tok = any.split_whitespace().nth(1).unwrap_or("").to_string();
        let is_global = tok.starts_with('G');
        let (Some(a), Some(b)) = (a, b) else { return format!("token-set:{tok}") };
        // `<off> <tok> : TYPE => DECL ## DOC`
        let parts = |l: &str| -> (String, String, String) {
            let (head, doc) = l.rsplit_once(" ## ").unwrap_or((l, ""));
            let (ty, decl) = head.rsplit_once(" => ").unwrap_or((head, ""));
            (ty.to_string(), decl.to_string(), doc.to_string())
        };
        let (pa, pb) = (parts(a), parts(b));
        if pa.0 == pb.0 && pa.1 == pb.1 {
            return "hover-doc".into();
        }
        if pa.0 != pb.0 {
            if is_global {
                return "global-type".into();
            }
            if tok == "value" {
                // `x.value` on a required module / bound class: follows the resolution of the field
                return "required-field-type".into();
            }
            if tok.starts_with("field") {
                // `G.fieldK`: a member of a global table
                return "global-member-type".into();
            }
            // only the rendered member list `{ … }` of the type differs
            let strip = |t: &str| -> String {
                match (t.find('{'), t.rfind('}')) {
                    (Some(i), Some(j)) if i < j => format!("{}{}", t[..i].trim(), t[j + 1..].trim()),
                    _ => t.trim().to_string(),
                }
            };
            if strip(&pa.0) == strip(&pb.0) {
                return "type-members".into();
            }
            return format!("type-of:{tok}");
        }
        return if is_global { "global-decl".into() } else { format!("decl-of:{tok}") };
    }
    if section == "types" {
        let (Some(a), Some(b)) = (a, b) else { return "type-set".into() };
        let field = |l: &str, name: &str| -> String {
            let pat = format!(" {name}=");
            match l.find(&pat) {
                Some(p) => {
                    let rest = &l[p + pat.len()..];
                    if name == "doc" { rest.to_string() } else { rest.split(']').next().unwrap_or("").to_string() }
                }
                None => String::new(),
            }
        };
        for f in ["supers", "members", "locs"] {
            if field(a, f) != field(b, f) {
                return format!("type-{f}");
            }
        }
        return "hover-doc".into();
    }
    if section == "globals" {
        return "globals".into();
    }
    if section == "global-decl-members" {
        // `<name> <file>@<pos> len=<n> members=[key@file,…]`: only members of the declaring file itself appear /
        // disappear (the `G = G or {}` member table) vs. anything involving another file's members
        let own_only = |l: &Option<String>| -> bool {
            let Some(l) = l else { return true };
            let file = l.split_whitespace().nth(1).and_then(|x| x.split('@').next()).unwrap_or("").to_string();
            let ms = l.split("members=[").nth(1).unwrap_or("").trim_end_matches(']');
            ms.split(',').filter(|m| !m.is_empty()).all(|m| m.rsplit('@').next() == Some(file.as_str()))
        };
        return if own_only(a) && own_only(b) { "global-own-member-list".into() } else { "global-member-list".into() };
    }
    if section == "global-members" {
        return "global-member-list".into();
    }
    format!("section:{section}")
}

/// the grown entry counts of one comparison as ONE symptom: `counts:<key>+<delta>,<key>+<delta>,…` (sorted)
pub fn count_symptoms(grown: &str) -> Vec<String> {
    let mut parts: Vec<String> = grown
        .split("; ")
        .map(|e| {
            let (k, rest) = e.split_once(": ").unwrap_or((e, ""));
            let nums: Vec<i64> = rest.split(" -> ").filter_map(|x| x.trim().parse().ok()).collect();
            let delta = if nums.len() == 2 { nums[1] - nums[0] } else { 0 };
            format!("{k}+{delta}")
        })
        .collect();
    parts.sort();
    vec![format!("counts:{}", parts.join(","))]
}

/// parse a `counts:` symptom into (key, delta)
pub fn parse_counts(symptom: &str) -> Option<Vec<(String, i64)>> {
    let body = symptom.strip_prefix("counts:")?;
    Some(body.split(',').filter_map(|p| p.rsplit_once('+').map(|(k, d)| (k.to_string(), d.parse().unwrap_or(0)))).collect())
}

/// entries of `y` (after) that exceed `x` (before): indexed state that grew
pub fn grown_sizes(x: &BTreeMap<String, usize>, y: &BTreeMap<String, usize>) -> Option<String> {
    let mut all = Vec::new();
    for (k, w) in y {
        let v = x.get(k).copied().unwrap_or(0);
        if *w > v {
            all.push(format!("{k}: {v} -> {w}"));
        }
    }
    if all.is_empty() { None } else { Some(all.join("; ")) }
}

// ---------------------------------------------------------------- generators

/// module name the default patterns give a workspace-relative file name
pub fn mod_name(name: &str) -> String {
    let n = name.strip_suffix("/init.lua").or_else(|| name.strip_suffix(".lua")).unwrap_or(name);
    n.replace('/', ".")
}

const CLASSES: &[&str] = &["Ca", "Cb"];
const GLOBALS: &[&str] = &["Ga", "Gb"];

/// one content piece; `k` = file index (used in docs so that contributions of different files differ)
fn piece(rng: &mut Rng, k: usize, nfiles: usize, disjoint: bool, mods: &[String]) -> String {
    // `disjoint`: every file declares its own classes / globals (no symbol is declared in two files)
    let c_owned = if disjoint { format!("{}{k}", rng.pick(CLASSES)) } else { rng.pick(CLASSES).to_string() };
    let g_owned = if disjoint { format!("{}{k}", rng.pick(GLOBALS)) } else { rng.pick(GLOBALS).to_string() };
    let (c, g) = (c_owned.as_str(), g_owned.as_str());
    let other = rng.below(nfiles);
    let other_mod = mods.get(other).cloned().unwrap_or_else(|| format!("f{other}"));
    // split classes are declared `(partial)` in every file (the documented way); a plain duplicate
    // declaration (a `duplicate-type` diagnostic) is kept as a rare malformed case
    let pc = if rng.chance(9, 10) { format!("(partial) {c}") } else { c.to_string() };
    if rng.chance(1, 14) {
        // an annotated global defined here / a local in a file that may declare no type itself, inferred from it
        return if rng.chance(1, 2) {
            // one annotated type per global name and variant parity (no conflicting re-annotation inside a workspace)
            format!("---@type {}\nGd{other} = nil\n", if other % 2 == 0 { "integer" } else { "string" })
        } else {
            format!("local t{k} = Gd{k}\nprint(t{k})\nlocal u{k} = Gd{other}\nprint(u{k})\n")
        };
    }
    if rng.chance(1, 20) {
        return format!("local i{k} = import(\"{other_mod}\")\nprint(i{k}.value)\n");
    }
    let npieces = if rng.chance(1, 12) { 17 } else { 16 };
    match rng.below(npieces) {
        16 => format!("---@class {pc}\nlocal r{k} = require(\"{other_mod}\")\nprint(r{k}.value)\n"),
        0 => format!("--- doc of {c} from f{k}\n---@class {pc}\n---@field x{k} integer\nlocal {c} = {{}}\n"),
        1 => format!("---@class {pc}\nlocal {c} = {{}}\n--- method doc f{k}\nfunction {c}:m{k}() return {k} end\n"),
        2 => format!("---@deprecated\n---@class {pc}\n---@field d{k} string\n"),
        3 => format!("---@class {pc}: Base{k}\n---@class Base{k}\n---@field b integer\n"),
        4 => format!("{g} = {k}\n"),
        5 => format!("--- global fn doc f{k}\nfunction {g}fn() return {k} end\n"),
        6 => format!("{g} = {g} or {{}}\n{g}.field{k} = {k}\n"),
        7 => format!("local m{k} = require(\"{other_mod}\")\nlocal v{k} = m{k}.value\nprint(v{k})\n"),
        8 => format!("---@alias Al{}{} string|integer\n", rng.below(2), if disjoint { format!("_{k}") } else { String::new() }),
        9 => format!("---@enum En{}{}\nlocal En = {{ A = 1, B = {k} }}\n", rng.below(2), if disjoint { format!("_{k}") } else { String::new() }),
        10 => format!("---@class {pc}\n---@operator add({c}): {c}\n"),
        11 => format!("---@diagnostic disable-next-line: undefined-global\nprint(undefinedG{k})\nprint(undefinedH{k})\n"),
        12 => format!("---@diagnostic disable: unused\nlocal unused{k} = 1\n"),
        13 => format!("---@type {c}\nlocal c{k}\nprint(c{k}.x{other}, c{k}:m{other}())\n"),
        14 => format!("print({g}, {g}fn())\n"),
        _ => format!("---@param a Al0\n---@return En0\nlocal function lf{k}(a) return a end\nlf{k}(1)\n"),
    }
}

fn gen_text(rng: &mut Rng, k: usize, nfiles: usize, module: bool, disjoint: bool, mods: &[String]) -> String {
    let mut s = String::new();
    for _ in 0..rng.range(1, 4) {
        s.push_str(&piece(rng, k, nfiles, disjoint, mods));
        s.push('\n'); // a blank line: a trailing doc block must not attach to the next piece's statement
    }
    if module {
        s.push_str(&format!("local M = {{}}\nM.value = {k}\nreturn M\n"));
    }
    s
}

pub fn gen_files(rng: &mut Rng) -> Vec<(String, Vec<String>)> {
    gen_files_probe(rng).0
}

/// files + a probe text (a further file of the same kind; in disjoint mode with its own symbols)
pub fn gen_files_probe(rng: &mut Rng) -> (Vec<(String, Vec<String>)>, String) {
    let n = rng.range(2, 4);
    let disjoint = rng.chance(1, 2);
    // layouts: flat (`f{k}.lua`, some under `lib/`), or a parent module (`p/init.lua` or `p.lua`) next to its
    // child modules (`p/f{k}.lua`)
    let parent_layout = rng.chance(1, 3);
    let names: Vec<String> = (0..n)
        .map(|k| {
            if parent_layout {
                if k == 0 { if rng.chance(1, 2) { "p/init.lua".to_string() } else { "p.lua".to_string() } } else { format!("p/f{k}.lua") }
            } else if rng.chance(1, 5) {
                format!("lib/f{k}.lua")
            } else {
                format!("f{k}.lua")
            }
        })
        .collect();
    let mods: Vec<String> = names.iter().map(|n| mod_name(n)).collect();
    // registry layout: one file declares the global table `Gt = { … }`, the other files contribute its members
    // (`function Gt.f() end`, `Gt.x = 1`, nested `Gt.a.b = …`) or read them
    let registry_layout = rng.chance(1, 3);
    let decl_file = rng.below(n);
    let files = (0..n)
        .map(|k| {
            let module = parent_layout || rng.chance(1, 2);
            let nv = rng.range(2, 3);
            let vs: Vec<String> = (0..nv)
                .map(|v| {
                    let mut t = gen_text(rng, k, n, module && !registry_layout, disjoint, &mods);
                    if registry_layout {
                        let extra = if k == decl_file {
                            if v == 0 { format!("Gt = {{ name = \"n{k}\", a = {{}} }}\n\n") } else { format!("Gt = {{ name = \"m{k}\" }}\n\n") }
                        } else {
                            match (k + v) % 3 {
                                0 => format!("function Gt.extra{k}() end\nGt.version{k} = {k}\n\n"),
                                1 => format!("Gt.a.b{k} = {k}\nfunction Gt.a.g{k}() return {k} end\n\n"),
                                _ => format!("print(Gt.name, Gt.extra{o}, Gt.version{o}, Gt.a.b{o})\n\n", o = (k + 1) % n),
                            }
                        };
                        t = format!("{extra}{t}");
                    }
                    t
                })
                .collect();
            (names[k].clone(), vs)
        })
        .collect();
    let probe_module = rng.chance(1, 2);
    let probe = gen_text(rng, n, n, probe_module, disjoint, &mods);
    (files, probe)
}

pub fn queries(files: &[(String, Vec<String>)]) -> Vec<String> {
    let mut q: Vec<String> = (0..files.len()).map(|k| format!("f{k}")).collect();
    for (n, _) in files {
        let m = mod_name(n);
        if !q.contains(&m) {
            q.push(m);
        }
    }
    q.push("p".into());
    q.push("Gt".into());
    q.push("Gt.a".into());
    q.push("lib.f0".into());
    q.push("nope".into());
    q
}

/// a global table declared in one file (`G = {`) whose members (`G.x = …`, `function G.f(`, `G.a.b = …`) are
/// contributed by another file of the case (any variant)
pub fn foreign_members_of_global_table(c: &WsCase) -> bool {
    let mut decl: BTreeMap<String, BTreeSet<usize>> = BTreeMap::new();
    let mut contrib: BTreeMap<String, BTreeSet<usize>> = BTreeMap::new();
    for (i, (_, vs)) in c.files.iter().enumerate() {
        for v in vs {
            for line in v.lines() {
                let l = line.strip_prefix("function ").unwrap_or(line);
                let name: String = l.chars().take_while(|c| c.is_alphanumeric() || *c == '_').collect();
                if name.is_empty() || !name.starts_with('G') {
                    continue;
                }
                let rest = &l[name.len()..];
                if rest.starts_with(" = {") {
                    decl.entry(name).or_default().insert(i);
                } else if rest.starts_with('.') {
                    contrib.entry(name).or_default().insert(i);
                }
            }
        }
    }
    decl.iter().any(|(n, ds)| contrib.get(n).map(|cs| cs.iter().any(|i| !ds.contains(i))).unwrap_or(false))
}

/// a `---@class` doc block directly attached to `local x = require(...)`: the class is bound to another
/// file's table and adopts that file's members (`merge_def_type_with_table`)
pub fn class_bound_to_required_table(c: &WsCase) -> bool {
    for (_, vs) in &c.files {
        for v in vs {
            let lines: Vec<&str> = v.lines().collect();
            for w in lines.windows(2) {
                if w[0].starts_with("---@") && !w[0].starts_with("---@diagnostic") && w[1].contains("require(") && w[1].starts_with("local ") {
                    // walk back over the doc block to see whether it declares a class
                    return true;
                }
            }
        }
    }
    false
}

pub fn symbol_shared_across_files(c: &WsCase) -> bool {
    shared_symbols(c, true, true)
}
/// a class / alias / enum declared in two or more files of the case (any variant)
pub fn type_shared_across_files(c: &WsCase) -> bool {
    shared_symbols(c, true, false)
}
/// a global (`G = …`, `G.f = …`, `function G…(`) declared in two or more files of the case (any variant)
pub fn global_shared_across_files(c: &WsCase) -> bool {
    shared_symbols(c, false, true)
}

fn shared_symbols(c: &WsCase, types: bool, globals: bool) -> bool {
    let mut seen: BTreeMap<String, BTreeSet<usize>> = BTreeMap::new();
    for (i, (_, vs)) in c.files.iter().enumerate() {
        for v in vs {
            for line in v.lines() {
                for tag in ["---@class (partial) ", "---@class ", "---@alias ", "---@enum "] {
                    if let Some(rest) = line.strip_prefix(tag) {
                        if rest.starts_with('(') {
                            continue;
                        }
                        let name: String = rest.chars().take_while(|c| c.is_alphanumeric() || *c == '_').collect();
                        if types {
                            seen.entry(name).or_default().insert(i);
                        }
                    }
                }
                // globals: `G = …`, `G.f = …`, `function G…(`
                let l = line.strip_prefix("function ").unwrap_or(line);
                let name: String = l.chars().take_while(|c| c.is_alphanumeric() || *c == '_').collect();
                let rest = &l[name.len()..];
                if globals && !name.is_empty() && name.starts_with('G') && (rest.starts_with(" = ") || rest.starts_with('.') || rest.starts_with('(')) {
                    seen.entry(name).or_default().insert(i);
                }
            }
        }
    }
    seen.values().any(|s| s.len() >= 2)
}
