//! Runners of C10 / C08 / C09: oracle on the real analysis + model ties (module index through `index.mod`,
//! generic `DbIndex` maps through `index.db`).
use crate::analysis::*;
use crate::{dbtie, module, symtie};
use serde_json::{Value, json};
use std::collections::{BTreeMap, HashSet};
use vh_common::{Args, Report, Rng};

fn live_files(sim: &Sim, c: &WsCase) -> Vec<(String, String)> {
    // in file-id order = order of first submission; the Sim keeps indices, ids follow first submission
    let mut v: Vec<(u32, String, String)> = Vec::new();
    for (i, cur) in sim.current.iter().enumerate() {
        if let Some(t) = cur {
            if let Some(id) = sim.a.get_file_id(&uri_of(&c.files[i].0)) {
                v.push((id.id, c.files[i].0.clone(), t.clone()));
            }
        }
    }
    v.sort();
    v.into_iter().map(|(_, n, t)| (n, t)).collect()
}

/// is the fresh analysis of these files deterministic (C11 exclusion)?
fn fresh_deterministic_cfg(files: &[(String, String)], qs: &[String], spec: &CfgSpec) -> bool {
    let d1 = dump(&fresh_cfg(files, spec), qs);
    let d2 = dump(&fresh_cfg(files, spec), qs);
    let mut rev: Vec<(String, String)> = Vec::new();
    rev.extend(files.iter().cloned());
    d1 == d2
}

fn fresh_deterministic(files: &[(String, String)], qs: &[String], strict: bool) -> bool {
    let d1 = dump(&fresh(files, strict), qs);
    let d2 = dump(&fresh(files, strict), qs);
    // … and must not depend on the insertion history of the hash maps (C11)
    let d3 = dump(&fresh_perturbed(files, strict), qs);
    d1 == d2 && d1 == d3
}

#[derive(Clone)]
struct Fail {
    what: String,
    /// which observables differ (symptom kinds); `trace` for direct no-trace checks
    symptoms: Vec<String>,
}

#[derive(Default)]
struct Fails(Vec<Fail>);

impl Fails {
    fn push(&mut self, what: String) {
        self.0.push(Fail { what, symptoms: vec!["trace".into()] });
    }
    fn push_s(&mut self, what: String, mut symptoms: Vec<String>) {
        symptoms.sort();
        symptoms.dedup();
        self.0.push(Fail { what, symptoms });
    }
    fn is_empty(&self) -> bool {
        self.0.is_empty()
    }
}

/// all differences of two dumps as one failure with its symptom kinds
fn dump_failure(prefix: &str, before: &BTreeMap<String, Vec<String>>, after: &BTreeMap<String, Vec<String>>, fails: &mut Fails) {
    let diffs = diff_dump_all(before, after);
    if std::env::var("VH_DEBUG").is_ok() {
        for (s, a, b) in &diffs {
            eprintln!("DIFF [{}] {}\n   - {:?}\n   + {:?}", symptom_of(s, a, b), s, a, b);
        }
    }
    if let Some((sec, a, b)) = diffs.first() {
        let symptoms: Vec<String> = diffs.iter().map(|(s, a, b)| symptom_of(s, a, b)).collect();
        let mut kinds = symptoms.clone();
        kinds.sort();
        kinds.dedup();
        fails.push_s(format!("{prefix}: {} differing lines, kinds {kinds:?}; first: section {sec}: {a:?} vs {b:?}", diffs.len()), symptoms);
    }
}

/// the open findings, each keyed by an input predicate AND the symptom kinds its root cause explains
fn finding_for(c: &WsCase, symptom: &str) -> Option<&'static str> {
    // LuaPropertyIndex: whole property of a shared TypeDecl owner dropped / last writer wins
    const PROPERTY: &[&str] = &["hover-doc", "deprecated-diag"];
    // globals declared in several files: declaration / overload order, table-vs-member typing and which declaration's
    // table the `G.field` members attach to follow the analysis order
    const GLOBAL: &[&str] = &["global-type", "global-decl", "globals", "global-member-type", "global-type-in-diag", "global-own-member-list", "global-member-list"];
    // merge_def_type_with_table re-owns another file's members to the class; never undone
    const BOUND: &[&str] = &["undefined-field-diag", "type-members", "required-field-type"];
    if let Some(counts) = parse_counts(symptom) {
        return explain_counts(c, &counts);
    }
    if class_bound_to_required_table(c) && BOUND.contains(&symptom) {
        return Some("class-bound-to-required-table/member-reowning");
    }
    if type_shared_across_files(c) && PROPERTY.contains(&symptom) {
        return Some("type-in-several-files/doc-property");
    }
    if global_shared_across_files(c) && GLOBAL.contains(&symptom) {
        return Some("global-in-several-files/analysis-order");
    }
    None
}

/// grown entry counts are explained only by these exact patterns (property.* keys are split off first when a type
/// is declared in several files):
/// * class bound to a required table: only member.{in_filed.items, owner_members, owner_members.items} grow;
/// * stale table owner (members of a global table contributed by another file; the declaring file is edited or removed):
///   the stale owner holds foreign members: member.owner_members.items +m (m ≥ 1), member.owner_members +k (0 ≤ k ≤ m)
///   and optionally member.in_filed.items;
/// * global declared in several files: exactly member.owner_members +1, or exactly
///   {member.in_filed.items +1, member.member_current_owner +1, member.owner_members.items +1} (one member gains its owner).
fn explain_counts(c: &WsCase, counts: &[(String, i64)]) -> Option<&'static str> {
    let (prop, rest): (Vec<_>, Vec<_>) = counts.iter().cloned().partition(|(k, _)| k.starts_with("property."));
    if !prop.is_empty() && !type_shared_across_files(c) {
        return None;
    }
    if rest.is_empty() {
        return Some("type-in-several-files/doc-property");
    }
    let get = |k: &str| rest.iter().find(|(x, _)| x == k).map(|x| x.1);
    let only = |keys: &[&str]| rest.iter().all(|(k, _)| keys.contains(&k.as_str()));
    let member3 = ["member.in_filed.items", "member.owner_members", "member.owner_members.items"];
    if class_bound_to_required_table(c) && only(&member3) {
        return Some("class-bound-to-required-table/member-reowning");
    }
    if foreign_members_of_global_table(c) && only(&member3) {
        // a stale owner holds >= 1 foreign member; the number of owners can be net unchanged when another owner of the
        // edited file disappears in the same step
        if get("member.owner_members.items").unwrap_or(0) >= 1 && get("member.owner_members.items").unwrap_or(0) >= get("member.owner_members").unwrap_or(0) {
            return Some("foreign-members-of-global-table/stale-table-owner");
        }
    }
    if global_shared_across_files(c) {
        if rest.len() == 1 && get("member.owner_members") == Some(1) {
            return Some("global-in-several-files/analysis-order");
        }
        if rest.len() == 3 && get("member.in_filed.items") == Some(1) && get("member.member_current_owner") == Some(1) && get("member.owner_members.items") == Some(1) {
            return Some("global-in-several-files/analysis-order");
        }
    }
    None
}

/// (class, the failure to report): class null as soon as one symptom of one failure is not explained
fn classify(c: &WsCase, fails: &Fails) -> (Value, Fail) {
    for f in &fails.0 {
        for sy in &f.symptoms {
            if finding_for(c, sy).is_none() {
                let mut f2 = f.clone();
                f2.what = format!("{} [unexplained symptom: {sy}]", f.what);
                return (Value::Null, f2);
            }
        }
    }
    let f = fails.0[0].clone();
    let cl = finding_for(c, &f.symptoms[0]).unwrap_or("?");
    (json!(cl), f)
}

fn with_probe(c: &WsCase) -> WsCase {
    let mut c2 = c.clone();
    c2.files.push(("probe.lua".into(), vec![c.probe_text()]));
    c2
}

#[allow(dead_code)]
fn class_of_c10(c: &WsCase) -> Value {
    // the probe (a copy of the last variant of file 0) is one more file of the history
    let mut c2 = c.clone();
    let probe = c.probe_text();
    c2.files.push(("probe.lua".into(), vec![probe]));
    class_of(&c2)
}

#[allow(dead_code)]
fn class_of(c: &WsCase) -> Value {
    if class_bound_to_required_table(c) {
        json!("class-bound-to-required-table")
    } else if symbol_shared_across_files(c) {
        json!("symbol-declared-in-several-files")
    } else {
        Value::Null
    }
}

/// a random way of bringing all `n` files in: an initial batch (possibly empty) and then separate updates / batches,
/// in a random order (every add order of member files vs declaring files occurs)
fn staged_adds(rng: &mut Rng, n: usize) -> (Vec<usize>, Vec<AOp>) {
    let mut order: Vec<usize> = (0..n).collect();
    for i in (1..n).rev() {
        order.swap(i, rng.below(i + 1));
    }
    let k = rng.below(n + 1);
    let initial: Vec<usize> = order[..k].to_vec();
    let mut ops = Vec::new();
    let mut rest: Vec<usize> = order[k..].to_vec();
    while !rest.is_empty() {
        if rest.len() >= 2 && rng.chance(1, 3) {
            ops.push(AOp::Batch(vec![rest[0], rest[1]]));
            rest.drain(..2);
        } else {
            ops.push(AOp::Update(rest[0], 0));
            rest.remove(0);
        }
    }
    (initial, ops)
}

// ---------------------------------------------------------------- C10

fn gen_c10(rng: &mut Rng) -> WsCase {
    let (files, probe) = gen_files_probe(rng);
    let n = files.len();
    let (initial, mut setup) = if rng.chance(1, 2) { staged_adds(rng, n) } else { ((0..n).collect(), Vec::new()) };
    let mut order: Vec<usize> = (0..n).collect();
    for i in (1..n).rev() {
        order.swap(i, rng.below(i + 1));
    }
    let k = rng.range(1, n);
    let mut ops = Vec::new();
    ops.append(&mut setup);
    for &i in order.iter().take(k) {
        if rng.chance(1, 4) {
            ops.push(AOp::Update(i, 1));
        }
        ops.push(if rng.chance(1, 4) { AOp::Close(i) } else { AOp::Remove(i) });
    }
    WsCase { files, initial, ops, probe: Some(probe), strict: rng.chance(1, 3), configs: vec![] }
}

/// returns the failures of one C10 case
fn oracle_c10(c: &WsCase, report: &mut Report) -> Fails {
    let mut fails = Fails::default();
    let qs = queries(&c.files);
    let mut sim = Sim::new(c.files.len(), c.strict);
    sim.initial(c);
    // probe: a file that was never there, added and removed again, must leave no trace at all
    let base_dump = dump(&sim.a, &qs);
    let base_sizes = sizes(&sim.a);
    {
        let probe_name = "probe.lua";
        let text = c.probe_text();
        let dbg = std::env::var("VH_DEBUG").is_ok();
        let before = if dbg { format!("{:#?}", sim.a.compilation.get_db().get_member_index()) } else { String::new() };
        sim.a.update_file_by_uri(&uri_of(probe_name), Some(text));
        sim.a.remove_file_by_uri(&uri_of(probe_name));
        if dbg {
            let after = format!("{:#?}", sim.a.compilation.get_db().get_member_index());
            let b: std::collections::HashSet<&str> = before.lines().collect();
            let al: Vec<&str> = after.lines().collect();
            for (i, l) in al.iter().enumerate() {
                if !b.contains(l) {
                    eprintln!("MEMBER+ @{i}\n{}", al[i.saturating_sub(14)..(i + 14).min(al.len())].join("\n"));
                }
            }
        }
        let d = dump(&sim.a, &qs);
        let s = sizes(&sim.a);
        report.count("c10_probe_add_remove");
        if let Some(x) = grown_sizes(&base_sizes, &s) {
            fails.push_s(format!("after adding and removing probe.lua the index holds more state than before: {x}"), count_symptoms(&x));
        }
        if diff_sizes(&base_sizes, &s, &[]).is_some() {
            report.count("c10_probe_sizes_differ");
        }
        dump_failure("after adding and removing probe.lua the results of the other files changed", &base_dump, &d, &mut fails);
    }
    let mut removed: Vec<String> = Vec::new();
    for op in &c.ops {
        sim.apply(c, op);
        if let AOp::Update(i, _) | AOp::Resubmit(i) = op {
            // the file is (again) part of the workspace
            if sim.current[*i].is_some() {
                removed.retain(|r| r != &c.files[*i].0);
            }
        }
        if let AOp::Batch(v) = op {
            for i in v {
                removed.retain(|r| r != &c.files[*i].0);
            }
        }
        if let AOp::Remove(i) | AOp::Close(i) = op {
            removed.push(c.files[*i].0.clone());
            report.count(if matches!(op, AOp::Remove(_)) { "c10_remove" } else { "c10_close" });
            let d = dump(&sim.a, &qs);
            for (sec, lines) in &d {
                for l in lines {
                    if l.contains("<no-uri:") {
                        fails.push(format!("after removing {}: a result refers to a file that no longer exists: [{sec}] {l}", c.files[*i].0));
                    }
                    for r in &removed {
                        if l.contains(r.as_str()) {
                            fails.push(format!("after removing {r}: a result still refers to it: [{sec}] {l}"));
                        }
                    }
                }
            }
            // the surviving files stay requirable under their own module names (an exact match always wins)
            for (j, cur) in sim.current.iter().enumerate() {
                if cur.is_none() {
                    continue;
                }
                let m = mod_name(&c.files[j].0);
                let line = d.get("require").and_then(|v| v.iter().find(|l| l.starts_with(&format!("{m} -> "))).cloned());
                if let Some(l) = line {
                    let target = l.rsplit(" -> ").next().unwrap_or("");
                    if mod_name(target) != m {
                        fails.push(format!("after removing {}: require(\"{m}\") no longer resolves to the live file {}: {l}", c.files[*i].0, c.files[j].0));
                    }
                }
            }
            // per-file maps must not keep an entry for the removed file: compare with the number of live files
            let s = sizes(&sim.a);
            let live = sim.current.iter().filter(|x| x.is_some()).count();
            for k in ["declaration.decl_trees", "flow.file_flow_tree", "vfs.tree_map", "vfs.line_index_map", "vfs.file_data.live", "module.file_module_map"] {
                if s.get(k).copied().unwrap_or(0) != live {
                    fails.push(format!("after removing {}: {k} has {} entries for {live} live files", c.files[*i].0, s.get(k).copied().unwrap_or(0)));
                }
            }
            for k in ["reference.file_references", "reference.string_references", "reference.type_references", "reference.label_references",
                      "diagnostic.diagnostic_actions", "diagnostic.diagnostics", "dependency.dependencies", "signature.in_file_signatures",
                      "member.in_filed", "property.in_filed_owner", "type.file_types", "type.in_filed_type_owner", "operator.in_filed_operator_map"] {
                if s.get(k).copied().unwrap_or(0) > live {
                    fails.push(format!("after removing {}: {k} has {} entries for {live} live files", c.files[*i].0, s.get(k).copied().unwrap_or(0)));
                }
            }
        }
    }
    // everything removed → empty index
    if sim.current.iter().all(|x| x.is_none()) {
        report.count("c10_all_removed");
        let s = sizes(&sim.a);
        for (k, v) in &s {
            if *v != 0 && !["module.module_nodes", "vfs.file_id_map", "vfs.file_path_map"].contains(&k.as_str()) {
                fails.push(format!("all files removed but {k} = {v}"));
            }
        }
        if s.get("module.module_nodes").copied().unwrap_or(0) != 1 {
            fails.push(format!("all files removed but module.module_nodes = {:?} (root only expected)", s.get("module.module_nodes")));
        }
    }
    fails
}

// ---------------------------------------------------------------- C08

fn gen_c08(rng: &mut Rng) -> WsCase {
    let files = gen_files(rng);
    let n = files.len();
    // either one full batch (optionally reindexed), or staged adds in any order followed by a reindex:
    // both are "a consistent analysis (right after a full analysis or reindex)"
    let (initial, mut ops) = if rng.chance(1, 3) {
        let (i, mut o) = staged_adds(rng, n);
        o.push(AOp::Reindex);
        (i, o)
    } else {
        ((0..n).collect(), Vec::new())
    };
    if ops.is_empty() && rng.chance(1, 3) {
        ops.push(AOp::Reindex);
    }
    for _ in 0..rng.range(1, 6) {
        let i = rng.below(n);
        if rng.chance(1, 2) {
            ops.push(AOp::Resubmit(i));
        } else {
            ops.push(AOp::Update(i, 1 + rng.below(files[i].1.len() - 1)));
            ops.push(AOp::Update(i, 0));
        }
    }
    WsCase { files, initial, ops, probe: None, strict: rng.chance(1, 3), configs: vec![] }
}

fn oracle_c08(c: &WsCase, report: &mut Report) -> Fails {
    let mut fails = Fails::default();
    let qs = queries(&c.files);
    let mut sim = Sim::new(c.files.len(), c.strict);
    sim.initial(c);
    // setup prefix: staged adds (files not yet present) and a reindex
    let mut k = 0;
    while k < c.ops.len() {
        let is_setup = match &c.ops[k] {
            AOp::Batch(_) | AOp::Reindex => true,
            AOp::Update(i, 0) => sim.current[*i].is_none(),
            _ => false,
        };
        if !is_setup {
            break;
        }
        let op = c.ops[k].clone();
        sim.apply(c, &op);
        k += 1;
    }
    let base_dump = dump(&sim.a, &qs);
    let base_sizes = sizes(&sim.a);
    let dbg = std::env::var("VH_DEBUG").is_ok();
    let base_members = if dbg { format!("{:#?}", sim.a.compilation.get_db().get_member_index()) } else { String::new() };
    let mut pending_edit = false;
    for (j, op) in c.ops.iter().enumerate().skip(k) {
        sim.apply(c, op);
        match op {
            AOp::Update(_, v) if *v != 0 => {
                pending_edit = true;
                report.count("c08_edit");
                continue;
            }
            AOp::Update(_, _) => {
                pending_edit = false;
                report.count("c08_restore");
            }
            AOp::Resubmit(_) => report.count("c08_resubmit"),
            _ => {}
        }
        if pending_edit {
            continue;
        }
        let what = match op {
            AOp::Resubmit(i) => format!("re-submitting {} unchanged", c.files[*i].0),
            AOp::Update(i, _) => format!("editing {} and restoring its content", c.files[*i].0),
            _ => "op".into(),
        };
        let now = sizes(&sim.a);
        if dbg {
            let after = format!("{:#?}", sim.a.compilation.get_db().get_member_index());
            let b: HashSet<&str> = base_members.lines().collect();
            let al: Vec<&str> = after.lines().collect();
            eprintln!("---- step {j} sizes {:?}", diff_sizes(&base_sizes, &now, &[]));
            for (i, l) in al.iter().enumerate() {
                if !b.contains(l) {
                    eprintln!("MEMBER+ @{i}\n{}", al[i.saturating_sub(10)..(i + 10).min(al.len())].join("\n"));
                }
            }
        }
        if let Some(x) = grown_sizes(&base_sizes, &now) {
            fails.push_s(format!("step {j}: after {what} the amount of indexed state grew: {x}"), count_symptoms(&x));
        }
        if diff_sizes(&base_sizes, &now, &[]).is_some() {
            report.count("c08_sizes_differ");
        }
        dump_failure(&format!("step {j}: after {what} an observable result changed"), &base_dump, &dump(&sim.a, &qs), &mut fails);
        if !fails.is_empty() && std::env::var("VH_NOBREAK").is_err() {
            break;
        }
    }
    fails
}

// ---------------------------------------------------------------- C09

fn gen_c09(rng: &mut Rng) -> WsCase {
    let files = gen_files(rng);
    let n = files.len();
    let initial: Vec<usize> = (0..n).filter(|_| rng.chance(3, 4)).collect();
    let mut ops = Vec::new();
    for _ in 0..rng.range(1, 7) {
        let i = rng.below(n);
        ops.push(match rng.below(8) {
            0 | 1 | 2 => AOp::Update(i, rng.below(files[i].1.len())),
            3 => AOp::Resubmit(i),
            4 | 5 => AOp::Remove(i),
            6 => AOp::Close(i),
            _ => if rng.chance(1, 2) { AOp::Reindex } else { AOp::Batch(vec![i, (i + 1) % n]) },
        });
    }
    ops.push(AOp::Reindex);
    let strict = rng.chance(1, 3);
    let mut configs = Vec::new();
    if rng.chance(1, 2) {
        // config reloads: configs[0] = the starting configuration, then 2 variants; `Config(k)` steps are inserted at
        // random places (half of them directly followed by a reindex; the history always ends with one)
        configs.push(CfgSpec::base(strict));
        for _ in 0..2 {
            let mut s = CfgSpec::base(if rng.chance(1, 3) { !strict } else { strict });
            for _ in 0..rng.range(1, 2) {
                match rng.below(7) {
                    0 => s.module_map = vec![("^f(.*)$".into(), "mapped.f$1".into())],
                    1 => s.module_map = vec![("^lib\\.(.*)$".into(), "$1".into())],
                    2 => s.module_map = vec![("^p\\.(.*)$".into(), "q.$1".into()), ("^f0$".into(), "zero".into())],
                    3 => { s.extensions = vec![".luau".into()]; s.require_pattern = vec!["?/main.lua".into()]; }
                    4 => s.require_like = vec!["import".into()],
                    5 => s.root = format!("{ROOT}/lib"),
                    _ => s.libraries = vec![format!("{ROOT}/lib")],
                }
            }
            configs.push(s);
        }
        for _ in 0..rng.range(1, 3) {
            let at = rng.below(ops.len());
            let k = rng.below(configs.len());
            if rng.chance(1, 2) {
                ops.insert(at, AOp::Reindex);
            }
            ops.insert(at, AOp::Config(k));
        }
    }
    WsCase { files, initial, ops, probe: None, strict, configs }
}

fn oracle_c09(c: &WsCase, report: &mut Report) -> Fails {
    let mut fails = Fails::default();
    let qs = queries(&c.files);
    let mut sim = Sim::new(c.files.len(), c.strict);
    sim.initial(c);
    for op in &c.ops {
        sim.apply(c, op);
        report.count(match op {
            AOp::Update(..) => "c09_update",
            AOp::Resubmit(_) => "c09_resubmit",
            AOp::Remove(_) => "c09_remove",
            AOp::Close(_) => "c09_close",
            AOp::Reindex => "c09_reindex",
            AOp::Batch(_) => "c09_batch",
            AOp::Config(_) => "c09_config",
        });
    }
    let files = live_files(&sim, c);
    // C11 exclusion: the fresh analysis this history is compared with must itself be deterministic
    let configured = !c.configs.is_empty();
    let det = if configured { fresh_deterministic_cfg(&files, &qs, &sim.cfg) } else { fresh_deterministic(&files, &qs, c.strict) };
    if !det {
        report.count("excluded_nondeterministic_fresh_analysis_of_final_files");
        return fails;
    }
    // the fresh analysis runs under the configuration in force at the end of the history
    let f = if configured { fresh_cfg(&files, &sim.cfg) } else { fresh(&files, c.strict) };
    // the path <-> id maps of the Vfs keep closed files (ids are never reused); not indexed state
    let ignore = ["vfs.file_id_map", "vfs.file_path_map"];
    if let Some(x) = diff_sizes(&sizes(&f), &sizes(&sim.a), &ignore) {
        fails.push_s(format!("after reindex the index holds different amounts of state than a fresh analysis of the same files: {x} (fresh vs reindexed)"), vec!["counts:reindex+0".into()]);
    }
    dump_failure("after reindex an observable result differs from a fresh analysis of the same files (fresh vs reindexed)", &dump(&f, &qs), &dump(&sim.a, &qs), &mut fails);
    fails
}

// ---------------------------------------------------------------- run

fn corpus(prop: &str) -> Vec<WsCase> {
    let f = |name: &str, vs: &[&str]| (name.to_string(), vs.iter().map(|s| s.to_string()).collect::<Vec<_>>());
    let split = vec![
        f("f0.lua", &["--- doc of Ca from f0\n---@class Ca\n---@field x0 integer\nlocal Ca = {}\nlocal M = {}\nM.value = 0\nreturn M\n", "---@class Ca\n"]),
        f("f1.lua", &["---@deprecated\n---@class Ca\n---@field d1 string\nGa = 1\nlocal m1 = require(\"f0\")\nprint(m1.value)\n", "Ga = 2\n"]),
        f("f2.lua", &["---@type Ca\nlocal c2\nprint(c2.x0, Ga)\n", "print(Ga)\n"]),
    ];
    let plain = vec![
        f("f0.lua", &["Ga = 1\nlocal M = {}\nM.value = 0\nreturn M\n", "Gb = 1\n"]),
        f("lib/f1.lua", &["local m = require(\"f0\")\nprint(m.value, Ga)\n---@class Cb\n---@field y integer\n", "print(1)\n"]),
    ];
    let parent = vec![
        f("p/init.lua", &["local M = {}\nM.value = 0\nreturn M\n", "local M = {}\nM.value = 9\nreturn M\n"]),
        f("p/f1.lua", &["local M = {}\nM.value = 1\nreturn M\n", "local M = {}\nM.value = 8\nreturn M\n"]),
        f("main.lua", &["local c = require(\"p.f1\")\nlocal d = require(\"p\")\nprint(c.value, d.value)\n", "print(1)\n"]),
    ];
    // regression (seeded `LuaTypeIndex::remove` change): a class split over two files, the super type on one side
    let sup = vec![
        f("f0.lua", &["---@class (partial) Foo\n---@field a integer\n", "---@class (partial) Foo\n---@field a2 integer\n"]),
        f("f1.lua", &["---@class (partial) Foo: Base\n---@field b integer\n\n---@class Base\n---@field z integer\n\n---@class Other\n---@field o integer\n",
                       "---@class (partial) Foo: Other\n---@field b integer\n\n---@class Base\n---@field z integer\n\n---@class Other\n---@field o integer\n"]),
        f("f2.lua", &["---@type Foo\nlocal x\nprint(x.a, x.b, x.z)\n", "print(1)\n"]),
    ];
    let sc = |ops: Vec<AOp>| WsCase { files: sup.clone(), initial: vec![0, 1, 2], ops, probe: Some("---@class (partial) Foo: Base\n---@field p integer\n".into()), strict: false, configs: vec![] };
    let pc = |ops: Vec<AOp>, strict: bool| WsCase { files: parent.clone(), initial: vec![0, 1, 2], ops, probe: None, strict, configs: vec![] };
    let mut extra = match prop {
        "C10" => vec![pc(vec![AOp::Update(0, 1), AOp::Remove(0)], true), pc(vec![AOp::Remove(0), AOp::Remove(2)], false)],
        "C08" => vec![pc(vec![AOp::Update(0, 1), AOp::Update(0, 0), AOp::Resubmit(0), AOp::Resubmit(1)], true), pc(vec![AOp::Resubmit(0), AOp::Update(1, 1), AOp::Update(1, 0)], false)],
        _ => vec![pc(vec![AOp::Update(0, 1), AOp::Remove(0), AOp::Reindex], true), pc(vec![AOp::Close(0), AOp::Update(1, 1), AOp::Reindex], false)],
    };
    let mut base = match prop {
        "C10" => vec![
            WsCase { files: plain.clone(), initial: vec![0, 1], ops: vec![AOp::Remove(0), AOp::Remove(1)], probe: None, strict: false, configs: vec![] },
            WsCase { files: split.clone(), initial: vec![0, 1, 2], ops: vec![AOp::Remove(1), AOp::Close(0)], probe: None, strict: false, configs: vec![] },
        ],
        "C08" => vec![
            WsCase { files: plain.clone(), initial: vec![0, 1], ops: vec![AOp::Resubmit(0), AOp::Resubmit(1), AOp::Update(0, 1), AOp::Update(0, 0)], probe: None, strict: false, configs: vec![] },
            WsCase { files: split.clone(), initial: vec![0, 1, 2], ops: vec![AOp::Resubmit(1), AOp::Resubmit(2)], probe: None, strict: false, configs: vec![] },
        ],
        _ => vec![
            WsCase { files: plain.clone(), initial: vec![0, 1], ops: vec![AOp::Update(0, 1), AOp::Remove(1), AOp::Reindex], probe: None, strict: false, configs: vec![] },
            WsCase { files: split.clone(), initial: vec![0, 1, 2], ops: vec![AOp::Update(1, 1), AOp::Update(1, 0), AOp::Close(2), AOp::Reindex], probe: None, strict: false, configs: vec![] },
        ],
    };
    // regression (seeded `migrate_global_member` change): members of a global table contributed by another file that
    // is added BEFORE / AFTER / in the same batch as the declaring file; then either side is removed
    let reg = shapes().pop().map(|x| x.0).unwrap_or_default();
    let rc = |ops: Vec<AOp>| WsCase { files: reg.clone(), initial: vec![], ops, probe: Some("function Gt.probe() end\nGt.version = 9\n".into()), strict: false, configs: vec![] };
    base.extend(match prop {
        "C10" => vec![
            rc(vec![AOp::Update(0, 0), AOp::Update(1, 0), AOp::Update(2, 0), AOp::Remove(0), AOp::Remove(1)]),
            rc(vec![AOp::Update(1, 0), AOp::Update(0, 0), AOp::Update(2, 0), AOp::Remove(0), AOp::Remove(1)]),
            rc(vec![AOp::Batch(vec![0, 1]), AOp::Update(2, 0), AOp::Remove(1), AOp::Remove(0)]),
            rc(vec![AOp::Update(0, 0), AOp::Update(2, 0), AOp::Update(1, 0), AOp::Close(0), AOp::Remove(2), AOp::Remove(1)]),
        ],
        "C08" => vec![
            rc(vec![AOp::Update(0, 0), AOp::Update(1, 0), AOp::Update(2, 0), AOp::Reindex, AOp::Resubmit(0), AOp::Resubmit(1), AOp::Update(0, 1), AOp::Update(0, 0)]),
            rc(vec![AOp::Update(1, 0), AOp::Batch(vec![0, 2]), AOp::Reindex, AOp::Resubmit(1), AOp::Update(1, 1), AOp::Update(1, 0), AOp::Resubmit(0)]),
        ],
        _ => vec![
            rc(vec![AOp::Update(0, 0), AOp::Update(1, 0), AOp::Update(2, 0), AOp::Remove(0), AOp::Reindex]),
            rc(vec![AOp::Update(0, 0), AOp::Update(1, 0), AOp::Update(2, 0), AOp::Remove(1), AOp::Reindex]),
            rc(vec![AOp::Update(1, 0), AOp::Update(0, 0), AOp::Update(0, 1), AOp::Reindex]),
        ],
    });
    if prop == "C09" {
        // config reload that drops workspace.moduleMap, then reindex (seeded `set_module_replace_patterns` fast path)
        let cfgfiles = vec![
            f("lib/util.lua", &["local M = {}\nM.value = 1\nreturn M\n"]),
            f("main.lua", &["local a = require(\"script.util\")\nlocal b = require(\"lib.util\")\nprint(a.value, b.value)\n"]),
        ];
        let mut with_map = CfgSpec::base(false);
        with_map.module_map = vec![("^lib\\.(.*)$".into(), "script.$1".into())];
        let mut other_map = CfgSpec::base(true);
        other_map.module_map = vec![("^lib\\.(.*)$".into(), "x.$1".into())];
        for ops in [
            vec![AOp::Config(1), AOp::Reindex, AOp::Config(0), AOp::Reindex],
            vec![AOp::Config(1), AOp::Reindex, AOp::Config(0), AOp::Reindex, AOp::Config(2), AOp::Reindex],
            vec![AOp::Config(1), AOp::Update(0, 0), AOp::Config(2), AOp::Config(0), AOp::Reindex],
        ] {
            base.push(WsCase { files: cfgfiles.clone(), initial: vec![0, 1], ops, probe: None, strict: false, configs: vec![CfgSpec::base(false), with_map.clone(), other_map.clone()] });
        }
        // a file without type declarations caches a type inferred from another file's annotation; that file changes; reindex
        let tyfiles = vec![
            f("user.lua", &["local v = Gd\nprint(v)\nlocal w = Gd\n"]),
            f("defs.lua", &["---@type integer\nGd = 1\n", "---@type string\nGd = \"s\"\n"]),
        ];
        base.push(WsCase { files: tyfiles.clone(), initial: vec![0, 1], ops: vec![AOp::Update(1, 1), AOp::Reindex], probe: None, strict: false, configs: vec![] });
        base.push(WsCase { files: tyfiles.clone(), initial: vec![1, 0], ops: vec![AOp::Update(1, 1), AOp::Update(0, 0), AOp::Update(1, 0), AOp::Update(1, 1), AOp::Reindex], probe: None, strict: false, configs: vec![] });
    }
    base.append(&mut extra);
    base.extend(match prop {
        "C10" => vec![sc(vec![AOp::Remove(1)]), sc(vec![AOp::Update(1, 1), AOp::Remove(0)]), sc(vec![AOp::Close(0), AOp::Remove(2)])],
        "C08" => vec![sc(vec![AOp::Resubmit(1), AOp::Resubmit(1), AOp::Update(1, 1), AOp::Update(1, 0), AOp::Resubmit(0)]), sc(vec![AOp::Reindex, AOp::Update(1, 1), AOp::Update(1, 0), AOp::Resubmit(1)])],
        _ => vec![sc(vec![AOp::Resubmit(1), AOp::Update(1, 1), AOp::Update(1, 0), AOp::Reindex]), sc(vec![AOp::Update(1, 1), AOp::Remove(0), AOp::Reindex])],
    });
    base
}

/// the 4 fixed workspace shapes (3 files, 2 variants each) of the exhaustive scope
fn shapes() -> Vec<(Vec<(String, Vec<String>)>, bool, bool)> {
    let f = |name: &str, vs: &[&str]| (name.to_string(), vs.iter().map(|s| s.to_string()).collect::<Vec<_>>());
    vec![
        // S1: a class split over two files with docs, used by a third (shared symbol: open finding applies)
        (vec![
            f("f0.lua", &["--- doc of Ca from f0\n---@class (partial) Ca\n---@field x0 integer\nlocal Ca = {}\n\nlocal M = {}\nM.value = 0\nreturn M\n", "---@class (partial) Ca\n---@field y0 string\n\nlocal M = {}\nM.value = 0\nreturn M\n"]),
            f("f1.lua", &["---@class (partial) Ca\nlocal Ca = {}\n--- method doc f1\nfunction Ca:m1() return 1 end\n", "print(1)\n"]),
            f("f2.lua", &["---@type Ca\nlocal c2\nprint(c2.x0, c2:m1())\nlocal m = require(\"f0\")\nprint(m.value)\n", "print(2)\n"]),
        ], false, false),
        // S2: disjoint symbols, cross-file requires
        (vec![
            f("f0.lua", &["--- doc of Ca0\n---@class Ca0\n---@field x0 integer\nlocal Ca0 = {}\n\nGa0 = 0\n\nlocal M = {}\nM.value = 0\nreturn M\n", "---@alias Al0 string|integer\n\nlocal M = {}\nM.value = 5\nreturn M\n"]),
            f("lib/f1.lua", &["---@enum En1\nlocal En = { A = 1, B = 2 }\n\n--- global fn doc f1\nfunction Gb1fn() return 1 end\n\nlocal M = {}\nM.value = 1\nreturn M\n", "local M = {}\nM.value = 6\nreturn M\n"]),
            f("f2.lua", &["local a = require(\"f0\")\nlocal b = require(\"lib.f1\")\nprint(a.value, b.value, Ga0, Gb1fn())\n---@type Ca0\nlocal c\nprint(c.x0)\n", "---@diagnostic disable-next-line: undefined-global\nprint(nope)\n"]),
        ], false, false),
        // S3: parent module next to a child module, strict require paths
        (vec![
            f("p/init.lua", &["local M = {}\nM.value = 0\nreturn M\n", "local M = {}\nM.value = 9\nreturn M\n"]),
            f("p/f1.lua", &["local M = {}\nM.value = 1\nreturn M\n", "local M = {}\nM.value = 8\nreturn M\n"]),
            f("main.lua", &["local c = require(\"p.f1\")\nlocal d = require(\"p\")\nprint(c.value, d.value)\n", "local c = require(\"p.f1\")\nprint(c.value)\n"]),
        ], true, false),
        // S4: globals, function docs, diagnostics annotations, operators
        (vec![
            f("f0.lua", &["--- global fn doc f0\nfunction Ga0fn() return 0 end\n\nGa0 = Ga0 or {}\nGa0.field0 = 0\n", "Ga0 = 1\n"]),
            f("f1.lua", &["---@class V1\n---@operator add(V1): V1\n\n---@diagnostic disable: unused\nlocal unused1 = 1\nprint(Ga0, Ga0fn())\n", "---@param a integer\n---@return integer\nlocal function lf1(a) return a end\nlf1(1)\n"]),
            f("f2.lua", &["---@type V1\nlocal v\nlocal w = v + v\nprint(w, Ga0.field0)\n", "print(Ga0)\n"]),
        ], false, false),
        // S5 (staged: files are added one by one in every order): a global table declared in one file, its members
        // (function, field, nested) contributed by another, read by a third
        (vec![
            f("ext.lua", &["function Gt.extra() end\nGt.version = 2\nGt.a.b = 1\n", "Gt.version = 3\n"]),
            f("registry.lua", &["Gt = { name = \"r\", a = {} }\n", "Gt = { name = \"s\" }\n"]),
            f("use.lua", &["print(Gt.extra, Gt.version, Gt.name, Gt.a.b)\nGt.extra()\n", "print(2)\n"]),
        ], false, true),
    ]
}

fn sequences<T: Clone>(alphabet: &[T], max_len: usize) -> Vec<Vec<T>> {
    let mut out = Vec::new();
    let mut frontier: Vec<Vec<T>> = vec![vec![]];
    for _ in 0..max_len {
        let mut next = Vec::new();
        for h in &frontier {
            for o in alphabet {
                let mut h2 = h.clone();
                h2.push(o.clone());
                next.push(h2);
            }
        }
        out.extend(next.iter().cloned());
        frontier = next;
    }
    out
}

/// exhaustive histories over the 4 shapes: C10 ≤ 3 steps over {remove, close, edit} × 3 files; C08 ≤ 4 units over
/// {re-submit, edit+restore} × 3 files; C09 ≤ 3 steps over {edit, restore, remove, close} × 3 files + reindex
fn exhaustive_ws(prop: &str) -> Vec<WsCase> {
    let mut out = Vec::new();
    for (files, strict, staged) in shapes() {
        let seqs: Vec<Vec<AOp>> = match prop {
            "C10" => {
                let mut al = Vec::new();
                for i in 0..3 {
                    al.push(vec![AOp::Remove(i)]);
                    al.push(vec![AOp::Close(i)]);
                    al.push(vec![if staged { AOp::Update(i, 0) } else { AOp::Update(i, 1) }]);
                }
                sequences(&al, if staged { 4 } else { 3 }).into_iter().map(|s| s.concat()).filter(|s| s.iter().any(|o| matches!(o, AOp::Remove(_) | AOp::Close(_)))).collect()
            }
            "C08" => {
                let mut al = Vec::new();
                for i in 0..3 {
                    al.push(vec![AOp::Resubmit(i)]);
                    al.push(vec![AOp::Update(i, 1), AOp::Update(i, 0)]);
                }
                if staged {
                    // every add order (single updates, or the first two in one batch), then a reindex, then <= 3 units
                    let mut setups: Vec<Vec<AOp>> = Vec::new();
                    for p in [[0, 1, 2], [0, 2, 1], [1, 0, 2], [1, 2, 0], [2, 0, 1], [2, 1, 0]] {
                        setups.push(vec![AOp::Update(p[0], 0), AOp::Update(p[1], 0), AOp::Update(p[2], 0), AOp::Reindex]);
                        setups.push(vec![AOp::Batch(vec![p[0], p[1]]), AOp::Update(p[2], 0), AOp::Reindex]);
                    }
                    let units = sequences(&al, 3);
                    let mut v = Vec::new();
                    for su in &setups {
                        for u in &units {
                            let mut ops = su.clone();
                            ops.extend(u.concat());
                            v.push(ops);
                        }
                    }
                    v
                } else {
                    sequences(&al, 4).into_iter().map(|s| s.concat()).collect()
                }
            }
            _ => {
                let mut al = Vec::new();
                for i in 0..3 {
                    al.push(vec![AOp::Update(i, 1)]);
                    al.push(vec![AOp::Update(i, 0)]);
                    al.push(vec![AOp::Remove(i)]);
                    al.push(vec![AOp::Close(i)]);
                }
                al.push(vec![AOp::Reindex]);
                if staged {
                    al.push(vec![AOp::Batch(vec![0, 1])]);
                    al.push(vec![AOp::Batch(vec![1, 2])]);
                }
                sequences(&al, 3).into_iter().map(|s| { let mut v = s.concat(); v.push(AOp::Reindex); v }).collect()
            }
        };
        for ops in seqs {
            out.push(WsCase { files: files.clone(), initial: if staged { vec![] } else { vec![0, 1, 2] }, ops, probe: None, strict, configs: vec![] });
        }
    }
    out
}

pub fn run(args: &Args, report: &mut Report) {
    let prop = args.prop.clone();
    let mut rng = Rng::new(args.seed);
    let mut cases = corpus(&prop);
    let (n_cases, n_mod, n_db) = if args.thorough() { (3000, 4000, 20000) } else { (150, 300, 1500) };
    if let Some(p) = &args.replay {
        let v: Value = serde_json::from_str(&std::fs::read_to_string(p).expect("replay file")).expect("json");
        if let Some(c) = WsCase::from_json(&v["input"]) {
            cases = vec![c];
        } else {
            // a replay of a model-tie input
            cases.clear();
            dbtie::replay(&v["input"], report);
            symtie::replay(&v["input"], report);
            module::replay_into(&v["input"], report);
            return;
        }
    } else {
        if args.thorough() {
            let ex = exhaustive_ws(&prop);
            report.extra.insert("exhaustive_scope".into(), json!(format!("{} histories: every history over 4 fixed 3-file workspace shapes (split documented class; disjoint symbols with requires; parent + child module, strict; globals/diagnostics/operators) with C10 <= 3 steps of remove/close/edit, C08 <= 4 units of re-submit / edit+restore, C09 <= 3 steps of edit/restore/remove/close/reindex then reindex; plus all DbIndex histories <= 5 steps over submit/remove x 3 files + reindex x 4 contribution shapes", ex.len())));
            cases.extend(ex);
        }
        for _ in 0..n_cases {
            cases.push(match prop.as_str() {
                "C10" => gen_c10(&mut rng),
                "C08" => gen_c08(&mut rng),
                _ => gen_c09(&mut rng),
            });
        }
    }
    report.rule = format!("{prop}: (oracle) generated workspaces of 2-4 files over shared classes (split across files, with docs, deprecated tags, supers, operators), globals, requires between the files, aliases, enums, diagnostic annotations; histories: {}; a history is non-trivial when some type/global is contributed by several files (shared owners) or a require crosses files, and the history exercises the op under test at least once; distinct by content. (tie) model-vs-implementation histories on LuaModuleIndex and on the DbIndex maps driven through their public add/remove/clear methods",
        match prop.as_str() { "C10" => "remove / close a subset in any order (+ add-then-remove probe)", "C08" => "re-submit unchanged / edit-restore, from a full analysis or a reindex", _ => "update / re-submit / remove / close / reindex, then reindex vs fresh" });

    let mut seen = HashSet::new();
    let mut excluded = 0u64;
    // unclassified failures are reported first (the report keeps only the first 50 failures)
    let mut classified: Vec<Value> = Vec::new();
    for c in &cases {
        report.evaluations += 1;
        // C11 exclusion: the fresh analysis of the initial files must itself be deterministic
        let init: Vec<(String, String)> = c.initial.iter().map(|&i| (c.files[i].0.clone(), c.files[i].1[0].clone())).collect();
        let c2 = c.clone();
        let det = vh_common::catch(move || fresh_deterministic(&init, &queries(&c2.files), c2.strict)).unwrap_or(true);
        if !det {
            excluded += 1;
            continue;
        }
        let c3 = c.clone();
        let p2 = prop.clone();
        let mut sub = Report::default();
        let r = std::panic::catch_unwind(std::panic::AssertUnwindSafe(|| match p2.as_str() {
            "C10" => oracle_c10(&c3, &mut sub),
            "C08" => oracle_c08(&c3, &mut sub),
            _ => oracle_c09(&c3, &mut sub),
        }));
        for (k, v) in &sub.distribution {
            report.add(k, *v);
        }
        let fails = match r {
            Ok(f) => f,
            Err(_) => {
                let mut f = Fails::default();
                f.push_s("panic in the analysis".to_string(), vec!["panic".into()]);
                f
            }
        };
        let shared = symbol_shared_across_files(c);
        if shared {
            report.count("cases_with_type_in_several_files");
        }
        let has_require = c.files.iter().any(|f| f.1[0].contains("require("));
        if (shared || has_require) && seen.insert(format!("{:?}", c.to_json())) {
            report.distinct_nontrivial += 1;
        }
        if !fails.is_empty() {
            let cc = if prop == "C10" { with_probe(c) } else { c.clone() };
            let (class, f) = classify(&cc, &fails);
            for fl in &fails.0 {
                for sy in &fl.symptoms {
                    report.count(&format!("symptom_{sy}"));
                }
            }
            let v = json!({"input": c.to_json(), "what": f.what, "symptoms": f.symptoms, "all": fails.0.len(),
                "more": fails.0.iter().skip(1).take(3).map(|x| x.what.chars().take(300).collect::<String>()).collect::<Vec<_>>(), "class": class});
            if class.is_null() {
                report.oracle_failure(v);
            } else {
                report.count(&format!("oracle_failures_class_{}", class.as_str().unwrap_or("?")));
                classified.push(v);
            }
        }
        if report.samples.len() < 2 {
            report.sample(json!({"case": c.to_json()}));
        }
    }
    for v in classified {
        report.oracle_failure(v);
    }
    report.add("excluded_nondeterministic_fresh_analysis", excluded);

    // ties
    module::tie_lifecycle(&mut rng, n_mod, report);
    dbtie::run(&prop, &mut rng, n_db, args.thorough(), report);
    symtie::run(&mut rng, n_db, report);
    let mut extra: BTreeMap<String, Value> = BTreeMap::new();
    extra.insert("oracle_cases".into(), json!(cases.len()));
    report.extra.extend(extra);
}
