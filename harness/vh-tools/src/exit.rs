//! C36: the real severity filter and the real `output_result` on synthetic inputs.
use emmylua_check::cmd_args::{DiagnosticSeverityFilter, OutputDestination, OutputFormat};
use emmylua_check::verif::output_result;
use emmylua_code_analysis::{EmmyLuaAnalysis, FileId, file_path_to_uri};
use lsp_types::{Diagnostic, DiagnosticSeverity, NumberOrString, Position, Range};
use serde_json::{Value, json};
use std::io::Write;
use std::path::PathBuf;

fn sev_of(v: &Value) -> Option<DiagnosticSeverity> {
    if v.is_null() { None } else { Some(serde_json::from_value(v.clone()).expect("severity")) }
}

fn filter_of(v: &Value) -> Option<DiagnosticSeverityFilter> {
    match v.as_str() {
        Some("error") => Some(DiagnosticSeverityFilter::Error),
        Some("warn") => Some(DiagnosticSeverityFilter::Warn),
        Some("info") => Some(DiagnosticSeverityFilter::Info),
        Some("hint") => Some(DiagnosticSeverityFilter::Hint),
        _ => None,
    }
}

const FILTERS: [(&str, DiagnosticSeverityFilter); 4] = [
    ("error", DiagnosticSeverityFilter::Error),
    ("warn", DiagnosticSeverityFilter::Warn),
    ("info", DiagnosticSeverityFilter::Info),
    ("hint", DiagnosticSeverityFilter::Hint),
];

pub const FILE_TEXT: &str = "local v0 = 0\nlocal v1 = 1\nlocal v2 = 2\nlocal v3 = 3\nlocal v4 = 4\n";

/// an analysis holding `k` small main-workspace files f0.lua .. f{k-1}.lua under `root` (not on disk)
fn analysis_with_files(root: &PathBuf, k: usize) -> (EmmyLuaAnalysis, Vec<FileId>) {
    let mut analysis = EmmyLuaAnalysis::new();
    analysis.add_main_workspace(root.clone());
    let mut ids = Vec::new();
    for i in 0..k {
        let uri = file_path_to_uri(&root.join(format!("f{i}.lua"))).expect("uri");
        ids.push(analysis.update_file_by_uri(&uri, Some(FILE_TEXT.to_string())).expect("file id"));
    }
    (analysis, ids)
}

fn diag(id: u64, sev: Option<DiagnosticSeverity>, line: u32, c0: u32, c1: u32) -> Diagnostic {
    Diagnostic {
        range: Range { start: Position { line, character: c0 }, end: Position { line, character: c1 } },
        severity: sev,
        code: Some(NumberOrString::String(format!("c{id}"))),
        message: format!("d{id}"),
        ..Default::default()
    }
}

fn run_one(
    analysis: &EmmyLuaAnalysis,
    root: &PathBuf,
    total: usize,
    msgs: Vec<(FileId, Option<Vec<Diagnostic>>)>,
    format: OutputFormat,
    dest: OutputDestination,
    wae: bool,
    filter: Option<DiagnosticSeverityFilter>,
) -> i32 {
    let rt = tokio::runtime::Builder::new_current_thread().build().expect("runtime");
    rt.block_on(async {
        let (tx, rx) = tokio::sync::mpsc::channel(msgs.len().max(1));
        for m in msgs {
            tx.send(m).await.expect("send");
        }
        drop(tx);
        output_result(total, analysis.compilation.get_db(), root.clone(), rx, format, dest, wae, filter).await
    })
}

/// T-exec: the real functions evaluated over their finite domains.
pub fn table() -> i32 {
    let sevs: Vec<Value> = std::iter::once(Value::Null).chain((-1..=6).map(|n| json!(n))).collect();
    let mut allows = Vec::new();
    for (name, f) in FILTERS {
        for s in &sevs {
            allows.push(json!({"filter": name, "sev": s, "allows": f.allows(sev_of(s))}));
        }
    }
    let root = PathBuf::from("/verif-virtual/exit");
    let (analysis, ids) = analysis_with_files(&root, 1);
    let mut exits = Vec::new();
    let filters: Vec<Value> = vec![Value::Null, json!("error"), json!("warn"), json!("info"), json!("hint")];
    for fl in &filters {
        for wae in [false, true] {
            for s in &sevs {
                let msgs = vec![(ids[0], Some(vec![diag(0, sev_of(s), 0, 0, 1)]))];
                let code = run_one(
                    &analysis, &root, 1, msgs, OutputFormat::Json,
                    OutputDestination::File(PathBuf::from("/dev/null")), wae, filter_of(fl),
                );
                exits.push(json!({"filter": fl, "wae": wae, "sev": s, "exit": code}));
            }
        }
    }
    println!("{}", json!({"allows": allows, "exits": exits}));
    0
}

/// exit-run: every case runs the real `output_result`; stdout carries `@@BEGIN i` … report … `@@END i exit=N`.
pub fn run(cases_path: &str, dir: &str) -> i32 {
    let spec: Value = serde_json::from_str(&std::fs::read_to_string(cases_path).expect("cases")).expect("json");
    let k = spec["files"].as_u64().unwrap_or(4) as usize;
    let root = PathBuf::from("/verif-virtual/exit");
    let (analysis, ids) = analysis_with_files(&root, k);
    for (i, case) in spec["cases"].as_array().expect("cases").iter().enumerate() {
        let mut msgs = Vec::new();
        for m in case["msgs"].as_array().expect("msgs") {
            let f = ids[m["file"].as_u64().expect("file") as usize];
            let ds = if m["diags"].is_null() {
                None
            } else {
                Some(
                    m["diags"].as_array().expect("diags").iter().map(|d| {
                        diag(
                            d["id"].as_u64().expect("id"), sev_of(&d["sev"]),
                            d["line"].as_u64().unwrap_or(0) as u32,
                            d["c0"].as_u64().unwrap_or(0) as u32, d["c1"].as_u64().unwrap_or(1) as u32,
                        )
                    }).collect::<Vec<_>>(),
                )
            };
            msgs.push((f, ds));
        }
        let format = match case["format"].as_str() {
            Some("json") => OutputFormat::Json,
            Some("sarif") => OutputFormat::Sarif,
            _ => OutputFormat::Text,
        };
        let dest = if case["dest"].as_str() == Some("file") {
            OutputDestination::File(PathBuf::from(dir).join(format!("case_{i}.out")))
        } else {
            OutputDestination::Stdout
        };
        println!("@@BEGIN {i}");
        let code = run_one(
            &analysis, &root, case["total"].as_u64().expect("total") as usize, msgs, format, dest,
            case["wae"].as_bool().unwrap_or(false), filter_of(&case["filter"]),
        );
        let _ = std::io::stdout().flush();
        println!("\n@@END {i} exit={code}");
    }
    0
}
