//! C38 oracle: one shared analysis (`Arc<EmmyLuaAnalysis>`), many threads issuing read-only queries
//! (diagnose_file, semantic info of every name token) at the same time; every thread's answers must equal
//! the answers computed sequentially before. `EmmyLuaAnalysis: Send + Sync` is required by `Arc` + `spawn`
//! — checked by the compiler here without any help from this crate.
use crate::ws;
use emmylua_code_analysis::{EmmyLuaAnalysis, FileId, RenderLevel, humanize_type};
use emmylua_parser::{LuaAstNode, LuaTokenKind};
use rowan::NodeOrToken;
use serde_json::{Value, json};
use std::sync::{Arc, Barrier};

/// canonical answers for one file: diagnostics + semantic info (rendered type, decl kind) per name token
fn query_file(analysis: &EmmyLuaAnalysis, id: FileId) -> String {
    let mut out = String::new();
    let mut diags = match ws::diagnostics_json(analysis, id) {
        Value::Array(a) => a.iter().map(|d| d.to_string()).collect::<Vec<_>>(),
        _ => vec!["<none>".to_string()],
    };
    diags.sort();
    out.push_str(&diags.join("\n"));
    out.push_str("\n--semantic--\n");
    if let Some(model) = analysis.compilation.get_semantic_model(id) {
        let root = model.get_root().clone();
        for tok in root.syntax().descendants_with_tokens().filter_map(|e| e.into_token()) {
            if tok.kind() != LuaTokenKind::TkName.into() {
                continue;
            }
            let start: u32 = tok.text_range().start().into();
            match model.get_semantic_info(NodeOrToken::Token(tok.clone())) {
                Some(info) => {
                    let ty = humanize_type(model.get_db(), &info.typ, RenderLevel::Simple);
                    let decl = info.semantic_decl.map(|d| format!("{d:?}")).unwrap_or_default();
                    out.push_str(&format!("{start}:{}:{ty}:{decl}\n", tok.text()));
                }
                None => out.push_str(&format!("{start}:{}:<none>\n", tok.text())),
            }
        }
    }
    out
}

fn fnv(s: &str) -> u64 {
    let mut h: u64 = 0xcbf29ce484222325;
    for b in s.as_bytes() {
        h ^= *b as u64;
        h = h.wrapping_mul(0x100000001b3);
    }
    h
}

/// `conc WORKSPACE THREADS ROUNDS`
pub fn conc(main: &str, threads: usize, rounds: usize) -> i32 {
    let analysis = Arc::new(ws::load(main));
    let files = ws::main_files(&analysis);
    let sequential: Vec<String> = files.iter().map(|(_, id)| query_file(&analysis, *id)).collect();
    // a second sequential pass: queries must not change the answers either
    let again: Vec<String> = files.iter().map(|(_, id)| query_file(&analysis, *id)).collect();
    let mut failures = Vec::new();
    if sequential != again {
        failures.push(json!({"kind": "sequential-repeat-differs"}));
    }
    let seq = Arc::new(sequential);
    let files = Arc::new(files);
    let mut queries = 0u64;
    for round in 0..rounds {
        let barrier = Arc::new(Barrier::new(threads));
        let mut handles = Vec::new();
        for t in 0..threads {
            let analysis = analysis.clone();
            let files = files.clone();
            let seq = seq.clone();
            let barrier = barrier.clone();
            handles.push(std::thread::spawn(move || {
                barrier.wait();
                let mut bad = Vec::new();
                let n = files.len();
                // every thread walks all files, starting at a different one, so that the same file is
                // queried by several threads at once
                for k in 0..n {
                    let i = (k + t * 7 + round) % n;
                    let got = match vh_common::catch(std::panic::AssertUnwindSafe(|| query_file(&analysis, files[i].1))) {
                        Ok(s) => s,
                        Err(e) => format!("<panic {e}>"),
                    };
                    if got != seq[i] {
                        bad.push(json!({"kind": "concurrent-differs-from-sequential", "file": files[i].0, "thread": t,
                            "sequential_hash": fnv(&seq[i]), "concurrent_hash": fnv(&got),
                            "first_difference": first_diff(&seq[i], &got)}));
                    }
                }
                (n as u64, bad)
            }));
        }
        for h in handles {
            match h.join() {
                Ok((n, bad)) => {
                    queries += n;
                    failures.extend(bad);
                }
                Err(_) => failures.push(json!({"kind": "thread-panicked"})),
            }
        }
    }
    let tokens: usize = seq.iter().map(|s| s.lines().count()).sum();
    println!(
        "{}",
        json!({"files": files.len(), "threads": threads, "rounds": rounds, "file_queries": queries,
               "answer_lines": tokens, "failures": failures,
               "digest": seq.iter().map(|s| fnv(s)).collect::<Vec<_>>()})
    );
    0
}

fn first_diff(a: &str, b: &str) -> Value {
    for (x, y) in a.lines().zip(b.lines()) {
        if x != y {
            return json!({"sequential": x, "concurrent": y});
        }
    }
    json!({"sequential_lines": a.lines().count(), "concurrent_lines": b.lines().count()})
}
