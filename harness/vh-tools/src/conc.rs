//! C38 oracle: one shared analysis (`Arc<EmmyLuaAnalysis>`), many threads issuing read-only queries
//! (diagnose_file, semantic info of every name token) at the same time; every thread's answers must equal
//! the answers computed sequentially before. `EmmyLuaAnalysis: Send + Sync` is required by `Arc` + `spawn`
//! — checked by the compiler here without any help from this crate.
use crate::ws;
use emmylua_code_analysis::{EmmyLuaAnalysis, FileId, RenderLevel, humanize_type};
use emmylua_parser::{LuaAstNode, LuaTokenKind};
use rowan::NodeOrToken;
use serde_json::{Value, json};
use std::sync::{Arc, Barrier};

/// canonical answers for one file: diagnostics + semantic info (rendered type, decl kind) per name token
fn query_file(analysis: &EmmyLuaAnalysis, id: FileId) -> String {
    let mut out = String::new();
    let mut diags = match ws::diagnostics_json(analysis, id) {
        Value::Array(a) => a.iter().map(|d| d.to_string()).collect::<Vec<_>>(),
        _ => vec!["<none>".to_string()],
    };
    diags.sort();
    out.push_str(&diags.join("\n"));
    out.push_str("\n--semantic--\n");
    if let Some(model) = analysis.compilation.get_semantic_model(id) {
        let root = model.get_root().clone();
        for tok in root.syntax().descendants_with_tokens().filter_map(|e| e.into_token()) {
            if tok.kind() != LuaTokenKind::TkName.into() {
                continue;
            }
            let start: u32 = tok.text_range().start().into();
            match model.get_semantic_info(NodeOrToken::Token(tok.clone())) {
                Some(info) => {
                    let ty = humanize_type(model.get_db(), &info.typ, RenderLevel::Simple);
                    let decl = info.semantic_decl.map(|d| format!("{d:?}")).unwrap_or_default();
                    out.push_str(&format!("{start}:{}:{ty}:{decl}\n", tok.text()));
                }
                None => out.push_str(&format!("{start}:{}:<none>\n", tok.text())),
            }
        }
    }
    out
}

fn fnv(s: &str) -> u64 {
    let mut h: u64 = 0xcbf29ce484222325;
    for b in s.as_bytes() {
        h ^= *b as u64;
        h = h.wrapping_mul(0x100000001b3);
    }
    h
}

/// diagnostics only (the call the checker and the server issue concurrently), sorted
fn diag_only(analysis: &EmmyLuaAnalysis, id: FileId) -> String {
    let mut diags = match ws::diagnostics_json(analysis, id) {
        Value::Array(a) => a.iter().map(|d| d.to_string()).collect::<Vec<_>>(),
        _ => vec!["<none>".to_string()],
    };
    diags.sort();
    diags.join("\n")
}

fn diag_codes(s: &str, codes: &mut std::collections::BTreeMap<String, u64>) -> u64 {
    let mut n = 0;
    for line in s.lines() {
        if let Ok(v) = serde_json::from_str::<Value>(line) {
            n += 1;
            let c = v["code"].as_str().map(|x| x.to_string()).unwrap_or_else(|| v["code"].to_string());
            *codes.entry(c).or_insert(0) += 1;
        }
    }
    n
}

/// `conc WORKSPACE THREADS ROUNDS`
/// Per round two lock-step phases (a barrier before *every* step, so that the calls of all threads really
/// overlap): phase D — step k: thread t runs `diagnose_file` on file (k + t) mod n (distinct files at the same
/// moment; with byte-identical files these are the calls a per-analysis scratch cache would mix up);
/// phase S — the same with diagnostics + semantic info of every name token. Then a free-running phase in
/// which every thread walks all files from its own offset.
pub fn conc(main: &str, threads: usize, rounds: usize) -> i32 {
    let analysis = Arc::new(ws::load(main));
    let files = ws::main_files(&analysis);
    let n = files.len();
    let seq_diag: Vec<String> = files.iter().map(|(_, id)| diag_only(&analysis, *id)).collect();
    let sequential: Vec<String> = files.iter().map(|(_, id)| query_file(&analysis, *id)).collect();
    // a second sequential pass: queries must not change the answers either
    let again: Vec<String> = files.iter().map(|(_, id)| query_file(&analysis, *id)).collect();
    let again_diag: Vec<String> = files.iter().map(|(_, id)| diag_only(&analysis, *id)).collect();
    let mut failures = Vec::new();
    if sequential != again || seq_diag != again_diag {
        failures.push(json!({"kind": "sequential-repeat-differs"}));
    }
    let mut codes = std::collections::BTreeMap::new();
    let seq_diagnostics: u64 = seq_diag.iter().map(|s| diag_codes(s, &mut codes)).sum();
    let seq = Arc::new(sequential);
    let seqd = Arc::new(seq_diag);
    let files = Arc::new(files);
    let mut queries = 0u64;
    let mut conc_diagnostics = 0u64;
    for round in 0..rounds {
        let barrier = Arc::new(Barrier::new(threads));
        let mut handles = Vec::new();
        for t in 0..threads {
            let analysis = analysis.clone();
            let files = files.clone();
            let seq = seq.clone();
            let seqd = seqd.clone();
            let barrier = barrier.clone();
            handles.push(std::thread::spawn(move || {
                let mut bad = Vec::new();
                let mut count = 0u64;
                let mut ndiag = 0u64;
                let check = |phase: &str, i: usize, got: String, want: &String, bad: &mut Vec<Value>| {
                    if &got != want {
                        bad.push(json!({"kind": "concurrent-differs-from-sequential", "phase": phase, "file": files[i].0, "thread": t,
                            "sequential_lines": want.lines().count(), "concurrent_lines": got.lines().count(),
                            "first_difference": first_diff(want, &got)}));
                    }
                };
                // phase D: lock-step diagnose_file
                for k in 0..n {
                    let i = (k + t + round) % n;
                    barrier.wait();
                    let got = match vh_common::catch(std::panic::AssertUnwindSafe(|| diag_only(&analysis, files[i].1))) {
                        Ok(s) => s,
                        Err(e) => format!("<panic {e}>"),
                    };
                    ndiag += got.lines().filter(|l| l.starts_with('{')).count() as u64;
                    check("lockstep-diagnose", i, got, &seqd[i], &mut bad);
                    count += 1;
                }
                // phase S: lock-step diagnostics + semantic info
                for k in 0..n {
                    let i = (k + t * 3 + round) % n;
                    barrier.wait();
                    let got = match vh_common::catch(std::panic::AssertUnwindSafe(|| query_file(&analysis, files[i].1))) {
                        Ok(s) => s,
                        Err(e) => format!("<panic {e}>"),
                    };
                    check("lockstep-semantic", i, got, &seq[i], &mut bad);
                    count += 1;
                }
                // free-running phase
                barrier.wait();
                for k in 0..n {
                    let i = (k + t * 7 + round) % n;
                    let got = match vh_common::catch(std::panic::AssertUnwindSafe(|| query_file(&analysis, files[i].1))) {
                        Ok(s) => s,
                        Err(e) => format!("<panic {e}>"),
                    };
                    check("free", i, got, &seq[i], &mut bad);
                    count += 1;
                }
                (count, ndiag, bad)
            }));
        }
        for h in handles {
            match h.join() {
                Ok((c, d, bad)) => {
                    queries += c;
                    conc_diagnostics += d;
                    failures.extend(bad);
                }
                Err(_) => failures.push(json!({"kind": "thread-panicked"})),
            }
        }
    }
    let tokens: usize = seq.iter().map(|s| s.lines().count()).sum();
    let nfail = failures.len();
    failures.truncate(20);
    println!(
        "{}",
        json!({"files": n, "threads": threads, "rounds": rounds, "file_queries": queries,
               "answer_lines": tokens, "failures": failures, "failure_count": nfail,
               "sequential_diagnostics": seq_diagnostics, "diagnostic_codes": codes,
               "lockstep_diagnostics_seen": conc_diagnostics,
               "lockstep_diagnostics_expected": seq_diagnostics * (threads as u64) * (rounds as u64),
               "digest": seq.iter().map(|s| fnv(s)).collect::<Vec<_>>()})
    );
    0
}

fn first_diff(a: &str, b: &str) -> Value {
    for (x, y) in a.lines().zip(b.lines()) {
        if x != y {
            return json!({"sequential": x.chars().take(300).collect::<String>(), "concurrent": y.chars().take(300).collect::<String>()});
        }
    }
    json!({"sequential_lines": a.lines().count(), "concurrent_lines": b.lines().count()})
}
