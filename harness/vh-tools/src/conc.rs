pub fn conc(_ws: &str, _threads: usize, _rounds: usize) -> i32 { 2 }
