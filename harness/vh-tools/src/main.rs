//! vh-tools: in-process helper of the determinism/tools cluster (C36, C11, C35, C38).
//! The python runners under checklib/run/tools_*.py drive the real binaries in fresh processes and call
//! this binary for everything that needs the Rust crates in-process:
//!   exit-table                 T-exec rows of `DiagnosticSeverityFilter::allows` and of the exit logic
//!   exit-run CASES.json DIR    run the real `output_result` (hook) on synthetic diagnostics
//!   diag WORKSPACE             reference diagnostics of the main-workspace files through the public API
//!   fileids WORKSPACE          file ids of the workspace files as the tools' loaders assign them
//!   order CASES.json           real `get_best_analysis_order` on generated dependency graphs
//!   batch CASES.json           real `update_files_by_uri`: ids handed to the pipelines, in order
//!   conc WORKSPACE THREADS R   multi-threaded vs sequential diagnostics / semantic info on one analysis
mod conc;
mod exit;
mod order;
mod ws;

fn main() {
    let args: Vec<String> = std::env::args().skip(1).collect();
    let cmd = args.first().map(|s| s.as_str()).unwrap_or("");
    let code = match cmd {
        "exit-table" => exit::table(),
        "exit-run" => exit::run(&args[1], &args[2]),
        "diag" => ws::diag(&args[1]),
        "fileids" => ws::fileids(&args[1]),
        "order" => order::order(&args[1]),
        "batch" => order::batch(&args[1]),
        "conc" => conc::conc(&args[1], args[2].parse().unwrap_or(8), args[3].parse().unwrap_or(1)),
        _ => {
            eprintln!("usage: vh-tools exit-table | exit-run F DIR | diag WS | order F | batch F | conc WS THREADS ROUNDS");
            2
        }
    };
    std::process::exit(code);
}
