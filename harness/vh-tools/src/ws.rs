//! Loading a workspace the way `emmylua_check` / `emmylua_doc_cli` do, through the public API only
//! (their own `init::load_workspace` is private), and reference diagnostics for the main-workspace files.
use emmylua_code_analysis::{
    EmmyLuaAnalysis, FileId, WorkspaceFolder, build_workspace_folders, collect_workspace_files, load_configs,
};
use serde_json::{Map, Value, json};
use std::path::PathBuf;
use tokio_util::sync::CancellationToken;

pub fn load(main: &str) -> EmmyLuaAnalysis {
    let main_path = PathBuf::from(main).canonicalize().expect("workspace path");
    let config_files: Vec<PathBuf> = vec![main_path.join(".luarc.json"), main_path.join(".emmyrc.json")]
        .into_iter()
        .filter(|p| p.exists())
        .collect();
    let mut emmyrc = load_configs(config_files, None);
    emmyrc.pre_process_emmyrc(&main_path);
    let folders = vec![WorkspaceFolder::new(main_path.clone(), false)];
    let mut analysis = EmmyLuaAnalysis::new();
    analysis.update_config(emmyrc.clone().into());
    analysis.init_std_lib(None);
    let folders = build_workspace_folders(&folders, &emmyrc);
    for w in &folders {
        if w.is_library {
            analysis.add_library_workspace(w);
        } else {
            analysis.add_main_workspace(w.root.clone());
        }
    }
    let infos = collect_workspace_files(&folders, &analysis.emmyrc, None, None);
    let files = infos.into_iter().map(|f| f.into_tuple()).collect();
    analysis.update_files_by_path(files);
    analysis
}

pub fn main_files(analysis: &EmmyLuaAnalysis) -> Vec<(String, FileId)> {
    let db = analysis.compilation.get_db();
    let mut v: Vec<(String, FileId)> = db
        .get_module_index()
        .get_main_workspace_file_ids()
        .into_iter()
        .filter_map(|id| db.get_vfs().get_file_path(&id).map(|p| (p.to_string_lossy().to_string(), id)))
        .collect();
    v.sort();
    v
}

pub fn diagnostics_json(analysis: &EmmyLuaAnalysis, id: FileId) -> Value {
    match analysis.diagnose_file(id, CancellationToken::new()) {
        None => Value::Null,
        Some(ds) => Value::Array(ds.into_iter().map(|d| serde_json::to_value(d).expect("diag")).collect()),
    }
}

/// `diag WORKSPACE`: {"files": {path: [diagnostic…] | null}}
pub fn diag(main: &str) -> i32 {
    let analysis = load(main);
    let mut files = Map::new();
    for (path, id) in main_files(&analysis) {
        files.insert(path, diagnostics_json(&analysis, id));
    }
    println!("{}", json!({"files": files}));
    0
}

/// `fileids WORKSPACE`: {"files": {path: file id}} for every non-std file, as the loaders of
/// emmylua_check / emmylua_doc_cli register them (same collection order, hence the same ids)
pub fn fileids(main: &str) -> i32 {
    let analysis = load(main);
    let db = analysis.compilation.get_db();
    let mut files = Map::new();
    for id in db.get_vfs().get_all_local_file_ids() {
        if db.get_module_index().is_std(&id) {
            continue;
        }
        if let Some(p) = db.get_vfs().get_file_path(&id) {
            files.insert(p.to_string_lossy().to_string(), json!(id.id));
        }
    }
    println!("{}", json!({"files": files}));
    0
}
