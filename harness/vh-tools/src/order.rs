//! C11: the real `get_best_analysis_order` and the real `update_files_by_uri` on generated inputs.
use emmylua_code_analysis::{EmmyLuaAnalysis, FileId, LuaDependencyIndex, file_path_to_uri};
use serde_json::{Value, json};
use std::path::PathBuf;

fn ids_of(v: &Value) -> Vec<FileId> {
    v.as_array().map(|a| a.iter().map(|x| FileId::new(x.as_u64().unwrap_or(0) as u32)).collect()).unwrap_or_default()
}

/// `order CASES.json`: {"cases":[{"ids":[..],"metas":[..],"deps":[[v,[d..]]..]}]} -> {"results":[[..]..]}
pub fn order(path: &str) -> i32 {
    let spec: Value = serde_json::from_str(&std::fs::read_to_string(path).expect("cases")).expect("json");
    let mut results = Vec::new();
    for case in spec["cases"].as_array().expect("cases") {
        let ids = ids_of(&case["ids"]);
        let mut metas: hashbrown::HashSet<FileId> = hashbrown::HashSet::new();
        for m in ids_of(&case["metas"]) {
            metas.insert(m);
        }
        let mut index = LuaDependencyIndex::new();
        for e in case["deps"].as_array().expect("deps") {
            let v = FileId::new(e[0].as_u64().unwrap_or(0) as u32);
            for d in ids_of(&e[1]) {
                index.add_required_file(v, d);
            }
        }
        let r = index.get_file_dependencies().get_best_analysis_order(&ids, &metas);
        results.push(Value::Array(r.iter().map(|f| json!(f.id)).collect()));
    }
    println!("{}", json!({"results": results}));
    0
}

/// `batch CASES.json`: {"cases":[{"pre":k,"ops":[{"name":"f3","text":"…"|null}..]}]}: a fresh analysis per
/// case; `pre` files are registered one by one first; then one `update_files_by_uri` call.
pub fn batch(path: &str) -> i32 {
    let spec: Value = serde_json::from_str(&std::fs::read_to_string(path).expect("cases")).expect("json");
    let root = PathBuf::from("/verif-virtual/batch");
    let mut results = Vec::new();
    for case in spec["cases"].as_array().expect("cases") {
        let mut analysis = EmmyLuaAnalysis::new();
        analysis.add_main_workspace(root.clone());
        for i in 0..case["pre"].as_u64().unwrap_or(0) {
            let uri = file_path_to_uri(&root.join(format!("pre{i}.lua"))).expect("uri");
            analysis.update_file_by_uri(&uri, Some("return 0".to_string()));
        }
        let mut files = Vec::new();
        let mut uris = Vec::new();
        for op in case["ops"].as_array().expect("ops") {
            let uri = file_path_to_uri(&root.join(format!("{}.lua", op["name"].as_str().unwrap_or("x")))).expect("uri");
            let text = op["text"].as_str().map(|s| s.to_string());
            uris.push((uri.clone(), text.is_some()));
            files.push((uri, text));
        }
        let returned = analysis.update_files_by_uri(files);
        let mut set: Vec<u32> = uris.iter().filter(|(_, has)| *has).filter_map(|(u, _)| analysis.get_file_id(u).map(|f| f.id)).collect();
        set.sort();
        set.dedup();
        results.push(json!({"returned": returned.iter().map(|f| f.id).collect::<Vec<_>>(), "updated_set": set}));
    }
    println!("{}", json!({"results": results}));
    0
}
