//! C22 / C23: `LineIndex` vs the Lean `Text` model, plus the properties' own oracles evaluated on
//! the implementation (independent of the model).
use emmylua_code_analysis::{FileId, LuaDocument};
use emmylua_parser::LineIndex;
use rowan::TextSize;
use serde_json::json;
use std::collections::HashSet;
use vh_common::{Args, Report, Rng, gen_text, hex, run_driver};

fn boundaries(t: &str) -> Vec<usize> {
    let mut v: Vec<usize> = t.char_indices().map(|(i, _)| i).collect();
    v.push(t.len());
    v
}

/// independent line table: (start, end_of_reach, utf16 length of reach) per line
fn ref_lines(t: &str) -> Vec<(usize, usize, usize)> {
    let b = t.as_bytes();
    let mut starts = vec![0usize];
    let mut i = 0;
    while i < b.len() {
        if b[i] == b'\n' {
            starts.push(i + 1);
        } else if b[i] == b'\r' {
            if i + 1 < b.len() && b[i + 1] == b'\n' {
                starts.push(i + 2);
                i += 1;
            } else {
                starts.push(i + 1);
            }
        }
        i += 1;
    }
    let mut out = Vec::new();
    for (k, s) in starts.iter().enumerate() {
        let e = if k + 1 < starts.len() { starts[k + 1] - 1 } else { t.len() };
        let u16len = t[*s..e].encode_utf16().count();
        out.push((*s, e, u16len));
    }
    out
}

fn opt(v: Option<TextSize>) -> String {
    match v {
        Some(o) => u32::from(o).to_string(),
        None => "none".into(),
    }
}

/// the same canonical string the driver's `text.grid` prints
fn impl_grid(t: &str, xl: usize, xc: usize) -> Result<String, String> {
    let t2 = t.to_string();
    vh_common::catch(move || {
        let t = t2.as_str();
        let li = LineIndex::parse(t);
        let n = li.line_count();
        let starts: Vec<String> = (0..n).map(|l| opt(li.get_line_offset(l))).collect();
        let lcs: Vec<String> = boundaries(t)
            .into_iter()
            .map(|o| match li.get_line_col(TextSize::new(o as u32), t) {
                Some((l, c)) => format!("{l}:{c}"),
                None => "none".into(),
            })
            .collect();
        // max utf16 length of a full line (with terminator)
        let mut maxc = 0usize;
        for l in 0..n {
            let s = u32::from(li.get_line_offset(l).unwrap()) as usize;
            let e = li.get_line_offset(l + 1).map(|x| u32::from(x) as usize).unwrap_or(t.len());
            maxc = maxc.max(t[s..e].encode_utf16().count());
        }
        let offs: Vec<String> = (0..n + xl)
            .map(|l| (0..maxc + xc).map(|c| opt(li.get_offset(l, c, t))).collect::<Vec<_>>().join(","))
            .collect();
        format!("starts={} lc={} off={}", starts.join(","), lcs.join(","), offs.join(";"))
    })
}

/// the same grid computed through `LuaDocument` (vfs/document.rs) and the remaining `LineIndex`
/// entry points; must be identical to the `LineIndex` grid. Also checks the wrappers against each
/// other: get_col, get_line, get_col_offset_at_line, to_lsp_position, to_lsp_range, to_rowan_range,
/// get_line_range. Returns (grid, inconsistencies).
fn doc_grid(t: &str, xl: usize, xc: usize) -> Result<(String, Vec<String>), String> {
    let t2 = t.to_string();
    vh_common::catch(move || {
        let t = t2.as_str();
        let li = LineIndex::parse(t);
        let path = std::path::PathBuf::from("/v/doc.lua");
        let doc = LuaDocument::new(FileId { id: 0 }, &path, t, &li);
        let mut bad = Vec::new();
        let n = doc.get_line_count();
        let starts: Vec<String> = (0..n).map(|l| opt(doc.get_offset(l, 0))).collect();
        let bs = boundaries(t);
        let lcs: Vec<String> = bs
            .iter()
            .map(|&o| {
                let ts = TextSize::new(o as u32);
                let lc = doc.get_line_col(ts);
                if doc.get_col(ts) != lc.map(|x| x.1) { bad.push(format!("get_col({o}) = {:?} but get_line_col = {lc:?}", doc.get_col(ts))); }
                if li.get_col(ts, t) != lc.map(|x| x.1) { bad.push(format!("LineIndex::get_col({o}) differs from get_line_col")); }
                if doc.get_line(ts) != lc.map(|x| x.0) { bad.push(format!("get_line({o}) = {:?} but get_line_col = {lc:?}", doc.get_line(ts))); }
                if li.get_line_with_start_offset(ts).map(|x| x.0) != lc.map(|x| x.0) { bad.push(format!("get_line_with_start_offset({o}) line differs")); }
                let lp = doc.to_lsp_position(ts).map(|p| (p.line as usize, p.character as usize));
                if lp != lc { bad.push(format!("to_lsp_position({o}) = {lp:?} but get_line_col = {lc:?}")); }
                match lc { Some((l, c)) => format!("{l}:{c}"), None => "none".into() }
            })
            .collect();
        // ranges between boundaries (a few): to_lsp_range and back
        for w in bs.windows(2).take(24).chain(bs.iter().step_by(3).collect::<Vec<_>>().windows(2).map(|w| [*w[0], *w[1]]).collect::<Vec<_>>().iter().map(|x| &x[..])) {
            let r = rowan::TextRange::new(TextSize::new(w[0] as u32), TextSize::new(w[1] as u32));
            let lr = doc.to_lsp_range(r);
            let exp = match (doc.get_line_col(r.start()), doc.get_line_col(r.end())) {
                (Some(a), Some(b)) => Some(((a.0 as u32, a.1 as u32), (b.0 as u32, b.1 as u32))),
                _ => None,
            };
            let got = lr.map(|x| ((x.start.line, x.start.character), (x.end.line, x.end.character)));
            if got != exp { bad.push(format!("to_lsp_range({w:?}) = {got:?}, expected {exp:?}")); }
            if let Some(x) = lr {
                let back = doc.to_rowan_range(x);
                if back != Some(r) { bad.push(format!("[C22] to_rowan_range(to_lsp_range({w:?})) = {back:?}")); }
            }
        }
        let mut maxc = 0usize;
        for l in 0..n {
            let s = u32::from(li.get_line_offset(l).unwrap()) as usize;
            let e = li.get_line_offset(l + 1).map(|x| u32::from(x) as usize).unwrap_or(t.len());
            maxc = maxc.max(t[s..e].encode_utf16().count());
            // get_line_range: [start, next start) or [start, len) on the last non-empty line
            let lr = doc.get_line_range(l);
            let exp = if e > s || l + 1 < n { Some((s as u32, e as u32)) } else { None };
            if lr.map(|r| (u32::from(r.start()), u32::from(r.end()))) != exp { bad.push(format!("get_line_range({l}) = {lr:?}, expected {exp:?}")); }
        }
        let offs: Vec<String> = (0..n + xl)
            .map(|l| (0..maxc + xc).map(|c| {
                let o = doc.get_offset(l, c);
                let rel = doc.get_col_offset_at_line(l, c);
                let st = li.get_line_offset(l);
                let exp_rel = match (o, st) { (Some(o), Some(st)) => Some(o - st), _ => None };
                if rel != exp_rel { bad.push(format!("[C22] get_col_offset_at_line({l},{c}) = {rel:?}, get_offset - line start = {exp_rel:?}")); }
                opt(o)
            }).collect::<Vec<_>>().join(","))
            .collect();
        (format!("starts={} lc={} off={}", starts.join(","), lcs.join(","), offs.join(";")), bad)
    })
}

/// property oracles on the implementation. Returns (c22 failures, c23 failures).
fn oracles(t: &str) -> (Vec<String>, Vec<String>) {
    let mut f22 = Vec::new();
    let mut f23 = Vec::new();
    let t2 = t.to_string();
    let r = vh_common::catch(move || {
        let t = t2.as_str();
        let mut f22 = Vec::new();
        let mut f23 = Vec::new();
        let li = LineIndex::parse(t);
        let lines = ref_lines(t);
        // C23 line split
        if li.line_count() != lines.len() {
            f23.push(format!("line_count {} but the text has {} lines (\\n, \\r\\n, \\r)", li.line_count(), lines.len()));
        }
        for (k, (s, _, _)) in lines.iter().enumerate() {
            if k < li.line_count() && li.get_line_offset(k).map(u32::from) != Some(*s as u32) {
                f23.push(format!("line {k} starts at {:?}, expected {s}", li.get_line_offset(k)));
                break;
            }
        }
        // C22 roundtrip + C23 utf16 columns
        for o in boundaries(t) {
            match li.get_line_col(TextSize::new(o as u32), t) {
                None => f22.push(format!("offset {o}: no position")),
                Some((l, c)) => {
                    match li.get_offset(l, c, t) {
                        Some(back) if u32::from(back) as usize == o => {}
                        other => f22.push(format!("roundtrip offset {o} -> ({l},{c}) -> {other:?}")),
                    }
                    // independent: line containing o, utf16 prefix length
                    let mut rl = 0;
                    for (k, (s, _, _)) in lines.iter().enumerate() {
                        if *s <= o { rl = k; }
                    }
                    let rc = t[lines[rl].0..o].encode_utf16().count();
                    if (l, c) != (rl, rc) {
                        f23.push(format!("offset {o} -> ({l},{c}), UTF-16 position is ({rl},{rc})"));
                    }
                }
            }
        }
        // C22 clamp / missing line
        let maxc = lines.iter().map(|x| x.2).max().unwrap_or(0) + 3;
        for l in 0..lines.len() + 2 {
            for c in (0..maxc).chain([1000usize, u32::MAX as usize]) {
                let r = li.get_offset(l, c, t);
                if l >= lines.len() {
                    if r.is_some() { f22.push(format!("missing line {l} col {c} -> {r:?}")); }
                    continue;
                }
                let (s, e, u16len) = lines[l];
                match r {
                    None => f22.push(format!("existing line {l} col {c} -> none")),
                    Some(off) => {
                        let off = u32::from(off) as usize;
                        if off > t.len() { f22.push(format!("({l},{c}) -> {off} beyond document end {}", t.len())); }
                        else if off < s || off > e { f22.push(format!("({l},{c}) -> {off} outside its line [{s},{e}]")); }
                        else if c >= u16len && off != e { f22.push(format!("({l},{c}) past line end -> {off}, expected clamp to {e}")); }
                        else if !t.is_char_boundary(off) { f22.push(format!("({l},{c}) -> {off} not a char boundary")); }
                    }
                }
            }
        }
        (f22, f23)
    });
    match r {
        Ok((a, b)) => { f22 = a; f23 = b; }
        Err(msg) => { f22.push(format!("panic: {msg}")); f23.push(format!("panic: {msg}")); }
    }
    (f22, f23)
}

pub fn corpus() -> Vec<String> {
    vec![
        "ab\ncdef\ngh".into(), "a😀b\r\nc".into(), "a\rb".into(), "".into(), "\n".into(), "\r".into(),
        "\r\n".into(), "é\n中😀\r\nz".into(), "\u{feff}local a\r\rb".into(), "x\n\n\ny".into(), "😀".into(),
        "ab\r".into(), "中\r\n".into(),
    ]
}

pub fn run(args: &Args, report: &mut Report) {
    let mut rng = Rng::new(args.seed);
    let mut texts: Vec<String> = corpus();
    if let Some(p) = &args.replay {
        let v: serde_json::Value = serde_json::from_str(&std::fs::read_to_string(p).expect("replay file")).expect("json");
        texts = vec![vh_common::unhex(v["input"]["text_hex"].as_str().unwrap_or("-")).unwrap_or_default()];
    } else if args.thorough() {
        texts.extend(gen_text::all_texts(&["a", "é", "😀", "\n", "\r"], 7));
        for _ in 0..200_000 { texts.push(gen_text::text(&mut rng, 40)); }
        report.extra.insert("exhaustive_scope".into(), json!("all texts of length <= 7 over {a, é, 😀, \\n, \\r}"));
    } else {
        texts.extend(gen_text::all_texts(&["a", "😀", "\n", "\r"], 5));
        for _ in 0..4000 { texts.push(gen_text::text(&mut rng, 30)); }
    }
    if args.replay.is_none() {
        // line-width sweeps: every terminator x filler class x width 0..=130 (catches block-wise scanners)
        for term in ["\n", "\r\n", "\r"] {
            for filler in ["a", "é", "😀"] {
                for w in 0..=130usize {
                    if filler != "a" && w > 70 { continue; }
                    let mut t = filler.repeat(w);
                    t.push_str(term);
                    t.push('x');
                    t.push_str(term);
                    texts.push(t);
                }
            }
        }
        for w in 0..=70usize {
            texts.push(format!("{}\r\n{}\r\n", "b".repeat(w), "c".repeat(70 - w)));
            texts.push(format!("{}\r{}\n{}\r", "b".repeat(w), "é".repeat(w % 7), "c".repeat(70 - w)));
        }
        let n_long = if args.thorough() { 20_000 } else { 300 };
        for _ in 0..n_long { texts.push(gen_text::text(&mut rng, 160)); }
    }
    report.rule = "texts over {ASCII, BMP, astral, \\n, \\r, \\r\\n, BOM}: corpus + exhaustive small texts + width sweeps 0..130 per terminator/filler + seeded random (short and up to 160 pieces); per text every char-boundary offset and a (line, col) grid incl. missing lines and columns past the end; a text is non-trivial when it has >= 2 lines or a non-ASCII char; distinct by content".into();
    let mut seen = HashSet::new();
    let reqs: Vec<String> = texts.iter().map(|t| format!("text.grid {} 2 3", hex(t))).collect();
    let model = run_driver(&reqs);
    let want23 = args.prop == "C23";
    // C23's theorems concern line splitting and columns (starts, lc); C22's concern lc and off
    let view = |g: &str| -> String {
        if want23 { g.split(" off=").next().unwrap_or(g).to_string() } else { g.to_string() }
    };
    for (t, m) in texts.iter().zip(model.iter()) {
        report.evaluations += 1;
        let nontrivial = t.contains('\n') || t.contains('\r') || !t.is_ascii();
        if nontrivial && seen.insert(t.clone()) { report.distinct_nontrivial += 1; }
        if t.contains('\r') { report.count("has_cr"); }
        if !t.is_ascii() { report.count("non_ascii"); }
        if t.chars().any(|c| c.len_utf16() == 2) { report.count("astral"); }
        report.add("positions", (t.chars().count() + 1) as u64);
        let i = impl_grid(t, 2, 3);
        let istr = match &i { Ok(s) => format!("ok {s}"), Err(e) => format!("err panic ({e})") };
        if view(&istr) != view(m) {
            report.mismatch(json!({"input": {"text_hex": hex(t), "text": t}, "model": m, "impl": istr,
                "tie": "correspondence text.grid (LineIndex vs Text model)"}));
        } else {
            report.traces_validated += 1;
        }
        // LuaDocument wrappers and the other LineIndex entry points must agree with the same grid
        match doc_grid(t, 2, 3) {
            Ok((g, bad)) => {
                if view(&format!("ok {g}")) != view(m) {
                    report.mismatch(json!({"input": {"text_hex": hex(t), "text": t}, "model": m, "impl": format!("ok {g}"),
                        "tie": "correspondence text.grid (LuaDocument vs Text model)"}));
                }
                let bad: Vec<String> = bad.into_iter().filter(|b| if want23 { !b.starts_with("[C22]") } else { true }).collect();
                if let Some(b) = bad.first() {
                    report.oracle_failure(json!({"input": {"text_hex": hex(t), "text": t}, "what": format!("conversion entry points disagree: {b}"), "all": bad.len(), "class": null}));
                }
            }
            Err(e) => report.oracle_failure(json!({"input": {"text_hex": hex(t), "text": t}, "what": format!("panic in a LuaDocument conversion: {e}"), "class": null})),
        }
        let (f22, f23) = oracles(t);
        let fs = if want23 { f23 } else { f22 };
        if let Some(first) = fs.first() {
            report.oracle_failure(json!({"input": {"text_hex": hex(t), "text": t}, "what": first, "all": fs.len()}));
        }
        report.sample(json!({"text": t, "grid": m}));
    }
}
