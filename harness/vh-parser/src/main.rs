//! Harness binary for properties whose mechanism lives in `emmylua_parser`.
mod text;

use vh_common::{Args, Report};

fn main() {
    let args = Args::parse();
    vh_common::silence_panics();
    let mut report = Report::default();
    match args.prop.as_str() {
        "C22" | "C23" => text::run(&args, &mut report),
        other => {
            eprintln!("vh-parser: unknown property {other}");
            std::process::exit(2);
        }
    }
    report.write(&args.out);
}
